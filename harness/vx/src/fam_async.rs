//! Family `async`: shuttle::future::{spawn, block_on, yield_now, JoinHandle} with hand-written
//! leaf futures (C17).  Every program thread is a task; main runs under `block_on`.

use crate::prog::*;
use shuttle::sync::atomic::{AtomicBool, Ordering};
use std::cell::RefCell;
use std::future::Future;
use std::pin::Pin;
use std::task::{Context, Poll, Waker};

#[derive(Clone, Debug, PartialEq, Eq, Hash)]
pub enum AsOp {
    /// future::yield_now().await — wakes itself during its own poll
    Yield,
    /// await a leaf future that is Ready iff flag f is set, else registers the polling task's waker
    FlagWait(usize),
    /// set flag f, then wake the registered waker (a wake after the waiter's poll)
    FlagSet(usize),
    /// create the leaf future for flag f, poll it once here, park it in the shared slot
    FlagWaitStart(usize),
    /// await the future parked in the shared slot (created and first polled by another task)
    FlagWaitShared,
    /// a leaf future whose poll checks flag f, registers the waker, then blocks *synchronously*
    /// (nested block_on) until flag g is set, and only then returns Pending on the stale check: the
    /// wake for f may arrive while the task sleeps inside its own poll
    FlagWaitNested(usize, usize),
    /// a leaf future whose poll reads flag f, registers the waker, passes a scheduling point and
    /// answers from the stale read: the wake may arrive during the poll
    FlagWaitRacy(usize),
    /// thread::park() called inside the task (blocks synchronously; spuriously wakeable)
    Park,
    /// unpark the main task (the thread that runs block_on)
    UnparkMain,
    /// block_on(yield_now()) inside a task: nested block_on
    NestedBlockOnYield,
    /// block_on(leaf future for flag f) inside a task
    NestedBlockOnFlag(usize),
}

#[derive(Clone, Debug, PartialEq, Eq, Hash, PartialOrd, Ord)]
pub enum AsRes {
    Unit,
    Pending,
    Ready,
    Nothing,
}

pub struct Flag {
    set: AtomicBool,
    /// every waiter's most recent waker (a correct multi-waiter leaf future)
    waker: RefCell<Vec<Waker>>,
}

struct FlagFuture<'a> {
    flag: &'a Flag,
}

impl Future for FlagFuture<'_> {
    type Output = ();
    fn poll(self: Pin<&mut Self>, cx: &mut Context<'_>) -> Poll<()> {
        // `load` is a Shuttle atomic: a scheduling point precedes the read
        if self.flag.set.load(Ordering::SeqCst) {
            Poll::Ready(())
        } else {
            // registering is plain memory, in the same step as the read that saw `false`
            let mut ws = self.flag.waker.borrow_mut();
            if !ws.iter().any(|w| w.will_wake(cx.waker())) {
                ws.push(cx.waker().clone());
            }
            Poll::Pending
        }
    }
}

/// see AsOp::FlagWaitNested / FlagWaitRacy
struct StaleFuture<'a> {
    flag: &'a Flag,
    nested: Option<&'a Flag>,
    dummy: &'a shuttle::sync::atomic::AtomicUsize,
}

impl Future for StaleFuture<'_> {
    type Output = ();
    fn poll(self: Pin<&mut Self>, cx: &mut Context<'_>) -> Poll<()> {
        let ready = self.flag.set.load(Ordering::SeqCst);
        if ready {
            return Poll::Ready(());
        }
        {
            let mut ws = self.flag.waker.borrow_mut();
            if !ws.iter().any(|w| w.will_wake(cx.waker())) {
                ws.push(cx.waker().clone());
            }
        }
        match self.nested {
            Some(g) => shuttle::future::block_on(FlagFuture { flag: g }),
            None => {
                // a scheduling point inside the poll, after the waker has been registered
                self.dummy.load(Ordering::SeqCst);
            }
        }
        Poll::Pending
    }
}

pub struct AsObjs {
    // NB drop order: the parked future borrows the flags
    shared: RefCell<Option<Pin<Box<FlagFuture<'static>>>>>,
    /// accessed before every use of the shared slot: tasks communicate through Shuttle primitives only
    slot_sync: shuttle::sync::atomic::AtomicUsize,
    dummy: shuttle::sync::atomic::AtomicUsize,
    main_thread: shuttle::thread::Thread,
    flags: Vec<Flag>,
}

#[derive(Clone, Debug, PartialEq, Eq, Hash)]
pub struct AsM {
    /// park state of the main task: (token, parked, woken)
    park: (bool, bool, bool),
    set: Vec<bool>,
    /// which flag the parked shared future waits for (None = slot empty)
    shared: Option<usize>,
}

pub struct AsyncFam;

unsafe fn ext<'a, T>(r: &'a T) -> &'static T {
    std::mem::transmute(r)
}

impl Family for AsyncFam {
    type Op = AsOp;
    type Res = AsRes;
    type Cfg = usize; // number of flags
    type Objs = AsObjs;
    type Locals = ();
    type M = AsM;
    const NAME: &'static str = "async";
    const ASYNC: bool = true;

    fn make_objs(cfg: &usize, _n: usize) -> AsObjs {
        AsObjs {
            shared: RefCell::new(None),
            slot_sync: shuttle::sync::atomic::AtomicUsize::new(0),
            dummy: shuttle::sync::atomic::AtomicUsize::new(0),
            main_thread: shuttle::thread::current(),
            flags: (0..*cfg)
                .map(|_| Flag {
                    set: AtomicBool::new(false),
                    waker: RefCell::new(Vec::new()),
                })
                .collect(),
        }
    }
    fn new_locals(_cfg: &usize, _t: usize) {}
    fn exec(_o: &AsObjs, _l: &mut (), _t: usize, _op: &AsOp) -> AsRes {
        unreachable!("async family")
    }
    fn exec_async<'a>(o: &'a AsObjs, _l: &'a mut (), _t: usize, op: &'a AsOp) -> Pin<Box<dyn Future<Output = AsRes> + 'a>> {
        Box::pin(async move {
            match op {
                AsOp::Yield => {
                    shuttle::future::yield_now().await;
                    AsRes::Unit
                }
                AsOp::FlagWait(f) => {
                    FlagFuture { flag: &o.flags[*f] }.await;
                    AsRes::Unit
                }
                AsOp::FlagSet(f) => {
                    o.flags[*f].set.store(true, Ordering::SeqCst);
                    let ws = std::mem::take(&mut *o.flags[*f].waker.borrow_mut());
                    for w in ws {
                        w.wake();
                    }
                    AsRes::Unit
                }
                AsOp::FlagWaitStart(f) => {
                    o.slot_sync.fetch_add(1, Ordering::SeqCst);
                    let flag: &'static Flag = unsafe { ext(&o.flags[*f]) };
                    let mut fut = Box::pin(FlagFuture { flag });
                    let waker = shuttle_engine::runtime::execution::ExecutionState::with(|s| s.current_mut().waker());
                    let mut cx = Context::from_waker(&waker);
                    match fut.as_mut().poll(&mut cx) {
                        Poll::Ready(()) => AsRes::Ready,
                        Poll::Pending => {
                            *o.shared.borrow_mut() = Some(fut);
                            AsRes::Pending
                        }
                    }
                }
                AsOp::FlagWaitShared => {
                    o.slot_sync.fetch_add(1, Ordering::SeqCst);
                    let fut = o.shared.borrow_mut().take();
                    match fut {
                        None => AsRes::Nothing,
                        Some(fut) => {
                            fut.await;
                            AsRes::Unit
                        }
                    }
                }
                AsOp::FlagWaitNested(f, g) => {
                    StaleFuture { flag: &o.flags[*f], nested: Some(&o.flags[*g]), dummy: &o.dummy }.await;
                    AsRes::Unit
                }
                AsOp::FlagWaitRacy(f) => {
                    StaleFuture { flag: &o.flags[*f], nested: None, dummy: &o.dummy }.await;
                    AsRes::Unit
                }
                AsOp::Park => {
                    shuttle::thread::park();
                    AsRes::Unit
                }
                AsOp::UnparkMain => {
                    o.main_thread.unpark();
                    AsRes::Unit
                }
                AsOp::NestedBlockOnYield => {
                    shuttle::future::block_on(shuttle::future::yield_now());
                    AsRes::Unit
                }
                AsOp::NestedBlockOnFlag(f) => {
                    shuttle::future::block_on(FlagFuture { flag: &o.flags[*f] });
                    AsRes::Unit
                }
            }
        })
    }

    fn yields(op: &AsOp) -> Option<bool> {
        match op {
            AsOp::Yield | AsOp::NestedBlockOnYield => Some(true),
            AsOp::Park => None,
            _ => Some(false),
        }
    }
    fn m_no_sched_point(op: &GOp<AsOp>) -> Option<&'static str> {
        match op {
            GOp::IsFinished(_) => Some("no-scheduling-point-before:JoinHandle::is_finished"),
            GOp::PollJoin(_) => Some("no-scheduling-point-before:JoinHandle::poll"),
            GOp::Detach(_) => Some("no-scheduling-point-before:drop(JoinHandle)"),
            GOp::Op(AsOp::Park) => Some("no-scheduling-point-before:thread::park"),
            _ => None,
        }
    }
    fn m_abortable(op: &AsOp, phase: u8) -> bool {
        match op {
            AsOp::NestedBlockOnYield | AsOp::NestedBlockOnFlag(_) | AsOp::Park => false,
            // while it blocks synchronously inside its poll (phase 1) it cannot be cancelled
            AsOp::FlagWaitNested(..) => phase != 1,
            _ => true,
        }
    }
    fn objects_of(op: &AsOp) -> Vec<u32> {
        match op {
            AsOp::FlagWait(f) | AsOp::FlagSet(f) | AsOp::NestedBlockOnFlag(f) | AsOp::FlagWaitRacy(f) => vec![0xA00 + *f as u32],
            AsOp::FlagWaitNested(f, g) => vec![0xA00 + *f as u32, 0xA00 + *g as u32],
            AsOp::FlagWaitStart(f) => vec![0xA00 + *f as u32, 0xB00],
            AsOp::FlagWaitShared => vec![0xB00, 0xA00, 0xA01],
            AsOp::Yield | AsOp::NestedBlockOnYield => vec![],
            AsOp::Park | AsOp::UnparkMain => vec![0xC00],
        }
    }
    /// setting a flag (atomic store) -> every later completed wait on that flag (atomic load)
    fn hb_must(p: &Program<AsyncFam>, log: &[Entry<AsRes>]) -> Vec<(usize, usize)> {
        let mut out = Vec::new();
        let mut sets: std::collections::HashMap<usize, usize> = Default::default();
        for (i, e) in log.iter().enumerate() {
            let EKind::Ret(GRes::R(_)) = &e.kind else { continue };
            let GOp::Op(op) = &p.threads[e.thread][e.op] else { continue };
            match op {
                AsOp::FlagSet(f) => {
                    sets.entry(*f).or_insert(i);
                }
                AsOp::FlagWait(f) | AsOp::NestedBlockOnFlag(f) | AsOp::FlagWaitRacy(f) | AsOp::FlagWaitNested(f, _) => {
                    if let Some(s) = sets.get(f) {
                        out.push((*s, i));
                    }
                }
                _ => {}
            }
        }
        out
    }
    fn m_init(cfg: &usize, _n: usize) -> AsM {
        AsM {
            park: (false, false, false),
            set: vec![false; *cfg],
            shared: None,
        }
    }
    fn m_step(m: &AsM, _t: usize, op: &AsOp, phase: u8, _strict: bool) -> Vec<MStep<AsM, AsRes>> {
        let mut n = m.clone();
        match op {
            AsOp::Yield | AsOp::NestedBlockOnYield => vec![MStep::Done(n, AsRes::Unit)],
            AsOp::FlagWait(f) | AsOp::NestedBlockOnFlag(f) => {
                if n.set[*f] {
                    vec![MStep::Done(n, AsRes::Unit)]
                } else {
                    vec![]
                }
            }
            AsOp::FlagSet(f) => {
                n.set[*f] = true;
                vec![MStep::Done(n, AsRes::Unit)]
            }
            // only the main task parks (programs are generated that way)
            AsOp::Park => match phase {
                0 => {
                    if n.park.0 {
                        n.park.0 = false;
                        vec![MStep::Done(n, AsRes::Unit)]
                    } else {
                        n.park.1 = true;
                        n.park.2 = false;
                        vec![MStep::Cont(n, 1)]
                    }
                }
                _ => {
                    if n.park.2 {
                        n.park.1 = false;
                        n.park.2 = false;
                        vec![MStep::Done(n, AsRes::Unit)]
                    } else {
                        n.park.1 = false;
                        vec![MStep::Spurious(n, AsRes::Unit)]
                    }
                }
            },
            AsOp::UnparkMain => {
                if n.park.1 {
                    if !n.park.2 {
                        n.park.2 = true;
                    } else {
                        n.park.0 = true;
                    }
                } else {
                    n.park.0 = true;
                }
                vec![MStep::Done(n, AsRes::Unit)]
            }
            // each poll: ready if f is set; otherwise (nested variant) wait synchronously for g, then
            // back to the executor; the next poll happens once f is set (the wake may have arrived
            // during the previous poll) — so the operation completes iff f (and, on the way, g) get set
            AsOp::FlagWaitNested(f, g) => match phase {
                0 => {
                    if n.set[*f] {
                        vec![MStep::Done(n, AsRes::Unit)]
                    } else {
                        vec![MStep::Cont(n, 1)]
                    }
                }
                1 => {
                    if n.set[*g] {
                        vec![MStep::Cont(n, 2)]
                    } else {
                        vec![]
                    }
                }
                // back at the executor with Pending: suspended until f's waker fires, i.e. f is set
                // (RESULT_2 false alarm: phases 0<->1 used to cycle, so the model called the
                // suspended task runnable whenever g was set)
                _ => {
                    if n.set[*f] {
                        vec![MStep::Done(n, AsRes::Unit)]
                    } else {
                        vec![]
                    }
                }
            },
            AsOp::FlagWaitRacy(f) => {
                if n.set[*f] {
                    vec![MStep::Done(n, AsRes::Unit)]
                } else {
                    vec![]
                }
            }
            AsOp::FlagWaitStart(f) => {
                if n.set[*f] {
                    vec![MStep::Done(n, AsRes::Ready)]
                } else {
                    n.shared = Some(*f);
                    vec![MStep::Done(n, AsRes::Pending)]
                }
            }
            AsOp::FlagWaitShared => {
                if phase == 0 {
                    match n.shared.take() {
                        None => vec![MStep::Done(n, AsRes::Nothing)],
                        Some(f) => {
                            // phase encodes which flag the taken future waits for
                            vec![MStep::Cont(n, 1 + f as u8)]
                        }
                    }
                } else {
                    let f = (phase - 1) as usize;
                    if n.set[f] {
                        vec![MStep::Done(n, AsRes::Unit)]
                    } else {
                        vec![]
                    }
                }
            }
        }
    }

    /// A cancelled task's future is dropped before the awaiting `JoinHandle` yields Cancelled, and
    /// the task performs no step after that; a completed task's future is dropped before its
    /// JoinHandle yields the output.
    fn monitor(p: &Program<AsyncFam>, rec: &ExecRecord<AsRes>) -> Option<(String, String)> {
        for (i, e) in rec.log.iter().enumerate() {
            if let EKind::Ret(GRes::Joined(ok)) = &e.kind {
                if let GOp::Join(c) = &p.threads[e.thread][e.op] {
                    let tag = format!("future-dropped t{}", c);
                    let dropped_at = rec.aux.iter().find(|a| a.what == tag).map(|a| a.after);
                    match dropped_at {
                        None => {
                            return Some((
                                "join-before-future-dropped".into(),
                                format!("awaiting task {}'s JoinHandle returned ({}) but its future was never dropped", c, if *ok { "output" } else { "Cancelled" }),
                            ))
                        }
                        Some(pos) => {
                            if pos > i {
                                return Some(("join-before-future-dropped".into(), format!("awaiting task {}'s JoinHandle returned before its future was dropped", c)));
                            }
                            // no entry of task c after its future was dropped
                            if rec.log.iter().skip(pos).any(|x| x.thread == *c) {
                                return Some(("step-after-drop".into(), format!("task {} logged a step after its future was dropped", c)));
                            }
                        }
                    }
                    // exactly-once: the output cannot be Cancelled if the task logged End
                    let ended = rec.log.iter().any(|x| x.thread == *c && x.kind == EKind::End);
                    if ended && !*ok {
                        return Some(("cancelled-after-completion".into(), format!("task {} ran to completion but its JoinHandle yielded Cancelled", c)));
                    }
                    if !ended && *ok {
                        return Some(("output-without-completion".into(), format!("task {} never completed but its JoinHandle yielded an output", c)));
                    }
                }
            }
        }
        None
    }
}

// ---------------------------------------------------------------------------------------------

fn g(ops: &[AsOp]) -> Vec<GOp<AsOp>> {
    ops.iter().cloned().map(GOp::Op).collect()
}

pub fn program_set(set: &str) -> Vec<Program<AsyncFam>> {
    if set == "handover" {
        // a JoinHandle polled once by one task and awaited by another ("futures moved between
        // tasks"): thread 1 = the child (kept unfinished until the first poller is done), thread 2 =
        // the first poller, thread 3 / main = the task that finally awaits the handle
        let g = |ops: &[AsOp]| -> Vec<GOp<AsOp>> { ops.iter().cloned().map(GOp::Op).collect() };
        let mut out = Vec::new();
        for child in [vec![AsOp::FlagWait(0)], vec![AsOp::FlagWait(0), AsOp::Yield]] {
            // the first poller spawns the final awaiter after its poll
            out.push(Program {
                cfg: 2,
                threads: vec![
                    vec![GOp::Spawn(1), GOp::Spawn(2), GOp::Join(2), GOp::Op(AsOp::FlagSet(0)), GOp::Join(3)],
                    g(&child),
                    vec![GOp::PollJoin(1), GOp::Spawn(3)],
                    vec![GOp::Join(1)],
                ],
            });
            // main awaits the handle another task polled first
            out.push(Program {
                cfg: 2,
                threads: vec![vec![GOp::Spawn(1), GOp::Spawn(2), GOp::Join(2), GOp::Op(AsOp::FlagSet(0)), GOp::Join(1)], g(&child), vec![GOp::PollJoin(1)]],
            });
        }
        return out;
    }
    if let Some(base) = set.strip_suffix("-alt") {
        // the same programs through spawn_local / AbortHandle::{abort, is_finished}
        return program_set(base).into_iter().filter(|p| p.threads.iter().flatten().any(|o| matches!(o, GOp::Abort(_) | GOp::IsFinished(_)))).collect();
    }
    if set == "endings" {
        // ending-oriented subset (C03): parked main task, detached tasks, never-woken futures
        return program_set("quick")
            .into_iter()
            .filter(|p| {
                p.threads.iter().flatten().any(|o| matches!(o, GOp::Op(AsOp::Park) | GOp::Detach(_)))
                    && !p.threads.iter().flatten().any(|o| matches!(o, GOp::Abort(_)))
            })
            .collect();
    }
    let thorough = set == "thorough";
    let mut out: Vec<Program<AsyncFam>> = Vec::new();
    let bodies: Vec<Vec<AsOp>> = vec![
        vec![],
        vec![AsOp::Yield],
        vec![AsOp::FlagWait(0)],
        vec![AsOp::FlagSet(0)],
        vec![AsOp::Yield, AsOp::FlagSet(0)],
        vec![AsOp::FlagWait(0), AsOp::FlagSet(1)],
        vec![AsOp::FlagWait(1)],
        vec![AsOp::NestedBlockOnYield],
        vec![AsOp::NestedBlockOnFlag(0)],
        vec![AsOp::FlagSet(0), AsOp::Yield],
        vec![AsOp::FlagWaitNested(0, 1)],
        vec![AsOp::FlagWaitRacy(0)],
        vec![AsOp::FlagSet(0), AsOp::FlagSet(1)],
        vec![AsOp::FlagSet(1), AsOp::FlagSet(0)],
    ];
    // what main does with child 1's handle after spawning both children
    #[derive(Clone, Copy)]
    enum H {
        Join,
        Detach,
        AbortJoin,
        AbortAbortJoin,
        AbortDetach,
        IsFinJoin,
        Leave,
        YieldAbortJoin,
    }
    let hs = [H::Join, H::Detach, H::AbortJoin, H::AbortAbortJoin, H::AbortDetach, H::IsFinJoin, H::Leave, H::YieldAbortJoin];
    let main_mid: Vec<Vec<AsOp>> = vec![vec![], vec![AsOp::FlagSet(0)], vec![AsOp::FlagWait(1)], vec![AsOp::Yield]];
    for (i1, b1) in bodies.iter().enumerate() {
        for (i2, b2) in bodies.iter().enumerate() {
            if !thorough && i2 > 5 && i1 > 5 {
                continue;
            }
            for h in hs {
                for mid in &main_mid {
                    if !thorough && mid.len() > 0 && matches!(h, H::AbortAbortJoin | H::IsFinJoin | H::YieldAbortJoin) {
                        continue;
                    }
                    let mut main: Vec<GOp<AsOp>> = vec![GOp::Spawn(1), GOp::Spawn(2)];
                    main.extend(g(mid));
                    match h {
                        H::Join => main.push(GOp::Join(1)),
                        H::Detach => main.push(GOp::Detach(1)),
                        H::AbortJoin => {
                            main.push(GOp::Abort(1));
                            main.push(GOp::Join(1));
                        }
                        H::AbortAbortJoin => {
                            main.push(GOp::Abort(1));
                            main.push(GOp::Abort(1));
                            main.push(GOp::Join(1));
                        }
                        H::AbortDetach => {
                            main.push(GOp::Abort(1));
                            main.push(GOp::Detach(1));
                        }
                        H::IsFinJoin => {
                            main.push(GOp::IsFinished(1));
                            main.push(GOp::Join(1));
                            }
                        H::Leave => {}
                        H::YieldAbortJoin => {
                            main.push(GOp::Op(AsOp::Yield));
                            main.push(GOp::Abort(1));
                            main.push(GOp::Join(1));
                        }
                    }
                    // child 2 is joined, detached or left alone
                    for tail in 0..3 {
                        let mut m2 = main.clone();
                        match tail {
                            0 => m2.push(GOp::Join(2)),
                            1 => m2.push(GOp::Detach(2)),
                            _ => {}
                        }
                        let size = m2.len() + b1.len() + b2.len();
                        if size > if thorough { 9 } else { 8 } {
                            continue;
                        }
                        out.push(Program {
                            cfg: 2,
                            threads: vec![m2, g(b1), g(b2)],
                        });
                    }
                }
            }
        }
    }
    // the main task parks; attached or detached tasks unpark it (or not)
    for t1 in [vec![AsOp::UnparkMain], vec![AsOp::Yield, AsOp::UnparkMain], vec![AsOp::Yield], vec![AsOp::UnparkMain, AsOp::UnparkMain], vec![AsOp::FlagWait(0), AsOp::UnparkMain]] {
        for t2 in [vec![], vec![AsOp::Yield], vec![AsOp::UnparkMain], vec![AsOp::FlagSet(0)]] {
            for detach in 0..3 {
                let mut main: Vec<GOp<AsOp>> = vec![GOp::Spawn(1), GOp::Spawn(2)];
                match detach {
                    0 => {}
                    1 => main.push(GOp::Detach(1)),
                    _ => {
                        main.push(GOp::Detach(1));
                        main.push(GOp::Detach(2));
                    }
                }
                main.push(GOp::Op(AsOp::Park));
                out.push(Program {
                    cfg: 2,
                    threads: vec![main.clone(), g(&t1), g(&t2)],
                });
                main.push(GOp::Op(AsOp::Park));
                out.push(Program {
                    cfg: 2,
                    threads: vec![main, g(&t1), g(&t2)],
                });
            }
        }
    }
    // futures created (and first polled) in one task and awaited in another
    for setter in [vec![AsOp::FlagSet(0)], vec![AsOp::Yield, AsOp::FlagSet(0)], vec![]] {
        for starter_tail in [vec![], vec![AsOp::Yield], vec![AsOp::FlagWait(1)]] {
            let mut t1 = vec![AsOp::FlagWaitStart(0)];
            t1.extend(starter_tail.clone());
            for waiter in [vec![AsOp::FlagWaitShared], vec![AsOp::Yield, AsOp::FlagWaitShared], vec![AsOp::FlagWaitShared, AsOp::FlagSet(1)]] {
                let mut main = vec![GOp::Spawn(1), GOp::Spawn(2)];
                main.extend(g(&setter));
                main.push(GOp::Join(1));
                main.push(GOp::Join(2));
                out.push(Program {
                    cfg: 2,
                    threads: vec![main, g(&t1), g(&waiter)],
                });
            }
        }
    }
    // nested spawn: task 1 spawns task 2 and awaits / detaches / aborts it
    for b2 in bodies.iter().take(6) {
        for variant in 0..4 {
            let mut t1 = vec![GOp::Spawn(2)];
            match variant {
                0 => t1.push(GOp::Join(2)),
                1 => t1.push(GOp::Detach(2)),
                2 => {
                    t1.push(GOp::Abort(2));
                    t1.push(GOp::Join(2));
                }
                _ => {}
            }
            for mid in &main_mid {
                let mut main = vec![GOp::Spawn(1)];
                main.extend(g(mid));
                main.push(GOp::Join(1));
                out.push(Program {
                    cfg: 2,
                    threads: vec![main, t1.clone(), g(b2)],
                });
            }
        }
    }
    out.sort_by_key(|p| p.size());
    out
}
