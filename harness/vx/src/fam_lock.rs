//! Family `lock`: shuttle::sync::{Mutex, RwLock} against the contract model of Appendix A.

use crate::prog::*;
use shuttle::sync::{Mutex, MutexGuard, RwLock, RwLockReadGuard, RwLockWriteGuard, TryLockError};

#[derive(Clone, Debug, PartialEq, Eq, Hash)]
pub enum LockOp {
    /// catch_unwind(|| { let _g = m.lock(); panic!() }): the guard is released by a panicking holder
    MPanicHolding(usize),
    /// panic (caught) while holding the write / read guard of RwLock i
    RPanicHoldingW(usize),
    RPanicHoldingR(usize),
    MLock(usize),
    MTry(usize),
    MSet(usize, u32),
    MUnlock(usize),
    RRead(usize),
    RTryRead(usize),
    RWrite(usize),
    RTryWrite(usize),
    RSet(usize, u32),
    RUnlockR(usize),
    RUnlockW(usize),
}

#[derive(Clone, Debug, PartialEq, Eq, Hash, PartialOrd, Ord)]
pub enum LockRes {
    Unit,
    /// lock acquired; data value seen; poisoned flag
    Locked(u32, bool),
    WouldBlock,
}

#[derive(Clone, Debug)]
pub struct LockCfg {
    pub mutexes: usize,
    pub rwlocks: usize,
}

pub struct LockObjs {
    m: Vec<Mutex<u32>>,
    r: Vec<RwLock<u32>>,
}

pub struct LockLocals {
    mg: Vec<Option<MutexGuard<'static, u32>>>,
    rg: Vec<Option<RwLockReadGuard<'static, u32>>>,
    wg: Vec<Option<RwLockWriteGuard<'static, u32>>>,
}

#[derive(Clone, Debug, PartialEq, Eq, Hash)]
pub struct MMutex {
    holder: Option<usize>,
    data: u32,
    poisoned: bool,
}
#[derive(Clone, Debug, PartialEq, Eq, Hash)]
pub struct MRw {
    readers: Vec<usize>, // sorted
    writer: Option<usize>,
    data: u32,
    /// a writer panicked while holding it (std: only writers poison)
    poisoned: bool,
    /// some guard was dropped by a panicking holder (the implementation closes its semaphore then;
    /// only the weakened model looks at this)
    closed: bool,
}
#[derive(Clone, Debug, PartialEq, Eq, Hash)]
pub struct LockM {
    m: Vec<MMutex>,
    r: Vec<MRw>,
}

pub struct LockFam;

unsafe fn ext<'a, T>(r: &'a T) -> &'static T {
    std::mem::transmute(r)
}

impl Family for LockFam {
    type Op = LockOp;
    type Res = LockRes;
    type Cfg = LockCfg;
    type Objs = LockObjs;
    type Locals = LockLocals;
    type M = LockM;
    const NAME: &'static str = "lock";

    fn make_objs(cfg: &LockCfg, _n: usize) -> LockObjs {
        LockObjs {
            m: (0..cfg.mutexes).map(|_| Mutex::new(0)).collect(),
            r: (0..cfg.rwlocks).map(|_| RwLock::new(0)).collect(),
        }
    }
    fn new_locals(cfg: &LockCfg, _t: usize) -> LockLocals {
        LockLocals {
            mg: (0..cfg.mutexes).map(|_| None).collect(),
            rg: (0..cfg.rwlocks).map(|_| None).collect(),
            wg: (0..cfg.rwlocks).map(|_| None).collect(),
        }
    }
    fn exec(o: &LockObjs, l: &mut LockLocals, _t: usize, op: &LockOp) -> LockRes {
        // Safety: guards never outlive the objects: threads leak their leftover guards and the
        // objects live in an Arc held by every thread closure.
        unsafe {
            match op {
                LockOp::MPanicHolding(i) => {
                    let m = ext(&o.m[*i]);
                    let r = std::panic::catch_unwind(std::panic::AssertUnwindSafe(|| {
                        let _g = match m.lock() {
                            Ok(g) => g,
                            Err(p) => p.into_inner(),
                        };
                        std::panic::resume_unwind(Box::new("vx: panic while holding the lock"));
                    }));
                    assert!(r.is_err());
                    LockRes::Unit
                }
                LockOp::RPanicHoldingW(i) | LockOp::RPanicHoldingR(i) => {
                    let rw = ext(&o.r[*i]);
                    let write = matches!(op, LockOp::RPanicHoldingW(_));
                    let r = std::panic::catch_unwind(std::panic::AssertUnwindSafe(|| {
                        if write {
                            let _g = match rw.write() {
                                Ok(g) => g,
                                Err(p) => p.into_inner(),
                            };
                            std::panic::resume_unwind(Box::new("vx: panic while holding the write guard"));
                        } else {
                            let _g = match rw.read() {
                                Ok(g) => g,
                                Err(p) => p.into_inner(),
                            };
                            std::panic::resume_unwind(Box::new("vx: panic while holding the read guard"));
                        }
                    }));
                    assert!(r.is_err());
                    LockRes::Unit
                }
                LockOp::MLock(i) => match ext(&o.m[*i]).lock() {
                    Ok(g) => {
                        let v = *g;
                        l.mg[*i] = Some(g);
                        LockRes::Locked(v, false)
                    }
                    Err(p) => {
                        let g = p.into_inner();
                        let v = *g;
                        l.mg[*i] = Some(g);
                        LockRes::Locked(v, true)
                    }
                },
                LockOp::MTry(i) => match ext(&o.m[*i]).try_lock() {
                    Ok(g) => {
                        let v = *g;
                        l.mg[*i] = Some(g);
                        LockRes::Locked(v, false)
                    }
                    Err(TryLockError::Poisoned(p)) => {
                        let g = p.into_inner();
                        let v = *g;
                        l.mg[*i] = Some(g);
                        LockRes::Locked(v, true)
                    }
                    Err(TryLockError::WouldBlock) => LockRes::WouldBlock,
                },
                LockOp::MSet(i, v) => {
                    **l.mg[*i].as_mut().expect("MSet without guard") = *v;
                    LockRes::Unit
                }
                LockOp::MUnlock(i) => {
                    drop(l.mg[*i].take().expect("MUnlock without guard"));
                    LockRes::Unit
                }
                LockOp::RRead(i) => match ext(&o.r[*i]).read() {
                    Ok(g) => {
                        let v = *g;
                        l.rg[*i] = Some(g);
                        LockRes::Locked(v, false)
                    }
                    Err(p) => {
                        let g = p.into_inner();
                        let v = *g;
                        l.rg[*i] = Some(g);
                        LockRes::Locked(v, true)
                    }
                },
                LockOp::RTryRead(i) => match ext(&o.r[*i]).try_read() {
                    Ok(g) => {
                        let v = *g;
                        // a second read guard of the same thread would overwrite the slot: keep both
                        if l.rg[*i].is_some() {
                            std::mem::forget(l.rg[*i].take());
                        }
                        l.rg[*i] = Some(g);
                        LockRes::Locked(v, false)
                    }
                    Err(TryLockError::Poisoned(p)) => {
                        let g = p.into_inner();
                        let v = *g;
                        l.rg[*i] = Some(g);
                        LockRes::Locked(v, true)
                    }
                    Err(TryLockError::WouldBlock) => LockRes::WouldBlock,
                },
                LockOp::RWrite(i) => match ext(&o.r[*i]).write() {
                    Ok(g) => {
                        let v = *g;
                        l.wg[*i] = Some(g);
                        LockRes::Locked(v, false)
                    }
                    Err(p) => {
                        let g = p.into_inner();
                        let v = *g;
                        l.wg[*i] = Some(g);
                        LockRes::Locked(v, true)
                    }
                },
                LockOp::RTryWrite(i) => match ext(&o.r[*i]).try_write() {
                    Ok(g) => {
                        let v = *g;
                        l.wg[*i] = Some(g);
                        LockRes::Locked(v, false)
                    }
                    Err(TryLockError::Poisoned(p)) => {
                        let g = p.into_inner();
                        let v = *g;
                        l.wg[*i] = Some(g);
                        LockRes::Locked(v, true)
                    }
                    Err(TryLockError::WouldBlock) => LockRes::WouldBlock,
                },
                LockOp::RSet(i, v) => {
                    **l.wg[*i].as_mut().expect("RSet without guard") = *v;
                    LockRes::Unit
                }
                LockOp::RUnlockR(i) => {
                    drop(l.rg[*i].take().expect("RUnlockR without guard"));
                    LockRes::Unit
                }
                LockOp::RUnlockW(i) => {
                    drop(l.wg[*i].take().expect("RUnlockW without guard"));
                    LockRes::Unit
                }
            }
        }
    }

    fn end_thread(_o: &LockObjs, l: LockLocals, _t: usize) {
        for g in l.mg {
            std::mem::forget(g);
        }
        for g in l.rg {
            std::mem::forget(g);
        }
        for g in l.wg {
            std::mem::forget(g);
        }
    }

    fn objects_of(op: &LockOp) -> Vec<u32> {
        match op {
            LockOp::MPanicHolding(i) | LockOp::MLock(i) | LockOp::MTry(i) | LockOp::MSet(i, _) | LockOp::MUnlock(i) => vec![0x100 + *i as u32],
            LockOp::RPanicHoldingW(i) | LockOp::RPanicHoldingR(i) => vec![0x200 + *i as u32],
            LockOp::RRead(i) | LockOp::RTryRead(i) | LockOp::RWrite(i) | LockOp::RTryWrite(i) | LockOp::RSet(i, _) | LockOp::RUnlockR(i) | LockOp::RUnlockW(i) => vec![0x200 + *i as u32],
        }
    }
    /// unlock -> every later acquisition of the same lock (write unlock -> later read or write
    /// acquisition; read unlock -> later write acquisition)
    fn hb_must(p: &Program<LockFam>, log: &[Entry<LockRes>]) -> Vec<(usize, usize)> {
        let mut out = Vec::new();
        let mut last_m_unlock: std::collections::HashMap<usize, usize> = Default::default();
        let mut last_w_unlock: std::collections::HashMap<usize, usize> = Default::default();
        let mut r_unlocks: std::collections::HashMap<usize, Vec<usize>> = Default::default();
        for (i, e) in log.iter().enumerate() {
            let EKind::Ret(GRes::R(r)) = &e.kind else { continue };
            let GOp::Op(op) = &p.threads[e.thread][e.op] else { continue };
            let got = matches!(r, LockRes::Locked(..));
            match op {
                LockOp::MUnlock(m) => {
                    last_m_unlock.insert(*m, i);
                }
                LockOp::MLock(m) | LockOp::MTry(m) if got => {
                    if let Some(u) = last_m_unlock.get(m) {
                        out.push((*u, i));
                    }
                }
                LockOp::RUnlockW(l) => {
                    last_w_unlock.insert(*l, i);
                    r_unlocks.remove(l);
                }
                LockOp::RUnlockR(l) => r_unlocks.entry(*l).or_default().push(i),
                LockOp::RRead(l) | LockOp::RTryRead(l) if got => {
                    if let Some(u) = last_w_unlock.get(l) {
                        out.push((*u, i));
                    }
                }
                LockOp::RWrite(l) | LockOp::RTryWrite(l) if got => {
                    if let Some(u) = last_w_unlock.get(l) {
                        out.push((*u, i));
                    }
                    for u in r_unlocks.get(l).cloned().unwrap_or_default() {
                        out.push((u, i));
                    }
                }
                _ => {}
            }
        }
        out
    }
    fn m_init(cfg: &LockCfg, _n: usize) -> LockM {
        LockM {
            m: (0..cfg.mutexes).map(|_| MMutex { holder: None, data: 0, poisoned: false }).collect(),
            r: (0..cfg.rwlocks)
                .map(|_| MRw {
                    readers: vec![],
                    writer: None,
                    data: 0,
                    poisoned: false,
                    closed: false,
                })
                .collect(),
        }
    }

    fn weakening(cfg: &LockCfg) -> Option<&'static str> {
        if cfg.mutexes > 0 {
            Some("poisoned-mutex-does-not-exclude")
        } else if cfg.rwlocks > 0 {
            Some("rwlock-does-not-exclude-after-a-panicking-holder")
        } else {
            None
        }
    }

    fn m_step(m: &LockM, t: usize, op: &LockOp, _phase: u8, _strict: bool) -> Vec<MStep<LockM, LockRes>> {
        let mut n = m.clone();
        match op {
            LockOp::MPanicHolding(i) => {
                let x = &mut n.m[*i];
                if _phase == 0 {
                    if x.holder.is_none() {
                        x.holder = Some(t);
                        vec![MStep::Cont(n, 1)]
                    } else if weak() && x.poisoned {
                        vec![MStep::Panic("state.holder.is_none()".into())]
                    } else {
                        vec![]
                    }
                } else {
                    // released by a panicking holder: poisoned from now on
                    x.holder = None;
                    x.poisoned = true;
                    vec![MStep::Done(n, LockRes::Unit)]
                }
            }
            LockOp::MLock(i) => {
                let x = &mut n.m[*i];
                if x.holder == Some(t) && !x.poisoned {
                    return vec![MStep::Panic("tried to acquire a Mutex it already holds".into())];
                }
                if x.holder.is_none() {
                    x.holder = Some(t);
                    let (v, p) = (x.data, x.poisoned);
                    vec![MStep::Done(n, LockRes::Locked(v, p))]
                } else if weak() && x.poisoned {
                    // recorded finding F12: a poisoned mutex no longer blocks a second locker; the
                    // runtime trips its own assertion instead
                    vec![MStep::Panic("state.holder.is_none()".into())]
                } else {
                    vec![]
                }
            }
            LockOp::MTry(i) => {
                let x = &mut n.m[*i];
                if x.holder.is_none() {
                    x.holder = Some(t);
                    let (v, p) = (x.data, x.poisoned);
                    vec![MStep::Done(n, LockRes::Locked(v, p))]
                } else {
                    vec![MStep::Done(n, LockRes::WouldBlock)]
                }
            }
            LockOp::MSet(i, v) => {
                assert_eq!(n.m[*i].holder, Some(t), "ill-formed program");
                n.m[*i].data = *v;
                vec![MStep::Done(n, LockRes::Unit)]
            }
            LockOp::MUnlock(i) => {
                assert_eq!(n.m[*i].holder, Some(t), "ill-formed program");
                n.m[*i].holder = None;
                vec![MStep::Done(n, LockRes::Unit)]
            }
            LockOp::RPanicHoldingW(i) | LockOp::RPanicHoldingR(i) => {
                let write = matches!(op, LockOp::RPanicHoldingW(_));
                let x = &mut n.r[*i];
                if _phase == 0 {
                    let free = if write { x.writer.is_none() && x.readers.is_empty() } else { x.writer.is_none() };
                    if free {
                        if write {
                            x.writer = Some(t);
                        } else {
                            x.readers.push(t);
                            x.readers.sort();
                        }
                        vec![MStep::Cont(n, 1)]
                    } else if weak() && x.closed {
                        vec![MStep::Panic("resumed a waiting".into())]
                    } else {
                        vec![]
                    }
                } else {
                    // released by a panicking holder; only a writer poisons (std)
                    if write {
                        x.writer = None;
                        x.poisoned = true;
                    } else {
                        let pos = x.readers.iter().position(|r| *r == t).expect("model: panicking reader");
                        x.readers.remove(pos);
                    }
                    x.closed = true;
                    vec![MStep::Done(n, LockRes::Unit)]
                }
            }
            LockOp::RRead(i) => {
                let x = &mut n.r[*i];
                if (x.writer == Some(t) || x.readers.contains(&t)) && !x.closed {
                    return vec![MStep::Panic("tried to acquire a RwLock it already holds".into())];
                }
                if x.writer.is_none() {
                    x.readers.push(t);
                    x.readers.sort();
                    let (v, p) = (x.data, x.poisoned);
                    vec![MStep::Done(n, LockRes::Locked(v, p))]
                } else if weak() && x.closed {
                    // recorded finding: once a panicking holder has released the lock (semaphore
                    // closed) `read`/`write` no longer wait; the runtime trips over its bookkeeping
                    vec![MStep::Panic("resumed a waiting".into())]
                } else {
                    vec![]
                }
            }
            LockOp::RTryRead(i) => {
                let x = &mut n.r[*i];
                // Shuttle documents: a thread that already holds the read lock gets Err.
                if x.writer.is_none() && !x.readers.contains(&t) {
                    x.readers.push(t);
                    x.readers.sort();
                    let (v, p) = (x.data, x.poisoned);
                    vec![MStep::Done(n, LockRes::Locked(v, p))]
                } else {
                    vec![MStep::Done(n, LockRes::WouldBlock)]
                }
            }
            LockOp::RWrite(i) => {
                let x = &mut n.r[*i];
                if (x.writer == Some(t) || x.readers.contains(&t)) && !x.closed {
                    return vec![MStep::Panic("tried to acquire a RwLock it already holds".into())];
                }
                if x.writer.is_none() && x.readers.is_empty() {
                    x.writer = Some(t);
                    let (v, p) = (x.data, x.poisoned);
                    vec![MStep::Done(n, LockRes::Locked(v, p))]
                } else if weak() && x.closed {
                    vec![MStep::Panic("resumed a waiting".into())]
                } else {
                    vec![]
                }
            }
            LockOp::RTryWrite(i) => {
                let x = &mut n.r[*i];
                if x.writer.is_none() && x.readers.is_empty() {
                    x.writer = Some(t);
                    let (v, p) = (x.data, x.poisoned);
                    vec![MStep::Done(n, LockRes::Locked(v, p))]
                } else {
                    vec![MStep::Done(n, LockRes::WouldBlock)]
                }
            }
            LockOp::RSet(i, v) => {
                assert_eq!(n.r[*i].writer, Some(t), "ill-formed program");
                n.r[*i].data = *v;
                vec![MStep::Done(n, LockRes::Unit)]
            }
            LockOp::RUnlockR(i) => {
                let x = &mut n.r[*i];
                let pos = x.readers.iter().position(|r| *r == t).expect("ill-formed program");
                x.readers.remove(pos);
                vec![MStep::Done(n, LockRes::Unit)]
            }
            LockOp::RUnlockW(i) => {
                assert_eq!(n.r[*i].writer, Some(t), "ill-formed program");
                n.r[*i].writer = None;
                vec![MStep::Done(n, LockRes::Unit)]
            }
        }
    }
}

// ---------------------------------------------------------------------------------------------
// Program generation
// ---------------------------------------------------------------------------------------------

/// Per-thread symbolic state used to keep generated programs well-formed.
#[derive(Clone, Default)]
struct Held {
    m: Vec<bool>,
    r: Vec<bool>, // read guard held
    w: Vec<bool>,
    maybe_m: Vec<bool>, // a try op may or may not have acquired: no dependent ops generated
}

/// All well-formed op sequences of length exactly `k` for one thread.
/// `try` ops are followed by nothing that depends on their success (the guard, if any, is leaked at
/// thread end), except the explicit forms TryThenUnlock handled by `allow_dependent`.
fn thread_seqs(cfg: &LockCfg, k: usize, vals: &[u32]) -> Vec<Vec<LockOp>> {
    fn rec(cfg: &LockCfg, k: usize, vals: &[u32], cur: &mut Vec<LockOp>, h: &mut Held, out: &mut Vec<Vec<LockOp>>) {
        if cur.len() == k {
            out.push(cur.clone());
            return;
        }
        for i in 0..cfg.mutexes {
            if !h.m[i] && !h.maybe_m[i] {
                cur.push(LockOp::MLock(i));
                h.m[i] = true;
                rec(cfg, k, vals, cur, h, out);
                h.m[i] = false;
                cur.pop();

                cur.push(LockOp::MTry(i));
                h.maybe_m[i] = true;
                rec(cfg, k, vals, cur, h, out);
                h.maybe_m[i] = false;
                cur.pop();
            } else if h.m[i] {
                // re-entrant try_lock: must fail and change nothing
                cur.push(LockOp::MTry(i));
                rec(cfg, k, vals, cur, h, out);
                cur.pop();
                for v in vals {
                    // only one Set per critical section position to limit blow-up
                    if !matches!(cur.last(), Some(LockOp::MSet(_, _))) {
                        cur.push(LockOp::MSet(i, *v));
                        rec(cfg, k, vals, cur, h, out);
                        cur.pop();
                    }
                }
                cur.push(LockOp::MUnlock(i));
                h.m[i] = false;
                rec(cfg, k, vals, cur, h, out);
                h.m[i] = true;
                cur.pop();
            }
        }
        for i in 0..cfg.rwlocks {
            if !h.r[i] && !h.w[i] {
                for op in [LockOp::RRead(i), LockOp::RWrite(i)] {
                    let is_r = matches!(op, LockOp::RRead(_));
                    cur.push(op);
                    if is_r {
                        h.r[i] = true
                    } else {
                        h.w[i] = true
                    }
                    rec(cfg, k, vals, cur, h, out);
                    if is_r {
                        h.r[i] = false
                    } else {
                        h.w[i] = false
                    }
                    cur.pop();
                }
                // try ops whose guard (if any) is leaked; only as last op of the thread or followed
                // by ops on other objects — keep it simple: allow only as the last op
                if cur.len() + 1 == k {
                    cur.push(LockOp::RTryRead(i));
                    rec(cfg, k, vals, cur, h, out);
                    cur.pop();
                    cur.push(LockOp::RTryWrite(i));
                    rec(cfg, k, vals, cur, h, out);
                    cur.pop();
                }
            } else if h.r[i] {
                // re-entrant attempts by a read holder: must fail, change nothing
                cur.push(LockOp::RTryRead(i));
                rec(cfg, k, vals, cur, h, out);
                cur.pop();
                cur.push(LockOp::RTryWrite(i));
                rec(cfg, k, vals, cur, h, out);
                cur.pop();
                cur.push(LockOp::RUnlockR(i));
                h.r[i] = false;
                rec(cfg, k, vals, cur, h, out);
                h.r[i] = true;
                cur.pop();
            } else if h.w[i] {
                cur.push(LockOp::RTryRead(i));
                rec(cfg, k, vals, cur, h, out);
                cur.pop();
                for v in vals {
                    if !matches!(cur.last(), Some(LockOp::RSet(_, _))) {
                        cur.push(LockOp::RSet(i, *v));
                        rec(cfg, k, vals, cur, h, out);
                        cur.pop();
                    }
                }
                cur.push(LockOp::RUnlockW(i));
                h.w[i] = false;
                rec(cfg, k, vals, cur, h, out);
                h.w[i] = true;
                cur.pop();
            }
        }
    }
    let mut out = Vec::new();
    let mut h = Held {
        m: vec![false; cfg.mutexes],
        r: vec![false; cfg.rwlocks],
        w: vec![false; cfg.rwlocks],
        maybe_m: vec![false; cfg.mutexes],
    };
    rec(cfg, k, vals, &mut Vec::new(), &mut h, &mut out);
    out
}

fn seqs_up_to(cfg: &LockCfg, k: usize, vals: &[u32]) -> Vec<Vec<LockOp>> {
    let mut v = Vec::new();
    for len in 1..=k {
        v.extend(thread_seqs(cfg, len, vals));
    }
    v
}

/// Programs: main (with ≤ `main_k` own ops) + `children` child threads with ≤ k ops each, modulo
/// symmetry of the children (non-decreasing index tuples), simplest first.
pub fn programs(cfgs: &[LockCfg], children: usize, k: usize, main_k: usize) -> Vec<Program<LockFam>> {
    let mut out = Vec::new();
    for cfg in cfgs {
        let seqs = seqs_up_to(cfg, k, &[1]);
        let mut main_seqs: Vec<Vec<LockOp>> = vec![vec![]];
        if main_k > 0 {
            main_seqs.extend(seqs_up_to(cfg, main_k, &[2]));
        }
        for idx in nondecreasing_tuples(seqs.len(), children) {
            for ms in &main_seqs {
                let ch: Vec<Vec<LockOp>> = idx.iter().map(|&i| seqs[i].clone()).collect();
                out.push(Program::fork_join(cfg.clone(), ms.clone(), ch));
            }
        }
    }
    out.sort_by_key(|p| p.size());
    out
}

/// Poisoning programs. `std::thread::panicking()` is shared by all green threads, so while one
/// task unwinds every other task believes it is panicking too (DESIGN.md Appendix B); these
/// programs therefore keep every other task blocked in `join` while the panic unwinds.
fn poison_programs() -> Vec<Program<LockFam>> {
    use LockOp::*;
    let cfg = LockCfg { mutexes: 1, rwlocks: 0 };
    let g = |ops: &[LockOp]| -> Vec<GOp<LockOp>> { ops.iter().cloned().map(GOp::Op).collect() };
    let mut out = Vec::new();
    // main: the panicking holder ran in thread 1 and was joined; then main (and later threads) lock
    for tail in [vec![MLock(0), MUnlock(0)], vec![MTry(0)], vec![MLock(0), MSet(0, 5), MUnlock(0), MTry(0)]] {
        let mut main = vec![GOp::Spawn(1), GOp::Join(1)];
        main.extend(g(&tail));
        out.push(Program {
            cfg: cfg.clone(),
            threads: vec![main, g(&[MPanicHolding(0)])],
        });
    }
    // the panicking holder is main itself, before anybody else exists
    out.push(Program {
        cfg: cfg.clone(),
        threads: vec![
            {
                let mut m = g(&[MPanicHolding(0)]);
                m.extend(vec![GOp::Spawn(1), GOp::Spawn(2), GOp::Join(1), GOp::Join(2)]);
                m
            },
            g(&[MLock(0), MUnlock(0)]),
            g(&[MTry(0)]),
        ],
    });
    // two lockers of an already poisoned mutex (mutual exclusion must survive poisoning)
    out.push(Program {
        cfg: cfg.clone(),
        threads: vec![
            {
                let mut m = g(&[MPanicHolding(0)]);
                m.extend(vec![GOp::Spawn(1), GOp::Spawn(2), GOp::Join(1), GOp::Join(2)]);
                m
            },
            g(&[MLock(0), MSet(0, 1), MUnlock(0)]),
            g(&[MLock(0), MUnlock(0)]),
        ],
    });
    // --- RwLock: a panicking writer poisons, a panicking reader does not --------------------------
    let rcfg = LockCfg { mutexes: 0, rwlocks: 1 };
    for pan in [RPanicHoldingW(0), RPanicHoldingR(0)] {
        // the panicking holder ran in thread 1 and was joined; then main uses the lock
        for tail in [
            vec![RRead(0), RUnlockR(0)],
            vec![RWrite(0), RSet(0, 5), RUnlockW(0), RRead(0), RUnlockR(0)],
            vec![RTryRead(0)],
            vec![RTryWrite(0)],
        ] {
            let mut main = vec![GOp::Spawn(1), GOp::Join(1)];
            main.extend(g(&tail));
            out.push(Program {
                cfg: rcfg.clone(),
                threads: vec![main, g(&[pan.clone()])],
            });
        }
        // two users of the lock after the panic (exclusion must survive)
        for (a, b) in [
            (vec![RWrite(0), RSet(0, 1), RUnlockW(0)], vec![RRead(0), RUnlockR(0)]),
            (vec![RWrite(0), RSet(0, 1), RUnlockW(0)], vec![RWrite(0), RUnlockW(0)]),
            (vec![RRead(0), RUnlockR(0)], vec![RRead(0), RUnlockR(0)]),
            (vec![RWrite(0), RUnlockW(0)], vec![RTryRead(0)]),
            (vec![RRead(0), RUnlockR(0)], vec![RTryWrite(0)]),
        ] {
            let mut m = g(&[pan.clone()]);
            m.extend(vec![GOp::Spawn(1), GOp::Spawn(2), GOp::Join(1), GOp::Join(2)]);
            out.push(Program {
                cfg: rcfg.clone(),
                threads: vec![m, g(&a), g(&b)],
            });
        }
    }
    out
}

pub fn program_set(set: &str) -> Vec<Program<LockFam>> {
    if set == "highids" {
        // every k-th program of the quick set with its threads moved to task ids above 16
        let base = program_set("quick");
        let k = (base.len() / 60).max(1);
        return base.iter().enumerate().filter(|(i, p)| i % k == 0 && p.threads.len() <= 4).map(|(_, p)| with_high_ids(p, 16)).collect();
    }
    if set == "poison" {
        return poison_programs();
    }
    let m1 = LockCfg { mutexes: 1, rwlocks: 0 };
    let r1 = LockCfg { mutexes: 0, rwlocks: 1 };
    let m2 = LockCfg { mutexes: 2, rwlocks: 0 };
    let mr = LockCfg { mutexes: 1, rwlocks: 1 };
    match set {
        // P(3,3) on one object, P(3,2) on two objects
        "quick" => {
            let mut v = programs(&[m1.clone(), r1.clone()], 2, 3, 0);
            v.extend(programs(&[m2.clone(), mr.clone()], 2, 2, 0));
            v
        }
        "thorough" => {
            let mut v = programs(&[m1.clone(), r1.clone()], 2, 4, 0);
            v.extend(programs(&[m2, mr], 2, 3, 0));
            v.extend(programs(&[m1, r1], 3, 2, 0));
            v
        }
        _ => panic!("unknown set {}", set),
    }
}
