//! C08: transparent scheduler wrappers — MetricsScheduler (always present inside Runner),
//! UncontrolledNondeterminismCheckScheduler (recording pass) — must hand the inner scheduler exactly
//! the calls the runtime makes and return its answers unchanged.  The inner scheduler is the
//! explorer, so "same calls" = the same choice tree, node by node.

use crate::explore::{Explorer, Node, Options};
use crate::prog::*;
use serde_json::{json, Value};
use shuttle_engine::scheduler::{Schedule, Scheduler, Task, TaskId};
use shuttle_engine::Runner;
use std::collections::hash_map::DefaultHasher;
use std::hash::{Hash, Hasher};
use std::panic::{catch_unwind, AssertUnwindSafe};

/// Type-erasing scheduler box (the crate's own `Box<dyn Scheduler + Send>` impl needs Send).
pub struct DynSched(pub Box<dyn Scheduler>);
impl Scheduler for DynSched {
    fn new_execution(&mut self) -> Option<Schedule> {
        self.0.new_execution()
    }
    fn next_task(&mut self, r: &[&Task], c: Option<TaskId>, y: bool) -> Option<TaskId> {
        self.0.next_task(r, c, y)
    }
    fn next_u64(&mut self) -> u64 {
        self.0.next_u64()
    }
}

fn path_hash(path: &[Node]) -> u64 {
    let mut h = DefaultHasher::new();
    for n in path {
        format!("{:?}|{:?}", n.kind, n.chosen()).hash(&mut h);
    }
    h.finish()
}

/// Explore the whole tree of a body with the explorer optionally wrapped; returns (executions,
/// hash over the sequence of paths, panics mentioning nondeterminism).
fn tree_signature(body: impl Fn() + Send + Sync + Clone + 'static, wrap: &dyn Fn(Explorer) -> DynSched, per_exec_runs: usize) -> (u64, u64, Vec<String>) {
    let ex = Explorer::new(Options {
        rand_menu: vec![0, u64::MAX / 2 + 1],
        ..Options::default()
    });
    let mut sig = DefaultHasher::new();
    let mut n = 0u64;
    let mut complaints = Vec::new();
    let _ = per_exec_runs;
    loop {
        let b = body.clone();
        let r = catch_unwind(AssertUnwindSafe(|| {
            Runner::new(wrap(ex.handle()), base_config()).run(b);
        }));
        if let Err(p) = r {
            let m = payload_to_string(&p);
            if m.contains("nondeterminism") {
                complaints.push(m);
            }
        }
        ex.advance();
        for (path, _) in ex.drain_finished() {
            n += 1;
            path_hash(&path).hash(&mut sig);
        }
        if ex.exhausted() || n > 200_000 {
            break;
        }
    }
    (n, sig.finish(), complaints)
}

fn bodies() -> Vec<(&'static str, std::sync::Arc<dyn Fn() + Send + Sync>)> {
    use shuttle::sync::{Arc, Condvar, Mutex};
    let mut v: Vec<(&'static str, std::sync::Arc<dyn Fn() + Send + Sync>)> = Vec::new();
    v.push((
        "two threads, one mutex, rand draw",
        std::sync::Arc::new(|| {
            let m = Arc::new(Mutex::new(0u32));
            let m2 = m.clone();
            let h = shuttle::thread::spawn(move || {
                use shuttle::rand::Rng;
                let x: u64 = shuttle::rand::thread_rng().gen();
                *m2.lock().unwrap() += (x % 2) as u32;
            });
            *m.lock().unwrap() += 1;
            h.join().unwrap();
        }),
    ));
    v.push((
        "lock-order deadlock",
        std::sync::Arc::new(|| {
            let a = Arc::new(Mutex::new(0u32));
            let b = Arc::new(Mutex::new(0u32));
            let (a2, b2) = (a.clone(), b.clone());
            let h = shuttle::thread::spawn(move || {
                let _x = b2.lock().unwrap();
                let _y = a2.lock().unwrap();
            });
            {
                let _x = a.lock().unwrap();
                let _y = b.lock().unwrap();
            }
            h.join().unwrap();
        }),
    ));
    v.push((
        "condvar hand-off with yield",
        std::sync::Arc::new(|| {
            let p = Arc::new((Mutex::new(false), Condvar::new()));
            let p2 = p.clone();
            let h = shuttle::thread::spawn(move || {
                shuttle::thread::yield_now();
                *p2.0.lock().unwrap() = true;
                p2.1.notify_one();
            });
            let mut g = p.0.lock().unwrap();
            while !*g {
                g = p.1.wait(g).unwrap();
            }
            drop(g);
            h.join().unwrap();
        }),
    ));
    v.push((
        "async tasks with yield_now and atomics",
        std::sync::Arc::new(|| {
            use shuttle::sync::atomic::{AtomicUsize, Ordering};
            let c = Arc::new(AtomicUsize::new(0));
            let c2 = c.clone();
            shuttle::future::block_on(async move {
                let h = shuttle::future::spawn(async move {
                    shuttle::future::yield_now().await;
                    c2.fetch_add(1, Ordering::SeqCst);
                });
                c.fetch_add(1, Ordering::SeqCst);
                h.await.unwrap();
            });
        }),
    ));
    v
}

pub fn run() -> Value {
    crate::common::silence_panics();
    let mut mismatches = Vec::new();
    let mut rows = Vec::new();
    for (name, body) in bodies() {
        let b0 = body.clone();
        let plain = tree_signature(move || b0(), &|e| DynSched(Box::new(e)), 1);
        let wraps: Vec<(&str, Box<dyn Fn(Explorer) -> DynSched>)> = vec![
            (
                "MetricsScheduler",
                Box::new(|e| DynSched(Box::new(shuttle_engine::scheduler::metrics::MetricsScheduler::new(e)))),
            ),
            (
                "UncontrolledNondeterminismCheckScheduler",
                Box::new(|e| DynSched(Box::new(shuttle_schedulers::UncontrolledNondeterminismCheckScheduler::new(e)))),
            ),
        ];
        for (wname, w) in wraps {
            let b1 = body.clone();
            let got = tree_signature(move || b1(), &*w, 1);
            rows.push(json!({"body": name, "wrapper": wname, "executions_plain": plain.0, "executions_wrapped": got.0}));
            if got.0 != plain.0 || got.1 != plain.1 || !got.2.is_empty() {
                mismatches.push(json!({"body": name, "wrapper": wname, "plain": [plain.0, plain.1], "wrapped": [got.0, got.1], "complaints": got.2.iter().take(2).collect::<Vec<_>>()}));
            }
        }
    }
    json!({"cases": rows, "mismatches": mismatches})
}
