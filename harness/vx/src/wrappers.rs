//! C08: transparent scheduler wrappers — MetricsScheduler (always present inside Runner),
//! UncontrolledNondeterminismCheckScheduler (recording pass), AnnotationScheduler (its pass-through
//! logic is compiled with or without the `annotation` feature) and the stop wrapper that
//! PortfolioRunner puts around every member — must hand the inner scheduler exactly the calls the
//! runtime makes and return its answers unchanged.  The inner scheduler is the explorer, so "same
//! calls" = the same choice tree, node by node.  Bodies: four hand-written ones plus a sample of the
//! generated programs of five E2 families.

use crate::explore::{Explorer, Node, Options};
use crate::prog::*;
use serde_json::{json, Value};
use shuttle_engine::scheduler::{Schedule, Scheduler, Task, TaskId};
use shuttle_engine::Runner;
use std::collections::hash_map::DefaultHasher;
use std::hash::{Hash, Hasher};
use std::panic::{catch_unwind, AssertUnwindSafe};

/// Type-erasing scheduler box (the crate's own `Box<dyn Scheduler + Send>` impl needs Send).
pub struct DynSched(pub Box<dyn Scheduler>);
impl Scheduler for DynSched {
    fn new_execution(&mut self) -> Option<Schedule> {
        self.0.new_execution()
    }
    fn next_task(&mut self, r: &[&Task], c: Option<TaskId>, y: bool) -> Option<TaskId> {
        self.0.next_task(r, c, y)
    }
    fn next_u64(&mut self) -> u64 {
        self.0.next_u64()
    }
}

fn path_hash(path: &[Node]) -> u64 {
    let mut h = DefaultHasher::new();
    for n in path {
        format!("{:?}|{:?}", n.kind, n.chosen()).hash(&mut h);
    }
    h.finish()
}

/// Explore the whole tree of a body with the explorer optionally wrapped; returns (executions,
/// hash over the sequence of paths, panics mentioning nondeterminism).
/// The explorer moved into the OS thread PortfolioRunner creates for its member.  Sound here because
/// the creating thread only touches the shared explorer state again after `PortfolioRunner::run`
/// has joined that thread.
struct ForceSend(DynSched);
unsafe impl Send for ForceSend {}
impl Scheduler for ForceSend {
    fn new_execution(&mut self) -> Option<Schedule> {
        self.0.new_execution()
    }
    fn next_task(&mut self, r: &[&Task], c: Option<TaskId>, y: bool) -> Option<TaskId> {
        self.0.next_task(r, c, y)
    }
    fn next_u64(&mut self) -> u64 {
        self.0.next_u64()
    }
}

/// How the (possibly wrapped) explorer is handed to the runtime
#[derive(Clone, Copy, PartialEq)]
enum Via {
    Runner,
    /// as the only member of a PortfolioRunner (which wraps it in its stop wrapper)
    Portfolio,
}

fn tree_signature(body: impl Fn() + Send + Sync + Clone + 'static, wrap: &dyn Fn(Explorer) -> DynSched, via: Via) -> (u64, u64, Vec<String>) {
    let ex = Explorer::new(Options {
        rand_menu: vec![0, u64::MAX / 2 + 1],
        ..Options::default()
    });
    let mut sig = DefaultHasher::new();
    let mut n = 0u64;
    let mut complaints = Vec::new();
    loop {
        let b = body.clone();
        let r = catch_unwind(AssertUnwindSafe(|| match via {
            Via::Runner => {
                Runner::new(wrap(ex.handle()), base_config()).run(b);
            }
            Via::Portfolio => {
                let mut pr = shuttle_engine::PortfolioRunner::new(true, base_config());
                pr.add(ForceSend(wrap(ex.handle())));
                pr.run(b);
            }
        }));
        if let Err(p) = r {
            let m = payload_to_string(&p);
            if m.contains("nondeterminism") {
                complaints.push(m);
            }
        }
        ex.advance();
        for (path, _) in ex.drain_finished() {
            n += 1;
            path_hash(&path).hash(&mut sig);
        }
        if ex.exhausted() || n > 200_000 {
            break;
        }
    }
    (n, sig.finish(), complaints)
}

fn bodies(per_family: usize) -> Vec<(&'static str, std::sync::Arc<dyn Fn() + Send + Sync>)> {
    use shuttle::sync::{Arc, Condvar, Mutex};
    let mut v: Vec<(&'static str, std::sync::Arc<dyn Fn() + Send + Sync>)> = Vec::new();
    v.push((
        "two threads, one mutex, rand draw",
        std::sync::Arc::new(|| {
            let m = Arc::new(Mutex::new(0u32));
            let m2 = m.clone();
            let h = shuttle::thread::spawn(move || {
                use shuttle::rand::Rng;
                let x: u64 = shuttle::rand::thread_rng().gen();
                *m2.lock().unwrap() += (x % 2) as u32;
            });
            *m.lock().unwrap() += 1;
            h.join().unwrap();
        }),
    ));
    v.push((
        "lock-order deadlock",
        std::sync::Arc::new(|| {
            let a = Arc::new(Mutex::new(0u32));
            let b = Arc::new(Mutex::new(0u32));
            let (a2, b2) = (a.clone(), b.clone());
            let h = shuttle::thread::spawn(move || {
                let _x = b2.lock().unwrap();
                let _y = a2.lock().unwrap();
            });
            {
                let _x = a.lock().unwrap();
                let _y = b.lock().unwrap();
            }
            h.join().unwrap();
        }),
    ));
    v.push((
        "condvar hand-off with yield",
        std::sync::Arc::new(|| {
            let p = Arc::new((Mutex::new(false), Condvar::new()));
            let p2 = p.clone();
            let h = shuttle::thread::spawn(move || {
                shuttle::thread::yield_now();
                *p2.0.lock().unwrap() = true;
                p2.1.notify_one();
            });
            let mut g = p.0.lock().unwrap();
            while !*g {
                g = p.1.wait(g).unwrap();
            }
            drop(g);
            h.join().unwrap();
        }),
    ));
    v.push((
        "async tasks with yield_now and atomics",
        std::sync::Arc::new(|| {
            use shuttle::sync::atomic::{AtomicUsize, Ordering};
            let c = Arc::new(AtomicUsize::new(0));
            let c2 = c.clone();
            shuttle::future::block_on(async move {
                let h = shuttle::future::spawn(async move {
                    shuttle::future::yield_now().await;
                    c2.fetch_add(1, Ordering::SeqCst);
                });
                c.fetch_add(1, Ordering::SeqCst);
                h.await.unwrap();
            });
        }),
    ));
    // a sample of the generated programs (every k-th of each family's quick set)
    fn sample<F: Family>(v: &mut Vec<(&'static str, std::sync::Arc<dyn Fn() + Send + Sync>)>, progs: Vec<Program<F>>, want: usize) {
        let k = (progs.len() / want).max(1);
        for (i, p) in progs.into_iter().enumerate() {
            if i % k != 0 {
                continue;
            }
            let name: &'static str = Box::leak(format!("{} #{}", F::NAME, i).into_boxed_str());
            let arc = std::sync::Arc::new(SS(p));
            v.push((
                name,
                std::sync::Arc::new(move || {
                    // fresh logs per execution: nothing of the harness survives a body
                    let logs: Logs<F::Res> = Default::default();
                    let auxs: AuxLogs = Default::default();
                    make_body::<F>(&arc, &logs, &auxs)()
                }),
            ));
        }
    }
    sample(&mut v, crate::fam_lock::program_set("quick"), per_family);
    sample(&mut v, crate::fam_sync::program_set("quick"), per_family);
    sample(&mut v, crate::fam_mpsc::program_set("quick"), per_family);
    sample(&mut v, crate::fam_thread::program_set("quick"), per_family);
    sample(&mut v, crate::fam_async::program_set("quick"), per_family);
    v
}

/// Bodies `shard`, `shard + nshards`, ... of the list (`per_family` generated programs per family).
pub fn run(per_family: usize, shard: usize, nshards: usize) -> Value {
    crate::common::silence_panics();
    let mut mismatches = Vec::new();
    let mut rows = Vec::new();
    for (i, (name, body)) in bodies(per_family).into_iter().enumerate() {
        if i % nshards != shard {
            continue;
        }
        let b0 = body.clone();
        let plain = tree_signature(move || b0(), &|e| DynSched(Box::new(e)), Via::Runner);
        let wraps: Vec<(&str, Box<dyn Fn(Explorer) -> DynSched>)> = vec![
            (
                "MetricsScheduler",
                Box::new(|e| DynSched(Box::new(shuttle_engine::scheduler::metrics::MetricsScheduler::new(e)))),
            ),
            (
                "UncontrolledNondeterminismCheckScheduler",
                Box::new(|e| DynSched(Box::new(shuttle_schedulers::UncontrolledNondeterminismCheckScheduler::new(e)))),
            ),
        ];
        let wraps: Vec<(&str, Box<dyn Fn(Explorer) -> DynSched>, Via)> = wraps
            .into_iter()
            .map(|(n, w)| (n, w, Via::Runner))
            .chain([
                (
                    "AnnotationScheduler",
                    Box::new(|e: Explorer| DynSched(Box::new(shuttle_schedulers::AnnotationScheduler::new(e)))) as Box<dyn Fn(Explorer) -> DynSched>,
                    Via::Runner,
                ),
                (
                    "PortfolioRunner's stop wrapper",
                    Box::new(|e: Explorer| DynSched(Box::new(e))) as Box<dyn Fn(Explorer) -> DynSched>,
                    Via::Portfolio,
                ),
            ])
            .collect();
        for (wname, w, via) in wraps {
            let b1 = body.clone();
            let got = tree_signature(move || b1(), &*w, via);
            rows.push(json!({"body": name, "wrapper": wname, "executions_plain": plain.0, "executions_wrapped": got.0}));
            if got.0 != plain.0 || got.1 != plain.1 || !got.2.is_empty() {
                mismatches.push(json!({"body": name, "wrapper": wname, "plain": [plain.0, plain.1], "wrapped": [got.0, got.1], "complaints": got.2.iter().take(2).collect::<Vec<_>>()}));
            }
        }
    }
    json!({"cases": rows, "mismatches": mismatches})
}
