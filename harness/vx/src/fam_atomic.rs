//! Family `atomic`: shuttle::sync::atomic::AtomicUsize, 2 variables, SC interleaving model.

use crate::prog::*;
use shuttle::sync::atomic::{AtomicUsize, Ordering};

#[derive(Clone, Debug, PartialEq, Eq, Hash)]
pub enum AOp {
    Load(usize),
    Store(usize, usize),
    Swap(usize, usize),
    Cas(usize, usize, usize),
    CasWeak(usize, usize, usize),
    FetchAdd(usize, usize),
    FetchMax(usize, usize),
    /// fetch_update with a closure that refuses odd values: Some(v+10) if even else None
    FetchUpdateEven(usize),
}

#[derive(Clone, Debug, PartialEq, Eq, Hash, PartialOrd, Ord)]
pub enum ARes {
    Unit,
    Val(usize),
    Ok(usize),
    Err(usize),
}

pub struct AtomicFam;

const ORD: [Ordering; 3] = [Ordering::SeqCst, Ordering::Relaxed, Ordering::AcqRel];

impl Family for AtomicFam {
    type Op = AOp;
    type Res = ARes;
    type Cfg = usize; // number of variables
    type Objs = Vec<AtomicUsize>;
    type Locals = ();
    type M = Vec<usize>;
    const NAME: &'static str = "atomic";

    fn make_objs(cfg: &usize, _n: usize) -> Vec<AtomicUsize> {
        (0..*cfg).map(|_| AtomicUsize::new(0)).collect()
    }
    fn new_locals(_cfg: &usize, _t: usize) {}
    fn exec(o: &Vec<AtomicUsize>, _l: &mut (), t: usize, op: &AOp) -> ARes {
        // vary the ordering with the thread: Shuttle must treat them all as SeqCst
        let ord = ORD[t % 3];
        let (ld, st) = match ord {
            Ordering::AcqRel => (Ordering::Acquire, Ordering::Release),
            o => (o, o),
        };
        match op {
            AOp::Load(a) => ARes::Val(o[*a].load(ld)),
            AOp::Store(a, v) => {
                o[*a].store(*v, st);
                ARes::Unit
            }
            AOp::Swap(a, v) => ARes::Val(o[*a].swap(*v, ord)),
            AOp::Cas(a, e, n) => match o[*a].compare_exchange(*e, *n, ord, ld) {
                Ok(v) => ARes::Ok(v),
                Err(v) => ARes::Err(v),
            },
            AOp::CasWeak(a, e, n) => match o[*a].compare_exchange_weak(*e, *n, ord, ld) {
                Ok(v) => ARes::Ok(v),
                Err(v) => ARes::Err(v),
            },
            AOp::FetchAdd(a, v) => ARes::Val(o[*a].fetch_add(*v, ord)),
            AOp::FetchMax(a, v) => ARes::Val(o[*a].fetch_max(*v, ord)),
            AOp::FetchUpdateEven(a) => match o[*a].fetch_update(ord, ld, |x| if x % 2 == 0 { Some(x + 10) } else { None }) {
                Ok(v) => ARes::Ok(v),
                Err(v) => ARes::Err(v),
            },
        }
    }
    fn objects_of(op: &AOp) -> Vec<u32> {
        let a = match op {
            AOp::Load(a) | AOp::Store(a, _) | AOp::Swap(a, _) | AOp::Cas(a, _, _) | AOp::CasWeak(a, _, _) | AOp::FetchAdd(a, _) | AOp::FetchMax(a, _) | AOp::FetchUpdateEven(a) => *a,
        };
        vec![0x300 + a as u32]
    }
    /// atomic write -> every later atomic read or read-modify-write of the same variable
    fn hb_must(p: &Program<AtomicFam>, log: &[Entry<ARes>]) -> Vec<(usize, usize)> {
        let mut out = Vec::new();
        let mut writes: std::collections::HashMap<usize, Vec<usize>> = Default::default();
        for (i, e) in log.iter().enumerate() {
            let EKind::Ret(GRes::R(r)) = &e.kind else { continue };
            let GOp::Op(op) = &p.threads[e.thread][e.op] else { continue };
            let var = Self::objects_of(op)[0] as usize;
            let reads = !matches!(op, AOp::Store(..));
            let wrote = match op {
                AOp::Load(_) => false,
                AOp::Cas(..) | AOp::CasWeak(..) | AOp::FetchUpdateEven(_) => matches!(r, ARes::Ok(_)),
                _ => true,
            };
            if reads {
                for w in writes.get(&var).cloned().unwrap_or_default() {
                    out.push((w, i));
                }
            }
            if wrote {
                writes.entry(var).or_default().push(i);
            }
        }
        out
    }
    fn m_init(cfg: &usize, _n: usize) -> Vec<usize> {
        vec![0; *cfg]
    }
    fn m_step(m: &Vec<usize>, _t: usize, op: &AOp, _ph: u8, strict: bool) -> Vec<MStep<Vec<usize>, ARes>> {
        let mut n = m.clone();
        let r = match op {
            AOp::Load(a) => ARes::Val(n[*a]),
            AOp::Store(a, v) => {
                n[*a] = *v;
                ARes::Unit
            }
            AOp::Swap(a, v) => {
                let old = n[*a];
                n[*a] = *v;
                ARes::Val(old)
            }
            AOp::Cas(a, e, nw) | AOp::CasWeak(a, e, nw) => {
                if n[*a] == *e {
                    let old = n[*a];
                    let mut out = Vec::new();
                    // compare_exchange_weak may fail spuriously (contract); Shuttle never does (strict)
                    if matches!(op, AOp::CasWeak(..)) && !strict {
                        out.push(MStep::Done(m.clone(), ARes::Err(old)));
                    }
                    n[*a] = *nw;
                    out.push(MStep::Done(n, ARes::Ok(old)));
                    return out;
                } else {
                    ARes::Err(n[*a])
                }
            }
            AOp::FetchAdd(a, v) => {
                let old = n[*a];
                n[*a] = old.wrapping_add(*v);
                ARes::Val(old)
            }
            AOp::FetchMax(a, v) => {
                let old = n[*a];
                n[*a] = old.max(*v);
                ARes::Val(old)
            }
            AOp::FetchUpdateEven(a) => {
                let old = n[*a];
                if old % 2 == 0 {
                    n[*a] = old + 10;
                    ARes::Ok(old)
                } else {
                    ARes::Err(old)
                }
            }
        };
        vec![MStep::Done(n, r)]
    }
}

fn alphabet(vars: usize) -> Vec<AOp> {
    let mut v = Vec::new();
    for a in 0..vars {
        v.push(AOp::Load(a));
        v.push(AOp::Store(a, 1));
        v.push(AOp::FetchAdd(a, 1));
        v.push(AOp::Cas(a, 0, 2));
        if a == 0 {
            v.push(AOp::Swap(a, 3));
            v.push(AOp::CasWeak(a, 1, 4));
            v.push(AOp::FetchMax(a, 2));
            v.push(AOp::FetchUpdateEven(a));
        }
    }
    v
}

fn seqs(alpha: &[AOp], k: usize) -> Vec<Vec<AOp>> {
    let mut out: Vec<Vec<AOp>> = vec![];
    let mut cur: Vec<Vec<AOp>> = vec![vec![]];
    for _ in 0..k {
        let mut next = Vec::new();
        for s in &cur {
            for a in alpha {
                let mut s2 = s.clone();
                s2.push(a.clone());
                next.push(s2);
            }
        }
        out.extend(next.iter().cloned());
        cur = next;
    }
    out
}

pub fn programs(vars: usize, children: usize, k: usize, alpha: &[AOp]) -> Vec<Program<AtomicFam>> {
    let ss = seqs(alpha, k);
    let mut out = Vec::new();
    for idx in nondecreasing_tuples(ss.len(), children) {
        let ch: Vec<Vec<AOp>> = idx.iter().map(|&i| ss[i].clone()).collect();
        // forced collisions: every child touches a variable another child touches
        let touches = |s: &Vec<AOp>| -> Vec<usize> {
            s.iter()
                .map(|o| match o {
                    AOp::Load(a) | AOp::Store(a, _) | AOp::Swap(a, _) | AOp::Cas(a, _, _) | AOp::CasWeak(a, _, _) | AOp::FetchAdd(a, _) | AOp::FetchMax(a, _) | AOp::FetchUpdateEven(a) => *a,
                })
                .collect()
        };
        let tv: Vec<Vec<usize>> = ch.iter().map(touches).collect();
        let collide = (0..ch.len()).all(|i| (0..ch.len()).any(|j| j != i && tv[i].iter().any(|a| tv[j].contains(a))));
        if !collide {
            continue;
        }
        // skip programs without any write
        if !ch.iter().flatten().any(|o| !matches!(o, AOp::Load(_))) {
            continue;
        }
        out.push(Program::fork_join(vars, vec![], ch));
    }
    out.sort_by_key(|p| p.size());
    out
}

pub fn program_set(set: &str) -> Vec<Program<AtomicFam>> {
    match set {
        "quick" => {
            let mut v = programs(1, 2, 2, &alphabet(1));
            let small2: Vec<AOp> = vec![AOp::Load(0), AOp::Store(0, 1), AOp::Load(1), AOp::Store(1, 1), AOp::FetchAdd(0, 1)];
            v.extend(programs(2, 2, 2, &small2)); // store-buffering / message-passing shapes
            v.extend(programs(1, 3, 1, &alphabet(1)));
            v
        }
        "thorough" => {
            let mut v = programs(1, 2, 3, &alphabet(1));
            v.extend(programs(2, 2, 3, &[AOp::Load(0), AOp::Store(0, 1), AOp::Load(1), AOp::Store(1, 1), AOp::FetchAdd(0, 1), AOp::Cas(1, 0, 2)]));
            v.extend(programs(1, 3, 2, &[AOp::Load(0), AOp::Store(0, 1), AOp::FetchAdd(0, 1), AOp::Cas(0, 0, 2), AOp::Swap(0, 3)]));
            v
        }
        _ => panic!("unknown set {}", set),
    }
}
