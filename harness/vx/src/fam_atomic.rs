//! Family `atomic`: shuttle::sync::atomic::AtomicUsize, 2 variables, SC interleaving model; plus
//! (set `rmw`) EVERY read-modify-write entry point of the integer, bool and pointer atomics on one
//! shared variable per type (`AOp::X`), each raced against a store, another RMW and itself.

use crate::prog::*;
use shuttle::sync::atomic::{AtomicBool, AtomicI64, AtomicI8, AtomicPtr, AtomicU8, AtomicUsize, Ordering};

/// the typed variables of the `rmw` set
#[derive(Clone, Copy, Debug, PartialEq, Eq, Hash)]
pub enum XVar {
    I8,
    U8,
    I64,
    Bool,
    Ptr,
}

#[derive(Clone, Copy, Debug, PartialEq, Eq, Hash)]
pub enum XKind {
    Load,
    Store,
    Swap,
    Cas,
    CasWeak,
    /// deprecated compare_and_swap
    CasOld,
    Add,
    Sub,
    And,
    Nand,
    Or,
    Xor,
    Max,
    Min,
    /// fetch_update(|x| (x != a).then(|| b)): refuses exactly one value
    UpdateUnless,
}

impl XVar {
    fn idx(self) -> usize {
        match self {
            XVar::I8 => 0,
            XVar::U8 => 1,
            XVar::I64 => 2,
            XVar::Bool => 3,
            XVar::Ptr => 4,
        }
    }
    /// value domain of the model: the i64 image of the typed value
    fn norm(self, v: i64) -> i64 {
        match self {
            XVar::I8 => v as i8 as i64,
            XVar::U8 => v as u8 as i64,
            XVar::I64 => v,
            XVar::Bool => (v != 0) as i64,
            XVar::Ptr => v.rem_euclid(4),
        }
    }
    fn supports(self, k: XKind) -> bool {
        use XKind::*;
        match self {
            XVar::I8 | XVar::U8 | XVar::I64 => true,
            XVar::Bool => !matches!(k, Add | Sub | Max | Min),
            XVar::Ptr => matches!(k, Load | Store | Swap | Cas | CasWeak | CasOld | UpdateUnless),
        }
    }
}

static CELLS: [u32; 4] = [10, 11, 12, 13];
fn ptr_of(i: i64) -> *mut u32 {
    &CELLS[i.rem_euclid(4) as usize] as *const u32 as *mut u32
}
fn idx_of(p: *mut u32) -> i64 {
    CELLS.iter().position(|c| c as *const u32 == p as *const u32).expect("pointer from nowhere") as i64
}

pub struct AObjs {
    u: Vec<AtomicUsize>,
    i8_: AtomicI8,
    u8_: AtomicU8,
    i64_: AtomicI64,
    b: AtomicBool,
    p: AtomicPtr<u32>,
}

/// initial values of the typed variables (chosen next to the wrap-around points)
const X_INIT: [i64; 5] = [126, 254, -1, 0, 0];

/// the result of an RMW on the i64 image (what the new value is), None = no write
fn x_apply(var: XVar, k: XKind, old: i64, a: i64, b: i64) -> Option<i64> {
    use XKind::*;
    let n = |v: i64| var.norm(v);
    Some(match k {
        Load => return None,
        Store | Swap => n(a),
        Cas | CasWeak | CasOld => {
            if old == n(a) {
                n(b)
            } else {
                return None;
            }
        }
        Add => n(old.wrapping_add(n(a))),
        Sub => n(old.wrapping_sub(n(a))),
        And => n(old & n(a)),
        Nand => match var {
            XVar::Bool => n(!((old != 0) && (n(a) != 0)) as i64),
            _ => n(!(old & n(a))),
        },
        Or => n(old | n(a)),
        Xor => n(old ^ n(a)),
        Max => old.max(n(a)),
        Min => old.min(n(a)),
        UpdateUnless => {
            if old != n(a) {
                n(b)
            } else {
                return None;
            }
        }
    })
}

#[derive(Clone, Debug, PartialEq, Eq, Hash)]
pub enum AOp {
    Load(usize),
    Store(usize, usize),
    Swap(usize, usize),
    Cas(usize, usize, usize),
    CasWeak(usize, usize, usize),
    FetchAdd(usize, usize),
    FetchMax(usize, usize),
    /// fetch_update with a closure that refuses odd values: Some(v+10) if even else None
    FetchUpdateEven(usize),
    /// typed variable, entry point, two arguments (see `x_apply`)
    X(XVar, XKind, i64, i64),
}

#[derive(Clone, Debug, PartialEq, Eq, Hash, PartialOrd, Ord)]
pub enum ARes {
    Unit,
    Val(usize),
    Ok(usize),
    Err(usize),
}

pub struct AtomicFam;

const ORD: [Ordering; 3] = [Ordering::SeqCst, Ordering::Relaxed, Ordering::AcqRel];

impl Family for AtomicFam {
    type Op = AOp;
    type Res = ARes;
    type Cfg = usize; // number of variables
    type Objs = AObjs;
    type Locals = ();
    /// the usize variables, then the five typed ones (i64 images)
    type M = Vec<i64>;
    const NAME: &'static str = "atomic";

    fn make_objs(cfg: &usize, _n: usize) -> AObjs {
        AObjs {
            u: (0..*cfg).map(|_| AtomicUsize::new(0)).collect(),
            i8_: AtomicI8::new(X_INIT[0] as i8),
            u8_: AtomicU8::new(X_INIT[1] as u8),
            i64_: AtomicI64::new(X_INIT[2]),
            b: AtomicBool::new(X_INIT[3] != 0),
            p: AtomicPtr::new(ptr_of(X_INIT[4])),
        }
    }
    fn new_locals(_cfg: &usize, _t: usize) {}
    fn exec(objs: &AObjs, _l: &mut (), t: usize, op: &AOp) -> ARes {
        let o = &objs.u;
        // vary the ordering with the thread: Shuttle must treat them all as SeqCst
        let ord = ORD[t % 3];
        let (ld, st) = match ord {
            Ordering::AcqRel => (Ordering::Acquire, Ordering::Release),
            o => (o, o),
        };
        match op {
            AOp::Load(a) => ARes::Val(o[*a].load(ld)),
            AOp::Store(a, v) => {
                o[*a].store(*v, st);
                ARes::Unit
            }
            AOp::Swap(a, v) => ARes::Val(o[*a].swap(*v, ord)),
            AOp::Cas(a, e, n) => match o[*a].compare_exchange(*e, *n, ord, ld) {
                Ok(v) => ARes::Ok(v),
                Err(v) => ARes::Err(v),
            },
            AOp::CasWeak(a, e, n) => match o[*a].compare_exchange_weak(*e, *n, ord, ld) {
                Ok(v) => ARes::Ok(v),
                Err(v) => ARes::Err(v),
            },
            AOp::FetchAdd(a, v) => ARes::Val(o[*a].fetch_add(*v, ord)),
            AOp::FetchMax(a, v) => ARes::Val(o[*a].fetch_max(*v, ord)),
            AOp::FetchUpdateEven(a) => match o[*a].fetch_update(ord, ld, |x| if x % 2 == 0 { Some(x + 10) } else { None }) {
                Ok(v) => ARes::Ok(v),
                Err(v) => ARes::Err(v),
            },
            AOp::X(var, k, a, b) => {
                let (a, b) = (*a, *b);
                let val = |v: i64| ARes::Val(v as usize);
                let res = |r: Result<i64, i64>| match r {
                    Ok(v) => ARes::Ok(v as usize),
                    Err(v) => ARes::Err(v as usize),
                };
                macro_rules! int_ops {
                    ($cell:expr, $t:ty) => {{
                        let c = &$cell;
                        let (a, b) = (a as $t, b as $t);
                        match k {
                            XKind::Load => val(c.load(ld) as i64),
                            XKind::Store => {
                                c.store(a, st);
                                ARes::Unit
                            }
                            XKind::Swap => val(c.swap(a, ord) as i64),
                            XKind::Cas => res(c.compare_exchange(a, b, ord, ld).map(|v| v as i64).map_err(|v| v as i64)),
                            XKind::CasWeak => res(c.compare_exchange_weak(a, b, ord, ld).map(|v| v as i64).map_err(|v| v as i64)),
                            #[allow(deprecated)]
                            XKind::CasOld => val(c.compare_and_swap(a, b, ord) as i64),
                            XKind::Add => val(c.fetch_add(a, ord) as i64),
                            XKind::Sub => val(c.fetch_sub(a, ord) as i64),
                            XKind::And => val(c.fetch_and(a, ord) as i64),
                            XKind::Nand => val(c.fetch_nand(a, ord) as i64),
                            XKind::Or => val(c.fetch_or(a, ord) as i64),
                            XKind::Xor => val(c.fetch_xor(a, ord) as i64),
                            XKind::Max => val(c.fetch_max(a, ord) as i64),
                            XKind::Min => val(c.fetch_min(a, ord) as i64),
                            XKind::UpdateUnless => res(c.fetch_update(ord, ld, |x| (x != a).then_some(b)).map(|v| v as i64).map_err(|v| v as i64)),
                        }
                    }};
                }
                match var {
                    XVar::I8 => int_ops!(objs.i8_, i8),
                    XVar::U8 => int_ops!(objs.u8_, u8),
                    XVar::I64 => int_ops!(objs.i64_, i64),
                    XVar::Bool => {
                        let c = &objs.b;
                        let (a, b) = (a != 0, b != 0);
                        match k {
                            XKind::Load => val(c.load(ld) as i64),
                            XKind::Store => {
                                c.store(a, st);
                                ARes::Unit
                            }
                            XKind::Swap => val(c.swap(a, ord) as i64),
                            XKind::Cas => res(c.compare_exchange(a, b, ord, ld).map(|v| v as i64).map_err(|v| v as i64)),
                            XKind::CasWeak => res(c.compare_exchange_weak(a, b, ord, ld).map(|v| v as i64).map_err(|v| v as i64)),
                            #[allow(deprecated)]
                            XKind::CasOld => val(c.compare_and_swap(a, b, ord) as i64),
                            XKind::And => val(c.fetch_and(a, ord) as i64),
                            XKind::Nand => val(c.fetch_nand(a, ord) as i64),
                            XKind::Or => val(c.fetch_or(a, ord) as i64),
                            XKind::Xor => val(c.fetch_xor(a, ord) as i64),
                            XKind::UpdateUnless => res(c.fetch_update(ord, ld, |x| (x != a).then_some(b)).map(|v| v as i64).map_err(|v| v as i64)),
                            _ => unreachable!("not an AtomicBool entry point"),
                        }
                    }
                    XVar::Ptr => {
                        let c = &objs.p;
                        let (pa, pb) = (ptr_of(a), ptr_of(b));
                        match k {
                            XKind::Load => val(idx_of(c.load(ld))),
                            XKind::Store => {
                                c.store(pa, st);
                                ARes::Unit
                            }
                            XKind::Swap => val(idx_of(c.swap(pa, ord))),
                            XKind::Cas => res(c.compare_exchange(pa, pb, ord, ld).map(idx_of).map_err(idx_of)),
                            XKind::CasWeak => res(c.compare_exchange_weak(pa, pb, ord, ld).map(idx_of).map_err(idx_of)),
                            #[allow(deprecated)]
                            XKind::CasOld => val(idx_of(c.compare_and_swap(pa, pb, ord))),
                            XKind::UpdateUnless => res(c.fetch_update(ord, ld, |x| (x != pa).then_some(pb)).map(idx_of).map_err(idx_of)),
                            _ => unreachable!("not an AtomicPtr entry point"),
                        }
                    }
                }
            }
        }
    }
    fn objects_of(op: &AOp) -> Vec<u32> {
        if let AOp::X(var, ..) = op {
            return vec![0x380 + var.idx() as u32];
        }
        let a = match op {
            AOp::Load(a) | AOp::Store(a, _) | AOp::Swap(a, _) | AOp::Cas(a, _, _) | AOp::CasWeak(a, _, _) | AOp::FetchAdd(a, _) | AOp::FetchMax(a, _) | AOp::FetchUpdateEven(a) => *a,
            AOp::X(..) => unreachable!(),
        };
        vec![0x300 + a as u32]
    }
    /// atomic write -> every later atomic read or read-modify-write of the same variable
    fn hb_must(p: &Program<AtomicFam>, log: &[Entry<ARes>]) -> Vec<(usize, usize)> {
        let mut out = Vec::new();
        let mut writes: std::collections::HashMap<usize, Vec<usize>> = Default::default();
        for (i, e) in log.iter().enumerate() {
            let EKind::Ret(GRes::R(r)) = &e.kind else { continue };
            let GOp::Op(op) = &p.threads[e.thread][e.op] else { continue };
            let var = Self::objects_of(op)[0] as usize;
            let reads = !matches!(op, AOp::Store(..) | AOp::X(_, XKind::Store, ..));
            let wrote = match op {
                AOp::Load(_) | AOp::X(_, XKind::Load, ..) => false,
                AOp::Cas(..) | AOp::CasWeak(..) | AOp::FetchUpdateEven(_) => matches!(r, ARes::Ok(_)),
                AOp::X(_, XKind::Cas | XKind::CasWeak | XKind::UpdateUnless, ..) => matches!(r, ARes::Ok(_)),
                // the deprecated compare_and_swap does not say whether it wrote: no required edge from it
                AOp::X(_, XKind::CasOld, ..) => false,
                _ => true,
            };
            if reads {
                for w in writes.get(&var).cloned().unwrap_or_default() {
                    out.push((w, i));
                }
            }
            if wrote {
                writes.entry(var).or_default().push(i);
            }
        }
        out
    }
    fn m_init(cfg: &usize, _n: usize) -> Vec<i64> {
        let mut v = vec![0; *cfg];
        v.extend(X_INIT);
        v
    }
    fn m_step(m: &Vec<i64>, _t: usize, op: &AOp, _ph: u8, strict: bool) -> Vec<MStep<Vec<i64>, ARes>> {
        let mut n = m.clone();
        if let AOp::X(var, k, a, b) = op {
            let slot = m.len() - 5 + var.idx();
            let old = m[slot];
            let new = x_apply(*var, *k, old, *a, *b);
            if let Some(v) = new {
                n[slot] = v;
            }
            let r = match k {
                XKind::Store => ARes::Unit,
                XKind::Cas | XKind::CasWeak | XKind::UpdateUnless => {
                    if new.is_some() {
                        ARes::Ok(old as usize)
                    } else {
                        ARes::Err(old as usize)
                    }
                }
                _ => ARes::Val(old as usize),
            };
            let mut out = vec![];
            if *k == XKind::CasWeak && new.is_some() && !strict {
                out.push(MStep::Done(m.clone(), ARes::Err(old as usize)));
            }
            out.push(MStep::Done(n, r));
            return out;
        }
        let r = match op {
            AOp::Load(a) => ARes::Val(n[*a] as usize),
            AOp::Store(a, v) => {
                n[*a] = *v as i64;
                ARes::Unit
            }
            AOp::Swap(a, v) => {
                let old = n[*a] as usize;
                n[*a] = *v as i64;
                ARes::Val(old)
            }
            AOp::Cas(a, e, nw) | AOp::CasWeak(a, e, nw) => {
                if n[*a] as usize == *e {
                    let old = n[*a] as usize;
                    let mut out = Vec::new();
                    // compare_exchange_weak may fail spuriously (contract); Shuttle never does (strict)
                    if matches!(op, AOp::CasWeak(..)) && !strict {
                        out.push(MStep::Done(m.clone(), ARes::Err(old)));
                    }
                    n[*a] = *nw as i64;
                    out.push(MStep::Done(n, ARes::Ok(old)));
                    return out;
                } else {
                    ARes::Err(n[*a] as usize)
                }
            }
            AOp::FetchAdd(a, v) => {
                let old = n[*a] as usize;
                n[*a] = old.wrapping_add(*v) as i64;
                ARes::Val(old)
            }
            AOp::FetchMax(a, v) => {
                let old = n[*a] as usize;
                n[*a] = old.max(*v) as i64;
                ARes::Val(old)
            }
            AOp::FetchUpdateEven(a) => {
                let old = n[*a] as usize;
                if old % 2 == 0 {
                    n[*a] = (old + 10) as i64;
                    ARes::Ok(old)
                } else {
                    ARes::Err(old)
                }
            }
            AOp::X(..) => unreachable!(),
        };
        vec![MStep::Done(n, r)]
    }
}

fn alphabet(vars: usize) -> Vec<AOp> {
    let mut v = Vec::new();
    for a in 0..vars {
        v.push(AOp::Load(a));
        v.push(AOp::Store(a, 1));
        v.push(AOp::FetchAdd(a, 1));
        v.push(AOp::Cas(a, 0, 2));
        if a == 0 {
            v.push(AOp::Swap(a, 3));
            v.push(AOp::CasWeak(a, 1, 4));
            v.push(AOp::FetchMax(a, 2));
            v.push(AOp::FetchUpdateEven(a));
        }
    }
    v
}

fn seqs(alpha: &[AOp], k: usize) -> Vec<Vec<AOp>> {
    let mut out: Vec<Vec<AOp>> = vec![];
    let mut cur: Vec<Vec<AOp>> = vec![vec![]];
    for _ in 0..k {
        let mut next = Vec::new();
        for s in &cur {
            for a in alpha {
                let mut s2 = s.clone();
                s2.push(a.clone());
                next.push(s2);
            }
        }
        out.extend(next.iter().cloned());
        cur = next;
    }
    out
}

pub fn programs(vars: usize, children: usize, k: usize, alpha: &[AOp]) -> Vec<Program<AtomicFam>> {
    let ss = seqs(alpha, k);
    let mut out = Vec::new();
    for idx in nondecreasing_tuples(ss.len(), children) {
        let ch: Vec<Vec<AOp>> = idx.iter().map(|&i| ss[i].clone()).collect();
        // forced collisions: every child touches a variable another child touches
        let touches = |s: &Vec<AOp>| -> Vec<usize> {
            s.iter()
                .map(|o| match o {
                    AOp::Load(a) | AOp::Store(a, _) | AOp::Swap(a, _) | AOp::Cas(a, _, _) | AOp::CasWeak(a, _, _) | AOp::FetchAdd(a, _) | AOp::FetchMax(a, _) | AOp::FetchUpdateEven(a) => *a,
                    AOp::X(var, ..) => 100 + var.idx(),
                })
                .collect()
        };
        let tv: Vec<Vec<usize>> = ch.iter().map(touches).collect();
        let collide = (0..ch.len()).all(|i| (0..ch.len()).any(|j| j != i && tv[i].iter().any(|a| tv[j].contains(a))));
        if !collide {
            continue;
        }
        // skip programs without any write
        if !ch.iter().flatten().any(|o| !matches!(o, AOp::Load(_))) {
            continue;
        }
        out.push(Program::fork_join(vars, vec![], ch));
    }
    out.sort_by_key(|p| p.size());
    out
}

/// Every entry point of every atomic type on one shared variable: `T1 [X] ‖ T2 [peer]`, main reads the
/// final value after the joins; peers = a store, an RMW whose effect does not commute with anything
/// (xor / swap), and X itself.  A read-modify-write that is not one indivisible step loses one of
/// the two updates in some schedule, which no interleaving of the model explains.
pub fn rmw_programs(three: bool) -> Vec<Program<AtomicFam>> {
    use XKind::*;
    let kinds = [Load, Store, Swap, Cas, CasWeak, CasOld, Add, Sub, And, Nand, Or, Xor, Max, Min, UpdateUnless];
    let mut out = Vec::new();
    for (vi, var) in [XVar::I8, XVar::U8, XVar::I64, XVar::Bool, XVar::Ptr].into_iter().enumerate() {
        let init = X_INIT[vi];
        // arguments: something that changes the value from the initial one and from the peers' results
        let args = |k: XKind| -> (i64, i64) {
            match (var, k) {
                (_, Cas | CasWeak | CasOld) => (init, init + 3),
                (_, UpdateUnless) => (init + 1, init + 2),
                (XVar::Bool, _) => (1, 0),
                (XVar::Ptr, _) => (2, 0),
                (_, And) => (0x5a, 0),
                (_, Max) => (init + 1, 0),
                (_, Min) => (init - 1, 0),
                _ => (3, 0),
            }
        };
        let peers: Vec<AOp> = match var {
            XVar::Bool => vec![AOp::X(var, Store, 1, 0), AOp::X(var, Xor, 1, 0), AOp::X(var, Cas, 0, 1)],
            XVar::Ptr => vec![AOp::X(var, Store, 1, 0), AOp::X(var, Swap, 3, 0), AOp::X(var, Cas, 0, 1)],
            _ => vec![AOp::X(var, Store, init + 1, 0), AOp::X(var, Xor, 0x11, 0), AOp::X(var, Add, 1, 0), AOp::X(var, Cas, init, init + 1)],
        };
        for k in kinds {
            if !var.supports(k) {
                continue;
            }
            let (a, b) = args(k);
            let x = AOp::X(var, k, a, b);
            let mut others = peers.clone();
            others.push(x.clone());
            for peer in others {
                let mut main: Vec<GOp<AOp>> = vec![GOp::Spawn(1), GOp::Spawn(2)];
                if three {
                    main.push(GOp::Op(AOp::X(var, Xor, 1, 0)).clone());
                    if matches!(var, XVar::Ptr) {
                        main.pop();
                        main.push(GOp::Op(AOp::X(var, Swap, 1, 0)));
                    }
                }
                main.extend([GOp::Join(1), GOp::Join(2), GOp::Op(AOp::X(var, Load, 0, 0))]);
                let t1 = vec![GOp::Op(x.clone()), GOp::Op(AOp::X(var, Load, 0, 0))];
                let t2 = vec![GOp::Op(peer.clone())];
                out.push(Program { cfg: 0, threads: vec![main, t1, t2] });
            }
        }
    }
    out
}

pub fn program_set(set: &str) -> Vec<Program<AtomicFam>> {
    if set == "highids" {
        // every k-th program of the quick set with its threads moved to task ids above 16
        let base = program_set("quick");
        let k = (base.len() / 40).max(1);
        return base.iter().enumerate().filter(|(i, p)| i % k == 0 && p.threads.len() <= 4).map(|(_, p)| with_high_ids(p, 16)).collect();
    }
    match set {
        "rmw" => rmw_programs(false),
        "rmw3" => rmw_programs(true),
        "quick" => {
            let mut v = programs(1, 2, 2, &alphabet(1));
            let small2: Vec<AOp> = vec![AOp::Load(0), AOp::Store(0, 1), AOp::Load(1), AOp::Store(1, 1), AOp::FetchAdd(0, 1)];
            v.extend(programs(2, 2, 2, &small2)); // store-buffering / message-passing shapes
            v.extend(programs(1, 3, 1, &alphabet(1)));
            v
        }
        "thorough" => {
            let mut v = programs(1, 2, 3, &alphabet(1));
            v.extend(programs(2, 2, 3, &[AOp::Load(0), AOp::Store(0, 1), AOp::Load(1), AOp::Store(1, 1), AOp::FetchAdd(0, 1), AOp::Cas(1, 0, 2)]));
            v.extend(programs(1, 3, 2, &[AOp::Load(0), AOp::Store(0, 1), AOp::FetchAdd(0, 1), AOp::Cas(0, 0, 2), AOp::Swap(0, 3)]));
            v
        }
        _ => panic!("unknown set {}", set),
    }
}
