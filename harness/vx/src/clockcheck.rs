//! C15: vector clocks versus the happens-before relation derived from the operation log by
//! API-level rules.

use crate::drive::*;
use crate::explore::{Explorer, Options};
use crate::prog::*;
use std::sync::Arc;

fn dominates(b: &[u32], a: &[u32]) -> bool {
    (0..a.len().max(b.len())).all(|i| b.get(i).cloned().unwrap_or(0) >= a.get(i).cloned().unwrap_or(0))
}

/// Indices (into the log) of the events that carry a clock.
fn events<R>(log: &[Entry<R>]) -> Vec<usize> {
    (0..log.len()).filter(|&i| matches!(log[i].kind, EKind::Ret(_) | EKind::End | EKind::Start)).collect()
}

pub fn clock_program<F: Family>(idx: usize, prog: &Program<F>, mode: &Mode) -> ProgReport {
    use shuttle_engine::runtime::execution::CurrentSchedule;
    let mut rep = ProgReport {
        idx,
        ..Default::default()
    };
    let kinds = op_kinds(prog);
    let desc = prog.describe();
    let arc = Arc::new(SS(prog.clone()));
    let config = base_config();
    let ex = Explorer::new(Options {
        data_from_seed: true,
        ..Options::default()
    });
    let mut viols: Vec<Violation> = Vec::new();
    let mut shapes = std::collections::BTreeSet::new();
    let n = prog.threads.len();
    loop {
        let (log, ending) = run_once::<F, _>(&arc, ex.handle(), &config);
        let recorded = CurrentSchedule::get_schedule();
        ex.advance();
        if let Some(d) = ex.diverged() {
            rep.machinery_error = Some(d);
            break;
        }
        let path = ex.path();
        rep.executions += 1;
        let mut complain = |culprit: &str, what: String| {
            if viols.len() < mode.max_violations_per_program + 2 {
                viols.push(Violation {
                    kind: VKind::Other("Clock".into()),
                    culprit: culprit.to_string(),
                    family: F::NAME.into(),
                    program_idx: idx,
                    program: desc.clone(),
                    op_kinds: kinds.clone(),
                    what,
                    alts: alts_to_strings(&path),
                    choices: vec![],
                });
            }
        };
        let ev = events(&log);
        let pos_of = |entry: usize| ev.iter().position(|e| *e == entry);
        let m = ev.len();
        // ---- edges
        let mut must: Vec<(usize, usize)> = Vec::new(); // indices into ev
        let mut may = vec![vec![false; m]; m];
        // program order
        for t in 0..n {
            let mine: Vec<usize> = (0..m).filter(|&i| log[ev[i]].thread == t).collect();
            for w in mine.windows(2) {
                must.push((w[0], w[1]));
                may[w[0]][w[1]] = true;
            }
        }
        // spawn -> child start ; child end -> join return
        for i in 0..m {
            let e = &log[ev[i]];
            if let EKind::Ret(_) = e.kind {
                match &prog.threads[e.thread][e.op] {
                    GOp::Spawn(c) => {
                        if let Some(j) = (0..m).find(|&j| log[ev[j]].thread == *c && log[ev[j]].kind == EKind::Start) {
                            must.push((i, j));
                            may[i][j] = true;
                        }
                    }
                    GOp::Join(c) => {
                        // the joined task's end — or, for a cancelled task, the last thing it did
                        let end = (0..m).find(|&j| log[ev[j]].thread == *c && log[ev[j]].kind == EKind::End).or_else(|| (0..i).rev().find(|&j| log[ev[j]].thread == *c));
                        if let Some(j) = end {
                            must.push((j, i));
                            may[j][i] = true;
                        }
                        // a task cancelled in the middle of an operation has no return entry for it,
                        // but the part it executed may already have learnt from others (a nested
                        // wait that completed): everything on a common object may reach the joiner
                        let cancelled_mid_op = !(0..m).any(|j| log[ev[j]].thread == *c && log[ev[j]].kind == EKind::End);
                        if cancelled_mid_op {
                            if let Some(inflight) = log.iter().rev().find(|x| x.thread == *c && x.kind == EKind::Call) {
                                if let Some(GOp::Op(x)) = prog.threads[*c].get(inflight.op) {
                                    let ox = F::objects_of(x);
                                    for a in 0..m {
                                        let ea = &log[ev[a]];
                                        if ea.thread == *c || a >= i {
                                            continue;
                                        }
                                        if let Some(GOp::Op(y)) = prog.threads[ea.thread].get(ea.op) {
                                            if F::objects_of(y).iter().any(|o| ox.contains(o)) {
                                                may[a][i] = true;
                                            }
                                        }
                                    }
                                }
                            }
                        }
                    }
                    _ => {}
                }
            }
        }
        // family rules
        for (a, b) in F::hb_must(prog, &log) {
            if let (Some(i), Some(j)) = (pos_of(a), pos_of(b)) {
                must.push((i, j));
            }
        }
        // may: two operations on a common object can exchange causality as soon as the first has
        // been *called* (operations overlap): from the caller's last clocked event before the call
        // (and from its return, if that comes first) to the other operation's return
        let prev_event = |entry: usize, thread: usize| -> Option<usize> { (0..m).rev().find(|&x| ev[x] < entry && log[ev[x]].thread == thread) };
        for (ci, c) in log.iter().enumerate() {
            if c.kind != EKind::Call {
                continue;
            }
            let GOp::Op(x) = &prog.threads[c.thread][c.op] else { continue };
            let ox = F::objects_of(x);
            if ox.is_empty() {
                continue;
            }
            let src_before = prev_event(ci, c.thread);
            let src_ret = (0..m).find(|&k| log[ev[k]].thread == c.thread && log[ev[k]].op == c.op && matches!(log[ev[k]].kind, EKind::Ret(_)));
            for j in 0..m {
                let b = &log[ev[j]];
                if b.thread == c.thread || ev[j] < ci {
                    continue;
                }
                if let EKind::Ret(_) = &b.kind {
                    if let GOp::Op(y) = &prog.threads[b.thread][b.op] {
                        let oy = F::objects_of(y);
                        if ox.iter().any(|o| oy.contains(o)) {
                            if let Some(sb) = src_before {
                                may[sb][j] = true;
                            }
                            if let Some(sr) = src_ret {
                                if sr < j {
                                    may[sr][j] = true;
                                }
                            }
                        }
                    }
                }
            }
        }
        // scoped spawns: what the owner did before the scope -> the scoped thread's start (must);
        // scoped thread's end -> the owner's return from the scope (leaving the scope is a join)
        for (ci, c) in log.iter().enumerate() {
            if c.kind != EKind::Call {
                continue;
            }
            match &prog.threads[c.thread][c.op] {
                GOp::ScopeBegin(children) => {
                    if let Some(sb) = prev_event(ci, c.thread) {
                        for ch in children {
                            if let Some(j) = (0..m).find(|&j| log[ev[j]].thread == *ch && log[ev[j]].kind == EKind::Start) {
                                must.push((sb, j));
                                may[sb][j] = true;
                            }
                        }
                    }
                }
                GOp::ScopeEnd => {
                    let children = scope_children(&prog.threads[c.thread], c.op);
                    if let Some(r) = (0..m).find(|&k| log[ev[k]].thread == c.thread && log[ev[k]].op == c.op && matches!(log[ev[k]].kind, EKind::Ret(_))) {
                        for ch in children {
                            if let Some(j) = (0..m).find(|&j| log[ev[j]].thread == ch && log[ev[j]].kind == EKind::End) {
                                // leaving the scope joins the scoped threads
                                must.push((j, r));
                                may[j][r] = true;
                            }
                        }
                    }
                }
                _ => {}
            }
        }
        // ---- must: dominance per edge (transitivity then follows), clocks only grow per task
        for (i, j) in &must {
            let (a, b) = (&log[ev[*i]], &log[ev[*j]]);
            if !dominates(&b.clock, &a.clock) {
                complain(
                    "happens-before-not-reflected",
                    format!(
                        "{:?} of thread {} (clock {:?}) happens before {:?} of thread {} (clock {:?}) but the second clock does not dominate the first",
                        a.kind, a.thread, a.clock, b.kind, b.thread, b.clock
                    ),
                );
            }
        }
        for (srcs, tgt) in F::hb_must_any(prog, &log) {
            if srcs.is_empty() {
                continue;
            }
            let b = &log[tgt];
            if !srcs.iter().any(|a| dominates(&b.clock, &log[*a].clock)) {
                complain(
                    "happens-before-not-reflected",
                    format!(
                        "{:?} of thread {} (clock {:?}) must have been released by one of {:?} but its clock dominates none of their clocks",
                        b.kind,
                        b.thread,
                        b.clock,
                        srcs.iter().map(|a| (log[*a].thread, log[*a].clock.clone())).collect::<Vec<_>>()
                    ),
                );
            }
        }
        for (src, tgts) in F::hb_must_reach(prog, &log) {
            let a = &log[src];
            if !tgts.iter().any(|b| dominates(&log[*b].clock, &a.clock)) {
                complain(
                    "happens-before-not-reflected",
                    format!(
                        "{:?} of thread {} (clock {:?}) must be in the past of at least one of {:?} but none of their clocks dominates it",
                        a.kind,
                        a.thread,
                        a.clock,
                        tgts.iter().map(|b| (log[*b].thread, log[*b].op, log[*b].clock.clone())).collect::<Vec<_>>()
                    ),
                );
            }
        }
        // ---- may: closure, then "never ordered without a chain"
        for k in 0..m {
            for i in 0..m {
                if may[i][k] {
                    for j in 0..m {
                        if may[k][j] {
                            may[i][j] = true;
                        }
                    }
                }
            }
        }
        for i in 0..m {
            for j in 0..m {
                let (a, b) = (&log[ev[i]], &log[ev[j]]);
                if a.thread == b.thread {
                    continue;
                }
                let a_adv = a.clock.get(a.task).cloned().unwrap_or(0) > 0;
                let b_adv = b.clock.get(b.task).cloned().unwrap_or(0) > 0;
                if !(a_adv && b_adv) {
                    continue;
                }
                if dominates(&b.clock, &a.clock) {
                    // some event of a's task must reach b
                    let chain = (0..m).any(|x| log[ev[x]].thread == a.thread && may[x][j]);
                    if !chain {
                        complain(
                            "ordered-without-chain",
                            format!(
                                "clock of thread {} after {:?} ({:?}) is dominated by the clock of thread {} after {:?} ({:?}) although no chain of synchronisation leads from the first task to that operation",
                                a.thread, a.kind, a.clock, b.thread, b.kind, b.clock
                            ),
                        );
                    }
                }
            }
        }
        shapes.insert(format!("{:?}", log.iter().filter(|e| matches!(e.kind, EKind::Ret(_))).map(|e| (e.thread, e.op)).collect::<Vec<_>>()));
        // ---- target-clock replay: nothing the target depends on may be dropped
        if ending == RawEnding::Ok {
            // Targets other than main: only for programs all of whose operations succeed through
            // the happens-before edges the property lists.  A failed try_*, an operation released
            // by close / disconnection / unpark / abort or by a spurious wake-up depends on
            // something no listed edge carries; a replay restricted to such a task's clock cannot
            // re-create that cause, the task stalls, and everything after it looks "dropped" (seen on
            // the unchanged tree in the first all-targets run: a false alarm of this check, the
            // statement defines "depends on" through the listed edges).
            let plain = prog.threads.iter().flatten().all(|o| {
                let name = match o {
                    GOp::Op(x) => format!("{:?}", x),
                    g => format!("{:?}", g),
                };
                const OUTSIDE: [&str; 34] = [
                    "MTry", "RTry", "MPanic", "RPanic", "Park", "Unpark", "DropTx", "DropRx", "TrySend", "TryRecv", "Close", "TryAcquire", "Start", "Poll", "Cancel", "Await",
                    "Avail", "IsClosed", "StartShared", "AwaitShared", "CancelShared", "Abort", "Detach", "IsFinished", "Tls", "NestedBlockOn", "FlagWaitNested", "FlagWaitRacy",
                    "FlagWaitStart", "FlagWaitShared", "OnceIsCompleted", "CasWeak", "Cas", "FetchUpdate",
                ];
                !OUTSIDE.iter().any(|p| name.starts_with(p))
            })
            // a strictly fair queue adds one more: a waiter also depends on the release that served the
            // waiter in front of it, which is not "the acquire that release enables"
            && !format!("{:?}", prog.cfg).contains("fair: true");
            let targets: Vec<usize> = if mode.clock_all_targets && plain { (0..n).collect() } else { vec![0] };
            for t in targets {
                let Some(last) = (0..m).rev().find(|&i| log[ev[i]].thread == t && matches!(log[ev[i]].kind, EKind::Ret(_))) else { continue };
                let target_clock = log[ev[last]].clock.clone();
                let mut rs = shuttle_schedulers::ReplayScheduler::new_from_schedule(recorded.clone());
                rs.set_allow_incomplete();
                rs.set_target_clock(&target_clock[..]);
                let (log2, end2) = run_once::<F, _>(&arc, rs, &config);
                if let RawEnding::Panic(msg) = &end2 {
                    let sig = if msg.contains("Option::unwrap()") { "target-clock-replay-rejected:unwrap-on-None-at-teardown" } else { "target-clock-replay-rejected" };
                    complain(sig, format!("replay restricted to the clock of thread {}'s last operation {:?} failed: {}", t, target_clock, msg));
                    continue;
                }
                // must-past of the target
                let mut past = vec![false; m];
                past[last] = true;
                let mut changed = true;
                while changed {
                    changed = false;
                    for (i, j) in &must {
                        if past[*j] && !past[*i] {
                            past[*i] = true;
                            changed = true;
                        }
                    }
                }
                for i in 0..m {
                    if !past[i] {
                        continue;
                    }
                    let e = &log[ev[i]];
                    if let EKind::Ret(_) = &e.kind {
                        // "dropped" = the operation does not complete in the restricted replay.  A
                        // *different result* is not judged: results may depend on state that is no
                        // happens-before edge of the property (a failed try_*, a closed semaphore, a
                        // disconnected channel), and the statement is about steps being dropped.
                        let again = log2.iter().any(|x| x.thread == e.thread && x.op == e.op && matches!(x.kind, EKind::Ret(_)));
                        if !again {
                            let opname = match prog.threads[e.thread].get(e.op) {
                                Some(GOp::Op(o)) => format!("{:?}", o).split(['(', ' ']).next().unwrap_or("?").to_string(),
                                Some(g) => format!("{:?}", g).split(['(', ' ']).next().unwrap_or("?").to_string(),
                                None => "?".into(),
                            };
                            complain(
                                &format!("target-clock-replay-dropped:{}", opname),
                                format!(
                                    "replay restricted to the clock of thread {}'s last operation dropped thread {} op {} {:?}, on which the target depends",
                                    t, e.thread, e.op, e.kind
                                ),
                            );
                        }
                    }
                }
                rep.traces_validated += 1;
            }
        }
        rep.decisions += must.len() as u64;
        if ex.exhausted() {
            rep.full_tree = true;
            break;
        }
        if rep.executions >= mode.max_execs {
            rep.capped = true;
            break;
        }
    }
    rep.impl_outcomes = shapes.len();
    rep.violations = viols;
    rep.sample = Some(serde_json::json!({"program": desc, "executions": rep.executions}));
    rep
}
