#![allow(dead_code)]
pub mod atomic_diff;
pub mod checks;
pub mod clockcheck;
pub mod common;
pub mod drive;
pub mod explore;
pub mod fam_async;
pub mod fam_atomic;
pub mod fam_iso;
pub mod fam_lock;
pub mod fam_mpsc;
pub mod fam_rand;
pub mod fam_sem;
pub mod fam_sync;
pub mod fam_thread;
pub mod prog;
pub mod wrappers;
