//! Family `sem`: shuttle_engine::future::batch_semaphore::BatchSemaphore (both fairness modes,
//! blocking, manually polled and cancelled acquisitions) against the counter+queue model (C18).

use crate::prog::*;
use shuttle_engine::future::batch_semaphore::{Acquire, BatchSemaphore, Fairness, TryAcquireError};
use shuttle_engine::runtime::execution::ExecutionState;
use std::cell::RefCell;
use std::future::Future;
use std::pin::Pin;
use std::task::{Context, Poll};

#[derive(Clone, Debug, PartialEq, Eq, Hash)]
pub enum SemOp {
    /// acquire_blocking(n)
    Acquire(usize),
    TryAcquire(usize),
    Release(usize),
    Close,
    Avail,
    IsClosed,
    /// create an `Acquire` future for n permits and poll it once (own slot)
    Start(usize),
    /// drive the own pending future to completion (block_on)
    Await,
    /// poll the own pending future once more
    Poll,
    /// drop the own pending future
    Cancel,
    /// like Start/Await/Cancel but the future lives in a slot shared by all threads (a future
    /// created and first polled by one task, then awaited or dropped by another)
    StartShared(usize),
    AwaitShared,
    CancelShared,
}

#[derive(Clone, Debug, PartialEq, Eq, Hash, PartialOrd, Ord)]
pub enum SemRes {
    Unit,
    Ok,
    Closed,
    NoPermits,
    Pending,
    Num(usize),
    Bool(bool),
    /// nothing to await / cancel (slot empty)
    Nothing,
}

#[derive(Clone, Debug)]
pub struct SemCfg {
    pub permits: usize,
    pub fair: bool,
}

type Fut = Pin<Box<Acquire<'static>>>;

pub struct SemObjs {
    // NB field order = drop order: the shared future borrows `sem` and must be dropped first
    shared: RefCell<Option<Fut>>,
    /// the slot is shared state of the *program*: every access is preceded by an access to this
    /// Shuttle atomic, so that tasks communicate through Shuttle primitives only
    slot_sync: shuttle::sync::atomic::AtomicUsize,
    sem: BatchSemaphore,
}

pub struct SemLocals {
    fut: Option<Fut>,
}

/// waiter identity: thread index for own futures, SHARED for the shared slot
const SHARED: usize = 99;

#[derive(Clone, Debug, PartialEq, Eq, Hash)]
pub struct SemM {
    fair: bool,
    avail: usize,
    closed: bool,
    /// (waiter id, permits, granted)
    queue: Vec<(usize, usize, bool)>,
    /// waiter ids with a live, not yet completed future that is not queued (granted & dequeued)
    granted: Vec<(usize, usize)>,
    /// own-slot / shared-slot future exists (created, not completed, not dropped)
    live: Vec<usize>,
    /// total permits currently held by completed acquisitions (ledger)
    held: usize,
    /// initial + released − 0 (ledger)
    total: usize,
    /// thread that last polled each live waiter (waiter id, thread)
    owner: Vec<(usize, usize)>,
    /// weakened model only: threads held blocked by `reblock_if_unfair` although they are not
    /// awaiting the acquisition they once polled
    forced: Vec<usize>,
    /// weakened model only (fair): finished threads, and requests discarded as stale (id, permits)
    finished: Vec<usize>,
    discarded: Vec<(usize, usize)>,
}

pub struct SemFam;

unsafe fn ext<'a, T>(r: &'a T) -> &'static T {
    std::mem::transmute(r)
}

fn poll_once(f: &mut Fut) -> Poll<Result<(), ()>> {
    let waker = ExecutionState::with(|s| s.current_mut().waker());
    let mut cx = Context::from_waker(&waker);
    match f.as_mut().poll(&mut cx) {
        Poll::Ready(Ok(())) => Poll::Ready(Ok(())),
        Poll::Ready(Err(_)) => Poll::Ready(Err(())),
        Poll::Pending => Poll::Pending,
    }
}

impl SemM {
    /// grant from the head while it fits (fair mode)
    fn grant_from_front(&mut self) {
        if !self.fair {
            return;
        }
        while let Some(&(id, n, _)) = self.queue.first() {
            if weak() {
                // F14: a head whose last poller has finished is dropped from the queue
                if let Some(o) = self.owner.iter().find(|o| o.0 == id) {
                    if self.finished.contains(&o.1) {
                        self.queue.remove(0);
                        self.discarded.push((id, n));
                        continue;
                    }
                }
            }
            if n <= self.avail {
                self.avail -= n;
                self.queue.remove(0);
                self.granted.push((id, n));
            } else {
                break;
            }
        }
    }
    fn ledger_ok(&self) -> bool {
        let granted: usize = self.granted.iter().map(|g| g.1).sum();
        self.avail + self.held + granted == self.total
    }
}

impl SemFam {
    /// arrive of an acquisition by waiter `id`: Some(result) if it completes at once, None if queued
    fn arrive(n: &mut SemM, id: usize, k: usize) -> Option<SemRes> {
        if n.closed {
            return Some(SemRes::Closed);
        }
        if (n.queue.is_empty() || !n.fair) && k <= n.avail {
            n.avail -= k;
            n.held += k;
            return Some(SemRes::Ok);
        }
        n.queue.push((id, k, false));
        None
    }
    /// can the pending acquisition of waiter `id` complete now?  Some(result) if so.
    fn complete(n: &mut SemM, id: usize) -> Option<SemRes> {
        if let Some(pos) = n.discarded.iter().position(|d| d.0 == id) {
            // weakened model: a discarded request starts over when it is polled again
            let (_, k) = n.discarded.remove(pos);
            return Self::arrive(n, id, k);
        }
        if let Some(pos) = n.granted.iter().position(|g| g.0 == id) {
            let (_, k) = n.granted.remove(pos);
            n.held += k;
            return Some(SemRes::Ok);
        }
        if n.closed {
            return Some(SemRes::Closed);
        }
        if !n.fair {
            if let Some(pos) = n.queue.iter().position(|q| q.0 == id) {
                let k = n.queue[pos].1;
                if k <= n.avail {
                    n.avail -= k;
                    n.held += k;
                    n.queue.remove(pos);
                    return Some(SemRes::Ok);
                }
            }
        }
        None
    }
    fn cancel(n: &mut SemM, id: usize) {
        n.discarded.retain(|d| d.0 != id);
        if let Some(pos) = n.granted.iter().position(|g| g.0 == id) {
            // granted but never observed: the permits go back (and may be granted on)
            let (_, k) = n.granted.remove(pos);
            n.avail += k;
            n.grant_from_front();
        } else if let Some(pos) = n.queue.iter().position(|q| q.0 == id) {
            n.queue.remove(pos);
            if pos == 0 {
                n.grant_from_front();
            }
        }
    }
}

impl Family for SemFam {
    type Op = SemOp;
    type Res = SemRes;
    type Cfg = SemCfg;
    type Objs = SemObjs;
    type Locals = SemLocals;
    type M = SemM;
    const NAME: &'static str = "sem";

    fn make_objs(cfg: &SemCfg, _n: usize) -> SemObjs {
        SemObjs {
            shared: RefCell::new(None),
            slot_sync: shuttle::sync::atomic::AtomicUsize::new(0),
            sem: BatchSemaphore::new(cfg.permits, if cfg.fair { Fairness::StrictlyFair } else { Fairness::Unfair }),
        }
    }
    fn new_locals(_cfg: &SemCfg, _t: usize) -> SemLocals {
        SemLocals { fut: None }
    }
    fn end_thread(_o: &SemObjs, l: SemLocals, _t: usize) {
        // programs are generated so that no own future is pending here
        assert!(l.fut.is_none(), "ill-formed program: pending future at thread end");
    }

    fn exec(o: &SemObjs, l: &mut SemLocals, _t: usize, op: &SemOp) -> SemRes {
        let sem: &'static BatchSemaphore = unsafe { ext(&o.sem) };
        let ready = |r: Poll<Result<(), ()>>| match r {
            Poll::Ready(Ok(())) => SemRes::Ok,
            Poll::Ready(Err(())) => SemRes::Closed,
            Poll::Pending => SemRes::Pending,
        };
        match op {
            SemOp::Acquire(n) => match sem.acquire_blocking(*n) {
                Ok(()) => SemRes::Ok,
                Err(_) => SemRes::Closed,
            },
            SemOp::TryAcquire(n) => match sem.try_acquire(*n) {
                Ok(()) => SemRes::Ok,
                Err(TryAcquireError::Closed) => SemRes::Closed,
                Err(TryAcquireError::NoPermits) => SemRes::NoPermits,
            },
            SemOp::Release(n) => {
                sem.release(*n);
                SemRes::Unit
            }
            SemOp::Close => {
                sem.close();
                SemRes::Unit
            }
            SemOp::Avail => SemRes::Num(sem.available_permits()),
            SemOp::IsClosed => SemRes::Bool(sem.is_closed()),
            SemOp::Start(n) => {
                let mut f: Fut = Box::pin(sem.acquire(*n));
                let r = poll_once(&mut f);
                if r.is_pending() {
                    l.fut = Some(f);
                }
                ready(r)
            }
            SemOp::Poll => match l.fut.as_mut() {
                None => SemRes::Nothing,
                Some(f) => {
                    let r = poll_once(f);
                    if !r.is_pending() {
                        l.fut = None;
                    }
                    ready(r)
                }
            },
            SemOp::Await => match l.fut.take() {
                None => SemRes::Nothing,
                Some(f) => match shuttle_engine::future::block_on(f) {
                    Ok(()) => SemRes::Ok,
                    Err(_) => SemRes::Closed,
                },
            },
            SemOp::Cancel => match l.fut.take() {
                None => SemRes::Nothing,
                Some(f) => {
                    drop(f);
                    SemRes::Unit
                }
            },
            SemOp::StartShared(n) => {
                o.slot_sync.fetch_add(1, std::sync::atomic::Ordering::SeqCst);
                let mut f: Fut = Box::pin(sem.acquire(*n));
                let r = poll_once(&mut f);
                if r.is_pending() {
                    let old = o.shared.borrow_mut().replace(f);
                    assert!(old.is_none(), "ill-formed program: shared slot busy");
                }
                ready(r)
            }
            SemOp::AwaitShared => {
                o.slot_sync.fetch_add(1, std::sync::atomic::Ordering::SeqCst);
                let f = o.shared.borrow_mut().take();
                match f {
                    None => SemRes::Nothing,
                    Some(f) => match shuttle_engine::future::block_on(f) {
                        Ok(()) => SemRes::Ok,
                        Err(_) => SemRes::Closed,
                    },
                }
            }
            SemOp::CancelShared => {
                o.slot_sync.fetch_add(1, std::sync::atomic::Ordering::SeqCst);
                let f = o.shared.borrow_mut().take();
                match f {
                    None => SemRes::Nothing,
                    Some(f) => {
                        drop(f);
                        SemRes::Unit
                    }
                }
            }
        }
    }

    /// Recorded finding F13: on an unfair semaphore, a successful acquisition re-blocks the task
    /// that last polled every queued acquisition that no longer fits — even if that task is not
    /// awaiting it (it polled once, got Pending and went on). The task then stays blocked until a
    /// release that fits the stale request (or a close) unblocks it.
    ///
    /// Recorded finding F14 (fair mode): a queued acquisition whose last polling task has finished
    /// is discarded as "stale" when it reaches the head during a release / cancellation: it loses
    /// its place, the permits stay available for later requests, and the future re-queues at the
    /// back when some task polls it again.
    fn weakening(cfg: &SemCfg) -> Option<&'static str> {
        if cfg.fair {
            Some("fair-queued-request-of-a-finished-task-loses-its-place")
        } else {
            Some("unfair-reblock-of-a-task-that-is-not-awaiting")
        }
    }
    fn m_no_sched_point(op: &GOp<SemOp>) -> Option<&'static str> {
        match op {
            GOp::Op(SemOp::Avail) => Some("no-scheduling-point-before:BatchSemaphore::available_permits"),
            GOp::Op(SemOp::IsClosed) => Some("no-scheduling-point-before:BatchSemaphore::is_closed"),
            GOp::Op(SemOp::Cancel) => Some("no-scheduling-point-before:drop(Acquire)"),
            // polling an `Acquire` again never has a scheduling point, and its FIRST poll omits it
            // when the request will block on an unfair semaphore (the "double-yield optimisation"
            // documented in `Acquire::poll`; the will-it-block test is made before the omitted point)
            GOp::Op(SemOp::Poll) => Some("no-scheduling-point-before:re-poll-of-Acquire"),
            GOp::Op(SemOp::Start(_) | SemOp::StartShared(_) | SemOp::Acquire(_)) => Some("no-scheduling-point-before:first-poll-of-a-blocking-unfair-Acquire"),
            _ => None,
        }
    }
    fn m_fuse_applies(m: &SemM, _t: usize, op: &SemOp) -> bool {
        match op {
            // only where the implementation omits the point: unfair, not closed, not enough permits
            SemOp::Start(k) | SemOp::StartShared(k) | SemOp::Acquire(k) => !m.fair && !m.closed && m.avail < *k,
            _ => true,
        }
    }
    /// Dropping a queued (not granted) acquisition has no scheduling point at all: taking it out of
    /// its slot and leaving the queue happen in one step. Dropping a *granted* one goes through
    /// `release`, which has a scheduling point before it gives the permits back.
    fn m_fused_continue(m: &SemM, t: usize, op: &SemOp) -> bool {
        match op {
            SemOp::Cancel => !m.granted.iter().any(|g| g.0 == t),
            SemOp::CancelShared => !m.granted.iter().any(|g| g.0 == SHARED),
            _ => false,
        }
    }
    fn m_forced_blocked(m: &SemM, t: usize) -> bool {
        m.forced.contains(&t)
    }
    fn m_on_finish(m: &mut SemM, t: usize) {
        if weak() && m.fair {
            m.finished.push(t);
            m.finished.sort();
        }
    }

    /// release -> the acquire it enables, in two implementation-independent forms (permits are
    /// fungible, which batch an acquisition is served from is not part of the contract):
    /// *necessity* — an acquisition that could not have completed without a release (counting every
    /// other release that had been called and only the acquisitions that had certainly completed
    /// before it started) has that release in its past.  Programs over acquire / try_acquire /
    /// release / available_permits only.
    fn hb_must(p: &Program<SemFam>, log: &[Entry<SemRes>]) -> Vec<(usize, usize)> {
        let Some((rels, acqs)) = Self::permit_events(p, log) else { return vec![] };
        let mut out = Vec::new();
        for &(a_call, a_ret, ak) in &acqs {
            for &(r_src, r_call, rk) in &rels {
                if r_call > a_ret {
                    continue;
                }
                let others: usize = rels.iter().filter(|r| r.1 != r_call && r.1 < a_ret).map(|r| r.2).sum();
                let taken: usize = acqs.iter().filter(|x| x.1 < a_call).map(|x| x.2).sum();
                // permits are fungible: the acquisitions completed earlier may have used up this
                // release's permits first, sparing the others' (false alarm corrected: the first
                // version charged all earlier acquisitions to the other releases)
                let spared = p.cfg.permits + others;
                let used_of_others = taken.saturating_sub(rk);
                if spared < used_of_others + ak {
                    if let Some(src) = r_src {
                        out.push((src, a_ret));
                    }
                }
            }
        }
        out
    }
    /// *conservation* — if by the end of the execution every permit (initial + released) has been
    /// taken again, every release is in the past of at least one acquisition that returned after the
    /// release was called.
    fn hb_must_reach(p: &Program<SemFam>, log: &[Entry<SemRes>]) -> Vec<(usize, Vec<usize>)> {
        let Some((rels, acqs)) = Self::permit_events(p, log) else { return vec![] };
        let released: usize = rels.iter().map(|r| r.2).sum();
        let taken: usize = acqs.iter().map(|a| a.2).sum();
        if p.cfg.permits + released != taken {
            return vec![];
        }
        rels.iter()
            .filter_map(|&(src, call, _)| src.map(|s| (s, acqs.iter().filter(|a| a.1 > call).map(|a| a.1).collect::<Vec<_>>())))
            .collect()
    }
    fn objects_of(op: &SemOp) -> Vec<u32> {
        match op {
            // the shared slot is guarded by a Shuttle atomic of the program's own
            SemOp::StartShared(_) | SemOp::AwaitShared | SemOp::CancelShared => vec![0x900, 0x901],
            _ => vec![0x900],
        }
    }
    fn m_init(cfg: &SemCfg, _n: usize) -> SemM {
        SemM {
            fair: cfg.fair,
            avail: cfg.permits,
            closed: false,
            queue: vec![],
            granted: vec![],
            live: vec![],
            held: 0,
            total: cfg.permits,
            owner: vec![],
            forced: vec![],
            finished: vec![],
            discarded: vec![],
        }
    }

    fn m_step(m: &SemM, t: usize, op: &SemOp, phase: u8, strict: bool) -> Vec<MStep<SemM, SemRes>> {
        let steps = Self::m_step_ref(m, t, op, phase, strict);
        if !weak() {
            return steps;
        }
        // weakened model: bookkeeping of who polled what, and the re-block / unblock effects
        steps
            .into_iter()
            .map(|st| match st {
                MStep::Done(mut n, r) => {
                    Self::weak_effects(m, &mut n, t, op, Some(&r));
                    MStep::Done(n, r)
                }
                MStep::Cont(mut n, ph) => {
                    Self::weak_effects(m, &mut n, t, op, None);
                    MStep::Cont(n, ph)
                }
                MStep::Spurious(mut n, r) => {
                    Self::weak_effects(m, &mut n, t, op, Some(&r));
                    MStep::Spurious(n, r)
                }
                p => p,
            })
            .collect()
    }
}

impl SemFam {
    fn weak_effects(before: &SemM, n: &mut SemM, t: usize, op: &SemOp, res: Option<&SemRes>) {
        // who polls: any op that polls a queued waiter makes `t` its owner
        let polled: Option<usize> = match op {
            SemOp::Acquire(_) => Some(100 + t),
            SemOp::Start(_) | SemOp::Poll | SemOp::Await => Some(t),
            SemOp::StartShared(_) | SemOp::AwaitShared => Some(SHARED),
            _ => None,
        };
        if let Some(id) = polled {
            n.owner.retain(|o| o.0 != id);
            if n.queue.iter().any(|q| q.0 == id) {
                n.owner.push((id, t));
            }
        }
        n.owner.retain(|o| n.queue.iter().any(|q| q.0 == o.0));
        if n.fair {
            return;
        }
        // a successful acquisition re-blocks the owners of queued requests that no longer fit
        let acquired = n.held > before.held;
        if acquired {
            for q in &n.queue {
                if q.1 > n.avail {
                    if let Some(o) = n.owner.iter().find(|o| o.0 == q.0) {
                        // (the acquiring task itself included: it is marked blocked and stops at
                        // its next scheduling point)
                        if !n.forced.contains(&o.1) {
                            n.forced.push(o.1);
                        }
                    }
                }
            }
        }
        // a release unblocks the owners of every queued request that now fits; close unblocks all
        match op {
            SemOp::Release(_) => {
                let fits: Vec<usize> = n.queue.iter().filter(|q| q.1 <= n.avail).filter_map(|q| n.owner.iter().find(|o| o.0 == q.0).map(|o| o.1)).collect();
                n.forced.retain(|f| !fits.contains(f));
            }
            SemOp::Close => {
                let owners: Vec<usize> = before.owner.iter().map(|o| o.1).collect();
                n.forced.retain(|f| !owners.contains(f));
            }
            _ => {}
        }
        n.forced.sort();
        let _ = res;
    }

    fn m_step_ref(m: &SemM, t: usize, op: &SemOp, phase: u8, _strict: bool) -> Vec<MStep<SemM, SemRes>> {
        let mut n = m.clone();
        assert!(n.ledger_ok(), "model ledger broken: {:?}", n);
        match op {
            SemOp::Acquire(k) => {
                // waiter id for blocking acquisitions: 100 + thread
                let id = 100 + t;
                if phase == 0 {
                    match SemFam::arrive(&mut n, id, *k) {
                        Some(r) => vec![MStep::Done(n, r)],
                        None => vec![MStep::Cont(n, 1)],
                    }
                } else {
                    match SemFam::complete(&mut n, id) {
                        Some(r) => vec![MStep::Done(n, r)],
                        None => vec![],
                    }
                }
            }
            SemOp::TryAcquire(k) => {
                if n.closed {
                    vec![MStep::Done(n, SemRes::Closed)]
                } else if (n.queue.is_empty() || !n.fair) && *k <= n.avail {
                    n.avail -= *k;
                    n.held += *k;
                    vec![MStep::Done(n, SemRes::Ok)]
                } else {
                    vec![MStep::Done(n, SemRes::NoPermits)]
                }
            }
            SemOp::Release(k) => {
                n.avail += *k;
                n.total += *k;
                // releasing does not say whose permits: the ledger counts them as added
                n.grant_from_front();
                vec![MStep::Done(n, SemRes::Unit)]
            }
            SemOp::Close => {
                // every queued (not yet granted) acquisition fails from now on; granted ones keep
                // what they were granted
                n.closed = true;
                n.queue.clear();
                vec![MStep::Done(n, SemRes::Unit)]
            }
            SemOp::Avail => {
                let a = n.avail;
                vec![MStep::Done(n, SemRes::Num(a))]
            }
            SemOp::IsClosed => {
                let c = n.closed;
                vec![MStep::Done(n, SemRes::Bool(c))]
            }
            SemOp::Start(k) | SemOp::StartShared(k) => {
                let id = if matches!(op, SemOp::Start(_)) { t } else { SHARED };
                match SemFam::arrive(&mut n, id, *k) {
                    Some(r) => vec![MStep::Done(n, r)],
                    None => {
                        n.live.push(id);
                        vec![MStep::Done(n, SemRes::Pending)]
                    }
                }
            }
            SemOp::Poll => {
                if !n.live.contains(&t) {
                    return vec![MStep::Done(n, SemRes::Nothing)];
                }
                match SemFam::complete(&mut n, t) {
                    Some(r) => {
                        n.live.retain(|x| *x != t);
                        vec![MStep::Done(n, r)]
                    }
                    None => vec![MStep::Done(n, SemRes::Pending)],
                }
            }
            SemOp::Await | SemOp::AwaitShared => {
                let id = if matches!(op, SemOp::Await) { t } else { SHARED };
                if phase == 0 {
                    if !n.live.contains(&id) {
                        return vec![MStep::Done(n, SemRes::Nothing)];
                    }
                    // taking the future out of its slot is immediate; completion may block
                    n.live.retain(|x| *x != id);
                    vec![MStep::Cont(n, 1)]
                } else {
                    match SemFam::complete(&mut n, id) {
                        Some(r) => vec![MStep::Done(n, r)],
                        None => vec![],
                    }
                }
            }
            SemOp::Cancel | SemOp::CancelShared => {
                let id = if matches!(op, SemOp::Cancel) { t } else { SHARED };
                if phase == 0 {
                    if !n.live.contains(&id) {
                        return vec![MStep::Done(n, SemRes::Nothing)];
                    }
                    // the future leaves its slot first; dropping a *granted* acquisition then gives
                    // the permits back through `release`, which has a scheduling point of its own
                    n.live.retain(|x| *x != id);
                    vec![MStep::Cont(n, 1)]
                } else {
                    SemFam::cancel(&mut n, id);
                    vec![MStep::Done(n, SemRes::Unit)]
                }
            }
        }
    }
}

// ---------------------------------------------------------------------------------------------

fn thread_seqs(k: usize, shared: bool) -> Vec<Vec<SemOp>> {
    // well-formed: Start … (Poll)* … Await|Cancel ; no pending own future at the end
    fn rec(k: usize, shared: bool, cur: &mut Vec<SemOp>, pending: bool, out: &mut Vec<Vec<SemOp>>) {
        if !cur.is_empty() && !pending {
            out.push(cur.clone());
        }
        if cur.len() == k {
            return;
        }
        let mut alpha: Vec<SemOp> = vec![
            SemOp::Acquire(1),
            SemOp::Acquire(2),
            SemOp::TryAcquire(1),
            SemOp::Release(1),
            SemOp::Release(2),
            SemOp::Close,
            SemOp::Avail,
        ];
        if pending {
            alpha.push(SemOp::Await);
            alpha.push(SemOp::Cancel);
            alpha.push(SemOp::Poll);
        } else {
            alpha.push(SemOp::Start(1));
            alpha.push(SemOp::Start(2));
        }
        if shared {
            alpha.push(SemOp::StartShared(1));
            alpha.push(SemOp::AwaitShared);
            alpha.push(SemOp::CancelShared);
        }
        for a in alpha {
            // Start may complete at once; then Await/Cancel/Poll return Nothing — still well-formed
            let p2 = match a {
                SemOp::Start(_) => true,
                SemOp::Await | SemOp::Cancel => false,
                _ => pending,
            };
            cur.push(a);
            rec(k, shared, cur, p2, out);
            cur.pop();
        }
    }
    let mut out = Vec::new();
    rec(k, shared, &mut Vec::new(), false, &mut out);
    out
}

impl SemFam {
    /// (releases: (releaser's last clocked event before the call, index of the call, permits),
    ///  completed acquisitions: (index of the call, index of the return, permits)); None if the
    /// program uses anything whose permit flow is not this simple (futures, cancellation, close).
    #[allow(clippy::type_complexity)]
    fn permit_events(p: &Program<SemFam>, log: &[Entry<SemRes>]) -> Option<(Vec<(Option<usize>, usize, usize)>, Vec<(usize, usize, usize)>)> {
        if !p.threads.iter().flatten().all(|o| matches!(o, GOp::Op(SemOp::Acquire(_) | SemOp::TryAcquire(_) | SemOp::Release(_) | SemOp::Avail) | GOp::Spawn(_) | GOp::Join(_))) {
            return None;
        }
        let mut rels = Vec::new();
        let mut acqs = Vec::new();
        for (i, e) in log.iter().enumerate() {
            if e.op >= p.threads[e.thread].len() {
                continue; // End entry
            }
            match (&e.kind, &p.threads[e.thread][e.op]) {
                // source of the edge: the releaser's clock when `release` returns (the clock stored
                // with the permits is taken inside the call, nothing advances it afterwards)
                (EKind::Call, GOp::Op(SemOp::Release(k))) => {
                    let ret = log.iter().position(|x| x.thread == e.thread && x.op == e.op && matches!(x.kind, EKind::Ret(_)));
                    rels.push((ret.or_else(|| prev_clocked(log, i, e.thread)), i, *k))
                }
                (EKind::Ret(GRes::R(SemRes::Ok)), GOp::Op(SemOp::Acquire(k) | SemOp::TryAcquire(k))) => {
                    let call = call_of(log, e.thread, e.op)?;
                    acqs.push((call, i, *k));
                }
                _ => {}
            }
        }
        Some((rels, acqs))
    }
}

/// Releases from unrelated tasks feeding acquisitions of several permits (C15: which release is in
/// whose past).
fn clock_programs() -> Vec<Program<SemFam>> {
    use SemOp::*;
    let mut out = Vec::new();
    for fair in [true, false] {
        for permits in [0, 1] {
            let cfg = SemCfg { permits, fair };
            let groups: Vec<Vec<Vec<SemOp>>> = vec![
                vec![vec![Release(1)], vec![Release(2)], vec![Acquire(2), Acquire(1)]],
                vec![vec![Release(1)], vec![Release(2)], vec![Acquire(2)], vec![Acquire(1)]],
                vec![vec![Release(1)], vec![Release(1)], vec![Acquire(2)]],
                vec![vec![Release(2)], vec![Release(2)], vec![Acquire(3), Acquire(1)]],
                vec![vec![Release(1), Release(1)], vec![Release(1)], vec![Acquire(2), TryAcquire(1)]],
                vec![vec![Release(2)], vec![Release(1)], vec![Acquire(1), Acquire(2)]],
            ];
            for ch in groups {
                // with an initial permit the acquirers take one more
                let mut ch = ch;
                if permits == 1 {
                    ch.last_mut().unwrap().push(Acquire(1));
                }
                out.push(Program::fork_join(cfg.clone(), vec![], ch));
            }
        }
    }
    out
}

pub fn program_set(set: &str) -> Vec<Program<SemFam>> {
    if set == "highids" {
        // every k-th program of the quick set with its threads moved to task ids above 16
        let base = program_set("quick");
        let k = (base.len() / 30).max(1);
        return base.iter().enumerate().filter(|(i, p)| i % k == 0 && p.threads.len() <= 4 && p.size() <= 9).map(|(_, p)| with_high_ids(p, 16)).collect();
    }
    if set == "clocks" {
        return clock_programs();
    }
    let thorough = set == "thorough";
    let mut out = Vec::new();
    let s2 = thread_seqs(2, false);
    let s3 = thread_seqs(3, false);
    let sh2: Vec<Vec<SemOp>> = thread_seqs(2, true)
        .into_iter()
        .filter(|s| s.iter().any(|o| matches!(o, SemOp::StartShared(_) | SemOp::AwaitShared | SemOp::CancelShared)))
        .collect();
    // quick: a reduced alphabet for the pair programs (batch size 2 only on one side)
    let small = |s: &Vec<SemOp>| s.iter().all(|o| !matches!(o, SemOp::Acquire(2) | SemOp::Release(2) | SemOp::Avail | SemOp::Poll));
    for fair in [true, false] {
        for permits in if thorough { vec![0, 1, 2, 3] } else { vec![0, 1] } {
            let cfg = SemCfg { permits, fair };
            // two children, ≤2 ops each, main releases/observes
            for idx in nondecreasing_tuples(s2.len(), 2) {
                let ch: Vec<Vec<SemOp>> = idx.iter().map(|&i| s2[i].clone()).collect();
                if !thorough && !(small(&ch[0]) || small(&ch[1])) {
                    continue;
                }
                // forced interaction: at least one acquiring op somewhere
                let acq = ch.iter().flatten().any(|o| matches!(o, SemOp::Acquire(_) | SemOp::Start(_) | SemOp::TryAcquire(_)));
                if !acq {
                    continue;
                }
                let mains: Vec<Vec<SemOp>> = if thorough {
                    vec![vec![], vec![SemOp::Release(1)], vec![SemOp::Release(2)], vec![SemOp::Close]]
                } else if permits == 0 {
                    vec![vec![SemOp::Release(1)], vec![SemOp::Close]]
                } else {
                    vec![vec![]]
                };
                for ms in mains {
                    out.push(Program::fork_join(cfg.clone(), ms, ch.clone()));
                }
            }
            // one child with 3 ops against main releasing
            if thorough {
                for c in &s3 {
                    if c.len() < 3 {
                        continue;
                    }
                    for ms in [vec![SemOp::Release(1)], vec![SemOp::Release(1), SemOp::Release(1)], vec![SemOp::Close]] {
                        out.push(Program::fork_join(cfg.clone(), ms, vec![c.clone()]));
                    }
                }
            }
            // futures handed from one task to another
            if permits <= 1 {
                for a in &sh2 {
                    for b in &sh2 {
                        // the shared slot holds one future at a time
                        let starts = a.iter().chain(b.iter()).filter(|o| matches!(o, SemOp::StartShared(_))).count();
                        if starts != 1 {
                            continue;
                        }
                        if !thorough && !(small(a) && small(b)) {
                            continue;
                        }
                        for ms in [vec![], vec![SemOp::Release(1)]] {
                            out.push(Program::fork_join(cfg.clone(), ms, vec![a.clone(), b.clone()]));
                        }
                    }
                }
            }
            // three acquirers (queue order)
            let acq3: Vec<Vec<SemOp>> = vec![
                vec![SemOp::Acquire(1)],
                vec![SemOp::Acquire(2)],
                vec![SemOp::Acquire(1), SemOp::Release(1)],
                vec![SemOp::Start(2), SemOp::Cancel],
                vec![SemOp::Start(1), SemOp::Await],
                vec![SemOp::TryAcquire(1)],
            ];
            for idx in nondecreasing_tuples(acq3.len(), 3) {
                for ms in [vec![SemOp::Release(1)], vec![SemOp::Release(2)], vec![SemOp::Release(1), SemOp::Release(1)]] {
                    if !thorough && permits > 0 {
                        continue;
                    }
                    let ch: Vec<Vec<SemOp>> = idx.iter().map(|&i| acq3[i].clone()).collect();
                    out.push(Program::fork_join(cfg.clone(), ms, ch));
                }
            }
            // a queued request cancelled while others are queued behind it: the canceller needs a
            // scheduling point between joining the queue and leaving it (dropping an `Acquire` has
            // none of its own, so `Start; Cancel` is one indivisible step) — another operation of the canceller in between provides it
            // (seed C18-cancel-swap-removes-fair-waiter was unreachable in every program without it)
            if permits <= 1 {
                let others: Vec<Vec<SemOp>> = vec![vec![SemOp::Acquire(1)], vec![SemOp::Acquire(2)], vec![SemOp::Start(1), SemOp::Await], vec![SemOp::Acquire(1), SemOp::Release(1)]];
                // (re-polling a queued request has no scheduling point either; `try_acquire` has one)
                for canc in [vec![SemOp::Start(2), SemOp::TryAcquire(1), SemOp::Cancel], vec![SemOp::Start(1), SemOp::TryAcquire(1), SemOp::Cancel]] {
                    for idx in nondecreasing_tuples(others.len(), 2) {
                        let mains: Vec<Vec<SemOp>> = if thorough {
                            vec![vec![SemOp::Release(1)], vec![SemOp::Release(2)], vec![SemOp::Release(1), SemOp::Release(1)], vec![]]
                        } else {
                            vec![vec![SemOp::Release(1)]]
                        };
                        for ms in mains {
                            out.push(Program::fork_join(cfg.clone(), ms, vec![canc.clone(), others[idx[0]].clone(), others[idx[1]].clone()]));
                        }
                    }
                }
            }
        }
    }
    out.sort_by_key(|p| p.size());
    out
}
