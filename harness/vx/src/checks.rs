//! Property checks: which engines run over which spaces, and how their observations become findings.

use crate::common::*;
use crate::drive::*;
use serde_json::json;

pub fn registry() -> Vec<Box<dyn FamilyDyn>> {
    vec![
        Box::new(FamRunner::new(crate::fam_lock::program_set)),
        Box::new(FamRunner::new(crate::fam_atomic::program_set)),
        Box::new(FamRunner::new(crate::fam_sync::program_set)),
        Box::new(FamRunner::new(crate::fam_mpsc::program_set)),
        Box::new(FamRunner::new(crate::fam_thread::program_set)),
        Box::new(FamRunner::new(crate::fam_sem::program_set)),
        Box::new(FamRunner::new(crate::fam_async::program_set)),
        Box::new(FamRunner::new(crate::fam_rand::program_set)),
        Box::new(FamRunner::new(crate::fam_iso::program_set)),
    ]
}

pub fn family(name: &str) -> Box<dyn FamilyDyn> {
    registry()
        .into_iter()
        .find(|f| f.name() == name)
        .unwrap_or_else(|| {
            eprintln!("MACHINERY-ERROR: unknown family {}", name);
            std::process::exit(2)
        })
}

pub fn nshards() -> usize {
    std::thread::available_parallelism().map(|n| n.get()).unwrap_or(8).min(16)
}

pub fn kind_name(k: &VKind) -> String {
    match k {
        VKind::Other(s) => s.clone(),
        k => format!("{:?}", k),
    }
}

/// Run E2 over (family, set, mode) items and fold the results into `res`.
/// Violations whose kind is in `wanted` become findings of this property; the others are counted
/// (they belong to another property's check, which runs the same engine).
pub fn run_e2(ctx: &CheckCtx, res: &mut CheckResult, items: &[(&str, &str, Mode)], wanted: &[VKind], deadline_s: f64) {
    run_e2_with(ctx, res, items, wanted, deadline_s, &family)
}

/// Same, with the family registry of the calling binary (worker processes are re-executions of the
/// current executable, which must answer the `worker` sub-command with the same registry).
pub fn run_e2_with(
    ctx: &CheckCtx,
    res: &mut CheckResult,
    items: &[(&str, &str, Mode)],
    wanted: &[VKind],
    deadline_s: f64,
    registry: &dyn Fn(&str) -> Box<dyn FamilyDyn>,
) {
    let mut fams = Vec::new();
    let t0 = std::time::Instant::now();
    for (fname, set, mode) in items {
        // debugging aid: VX_ONLY_FAMILY=<name>[:<set>] restricts a check to one family (set)
        if let Ok(only) = std::env::var("VX_ONLY_FAMILY") {
            let mut it = only.split(':');
            if it.next() != Some(*fname) || it.next().map(|s| s != *set).unwrap_or(false) {
                continue;
            }
        }
        let fam = registry(fname);
        let left = deadline_s - t0.elapsed().as_secs_f64();
        let agg = run_family(fam.as_ref(), set, mode, nshards(), left.max(1.0));
        res.add_count("programs", agg.programs_run as u64);
        res.add_count("evaluations", agg.executions);
        res.add_count("distinct_nontrivial", agg.programs_nontrivial as u64);
        res.add_count("states", agg.model_states);
        res.add_count("transitions", agg.model_transitions);
        res.add_count("traces_validated_against_impl", agg.traces_validated);
        res.add_count("scheduling_decisions", agg.decisions);
        res.add_count("programs_full_tree", agg.programs_full_tree as u64);
        res.add_count("programs_capped", agg.capped_programs as u64);
        res.add_count("programs_skipped_deadline", agg.skipped_deadline as u64);
        for s in &agg.samples {
            res.sample(s.clone());
        }
        for e in &agg.machinery_errors {
            res.machinery_errors.push(format!("{}:{}: {}", fname, set, e));
        }
        let mut other = 0u64;
        // Missing-outcome violations: keep only those with a minimal op-kind set
        let missing_sets: Vec<Vec<String>> = agg
            .violations
            .iter()
            .filter(|v| v.kind == VKind::Missing)
            .map(|v| v.op_kinds.clone())
            .collect();
        for v in &agg.violations {
            if let VKind::Known(name) = &v.kind {
                // always reported (as a finding keyed by the recorded finding's name)
                for one in name.split('+') {
                    res.finding(
                        format!("{}/known/{}", v.family, one),
                        format!("{} — program #{} {}", v.what, v.program_idx, v.program),
                        json!({"engine": "e2", "family": v.family, "set": set, "idx": v.program_idx, "program": v.program, "alts": v.alts}),
                    );
                }
                continue;
            }
            if !wanted.contains(&v.kind) {
                other += 1;
                continue;
            }
            if v.kind == VKind::Missing {
                let strictly_smaller_exists = missing_sets
                    .iter()
                    .any(|s| s.len() < v.op_kinds.len() && s.iter().all(|k| v.op_kinds.contains(k)));
                if strictly_smaller_exists {
                    continue;
                }
            }
            let key = format!("{}/{}/{}", v.family, kind_name(&v.kind), v.culprit);
            res.finding(
                key,
                format!("{} — program #{} {}", v.what, v.program_idx, v.program),
                json!({"engine": "e2", "family": v.family, "set": set, "idx": v.program_idx, "program": v.program, "alts": v.alts}),
            );
        }
        let mut j = agg.to_json();
        j["violations_of_other_properties_seen"] = json!(other);
        j["mode"] = serde_json::to_value(mode).unwrap();
        fams.push(j);
    }
    let e = res.coverage.entry("families".to_string()).or_insert_with(|| json!([]));
    e.as_array_mut().unwrap().extend(fams);
    let full = res.coverage.get("programs_capped").and_then(|v| v.as_u64()).unwrap_or(0) == 0
        && res.coverage.get("programs_skipped_deadline").and_then(|v| v.as_u64()).unwrap_or(0) == 0;
    res.cov("exhaustive", full);
    let _ = ctx;
}

pub fn e2_rule() -> &'static str {
    "programs = all well-formed programs of the stated size over the family's alphabet (generated, modulo thread symmetry, simplest first); evaluations = implementation executions = every leaf of the choice tree the runtime exposes to the explorer-scheduler; a program is non-trivial iff its executions produce >= 2 distinct outcomes (per-thread results + ending); states/transitions = explicit-state BFS of the reference model of each program; traces_validated = implementation executions co-simulated step by step on the model without rejection"
}

pub fn c04(ctx: &CheckCtx) -> CheckResult {
    let mut res = CheckResult::new("model_checking");
    let set = if ctx.tier.is_thorough() { "thorough" } else { "quick" };
    let mode = Mode {
        complete: false,
        ..Mode::default()
    };
    run_e2(
        ctx,
        &mut res,
        &[
            ("lock", set, mode.clone()),
            ("lock", "poison", mode.clone()),
            ("atomic", set, Mode { complete: true, ..mode.clone() }),
            // every entry point of the integer / bool / pointer atomics raced on one variable
            ("atomic", if ctx.tier.is_thorough() { "rmw3" } else { "rmw" }, Mode { complete: true, ..mode.clone() }),
            // the same kinds of programs with task ids above the runtime's inline capacity of 16
            ("lock", "highids", mode.clone()),
            ("atomic", "highids", mode),
        ],
        // atomics: the total-order claim has both directions — every execution is explained by the
        // log order (Sound) and every SC interleaving's outcome is produced (Missing)
        &[VKind::Sound, VKind::Enabled, VKind::Ending, VKind::Abort, VKind::Missing],
        if ctx.tier.is_thorough() { 1500.0 } else { 50.0 },
    );
    atomic_differential(ctx, &mut res);
    res.cov("rule", e2_rule());
    res.assumptions.push("small-scope: programs up to the stated size only".into());
    res.assumptions.push("reference model written from std's documented lock contract (Appendix A of DESIGN.md)".into());
    res
}

pub fn c05(ctx: &CheckCtx) -> CheckResult {
    let mut res = CheckResult::new("model_checking");
    let set = if ctx.tier.is_thorough() { "thorough" } else { "quick" };
    let mode = Mode {
        complete: false,
        ..Mode::default()
    };
    let bounded = Mode {
        complete: false,
        preemption_bound: Some(if ctx.tier.is_thorough() { 3 } else { 2 }),
        max_execs: 400_000,
        ..Mode::default()
    };
    run_e2(
        ctx,
        &mut res,
        &[
            ("sync", set, mode.clone()),
            ("sync", if ctx.tier.is_thorough() { "bounded-big" } else { "bounded" }, bounded),
            // the same programs through wait_timeout(_while) / park_timeout / call_once_force
            ("sync", if ctx.tier.is_thorough() { "thorough-alt" } else { "quick-alt" }, mode.clone()),
            // park / unpark around blocking channel operations
            ("mpsc", "mix", mode.clone()),
            // a Once whose first initialiser panicked: call_once / call_once_force racing on it
            ("sync", "once-poison", mode),
        ],
        &[VKind::Sound, VKind::Enabled, VKind::Ending, VKind::Abort],
        if ctx.tier.is_thorough() { 1500.0 } else { 50.0 },
    );
    res.cov("preemption_bound_completed_on_bounded_set", if ctx.tier.is_thorough() { 3 } else { 2 });
    res.cov("rule", format!("{}; the `bounded` set (3-4 condvar waiters with racing notifiers, reused 3-4 party barriers, 4 racing call_once) is explored with ALL schedules of at most b preemptions (b = 2 quick, 3 thorough): trace conformance only, it counts as not full-tree", e2_rule()));
    res.assumptions.push("small-scope: programs up to the stated size only".into());
    res.assumptions.push("reference models of Condvar/Barrier/Once/park written from std's documented contracts (Appendix A of DESIGN.md); no spurious condvar wake-ups, as the property states".into());
    res
}

/// Generic "trace conformance of one or more families" check.
pub fn conformance(ctx: &CheckCtx, fams: &[&str], assumptions: &[&str]) -> CheckResult {
    let mut res = CheckResult::new("model_checking");
    let set = if ctx.tier.is_thorough() { "thorough" } else { "quick" };
    let mode = Mode {
        complete: false,
        ..Mode::default()
    };
    let mut items: Vec<(&str, &str, Mode)> = fams.iter().map(|f| (*f, set, mode.clone())).collect();
    // the alias entry points (recv_timeout / iter, wait_timeout(_while), park_timeout, call_once_force)
    for f in fams {
        if matches!(*f, "sync" | "mpsc" | "async") {
            items.push((*f, if ctx.tier.is_thorough() { "thorough-alt" } else { "quick-alt" }, mode.clone()));
        }
        // channel operations mixed with park / unpark
        if *f == "mpsc" {
            items.push((*f, "mix", mode.clone()));
        }
        // JoinHandles polled by one task and awaited by another
        if *f == "async" {
            items.push((*f, "handover", mode.clone()));
        }
        // task ids above the runtime's inline capacity of 16
        if *f == "sem" {
            items.push((*f, "highids", mode.clone()));
        }
    }
    // larger programs (the thorough set), all schedules with at most b preemptions: conformance only
    let b = if ctx.tier.is_thorough() { 3 } else { 2 };
    for f in fams {
        let n = family(f).len("thorough");
        let want = if ctx.tier.is_thorough() { 4000 } else { 400 };
        items.push((
            *f,
            "thorough",
            Mode {
                complete: false,
                preemption_bound: Some(b),
                stride: (n / want).max(1),
                max_execs: 100_000,
                ..Mode::default()
            },
        ));
    }
    run_e2(
        ctx,
        &mut res,
        &items,
        &[VKind::Sound, VKind::Enabled, VKind::Ending, VKind::Abort],
        if ctx.tier.is_thorough() { 1500.0 } else { 50.0 },
    );
    res.cov("preemption_bound_completed_on_bounded_pass", b);
    res.cov("rule", format!("{}; second pass: every k-th program of the larger `thorough` program set explored with ALL schedules of at most b preemptions (b = 2 quick, 3 thorough) — trace conformance only, counted as not full-tree", e2_rule()));
    res.assumptions.push("small-scope: programs up to the stated size only".into());
    for a in assumptions {
        res.assumptions.push(a.to_string());
    }
    res
}

const ALL_FAMILIES: [&str; 7] = ["lock", "atomic", "sync", "mpsc", "thread", "sem", "async"];

/// C02: completeness — every outcome of the strict sequentially consistent model is produced by
/// some schedule. Full trees only.
pub fn c02(ctx: &CheckCtx) -> CheckResult {
    let mut res = CheckResult::new("model_checking");
    let set = if ctx.tier.is_thorough() { "thorough" } else { "quick" };
    let mode = Mode {
        sound: false,
        complete: true,
        max_programs: if ctx.tier.is_thorough() { usize::MAX } else { 700 },
        ..Mode::default()
    };
    let mut items: Vec<(&str, &str, Mode)> = ALL_FAMILIES.iter().map(|f| (*f, set, mode.clone())).collect();
    // park / unpark with every other party blocked (no spurious wake-up can mask a lost order)
    items.push(("sync", "gated", Mode { max_programs: usize::MAX, ..mode.clone() }));
    // every entry point of the atomics (also judged by C04)
    items.push(("atomic", "rmw", Mode { max_programs: usize::MAX, ..mode.clone() }));
    if !ctx.tier.is_thorough() {
        // beyond the simplest 700: every k-th program of the rest of each family's set, judged when
        // its tree is fully explored within the execution cap
        for f in ALL_FAMILIES {
            let n = family(f).len(set);
            if n > 700 {
                items.push((f, set, Mode { max_programs: usize::MAX, stride: ((n - 700) / 120).max(1), skip_first: 700, max_execs: 20_000, ..mode.clone() }));
            }
        }
    }
    run_e2(ctx, &mut res, &items, &[VKind::Missing, VKind::Abort], if ctx.tier.is_thorough() { 1500.0 } else { 50.0 });
    res.cov("rule", format!("{}; C02 oracle: outcome set of the strict model (BFS over all interleavings of visible operations) must be contained in the set of outcomes over all schedules; evaluated only on fully explored trees; quick tier = the first 700 programs (simplest first) of every family", e2_rule()));
    res.assumptions.push("the reference model interleaves at operation granularity and knows nothing about where Shuttle places scheduling points".into());
    res.assumptions.push("known findings F4/F5 (operations without a scheduling point) are recognised by re-running the inclusion against a model that fuses exactly those operations with their predecessor".into());
    res
}

/// C01: every execution is determined by its recorded schedule and replays identically from the
/// printed string.
pub fn c01(ctx: &CheckCtx) -> CheckResult {
    let mut res = CheckResult::new("exploration");
    let set = if ctx.tier.is_thorough() { "thorough" } else { "quick" };
    let mut items: Vec<(&str, &str, Mode)> = Vec::new();
    let seeds: Vec<u64> = if ctx.tier.is_thorough() { vec![0, 1, 0xdead_beef] } else { vec![ctx.seed] };
    for seed in seeds {
        let mode = Mode {
            replay_check: true,
            seed,
            max_execs: 50_000,
            ..Mode::default()
        };
        items.push(("rand", "quick", mode.clone()));
        let want = if ctx.tier.is_thorough() { 3000 } else { 250 };
        for f in ALL_FAMILIES {
            let n = family(f).len(set);
            items.push((f, set, Mode { stride: (n / want).max(1), ..mode.clone() }));
        }
    }
    run_e2(
        ctx,
        &mut res,
        &items,
        &[VKind::Other("Replay".into()), VKind::Abort],
        if ctx.tier.is_thorough() { 1500.0 } else { 50.0 },
    );
    res.cov("rule", "programs = generated programs of the 7 primitive families plus a shuttle::rand family (every k-th program of each family's set, about 250 per family in the quick tier); evaluations = every execution of each program's complete choice tree under the explorer-scheduler, whose data draws come from the seeded stream a built-in scheduler would use; for each execution: (1) the schedule recorded by the runtime (CurrentSchedule) must equal the independently reconstructed sequence of answered scheduler calls, (2) its printed form is handed to ReplayScheduler::new_from_encoded under a recording wrapper and must reproduce every scheduler call (offered ids, current, yielding, chosen), every draw, every log entry of the body (results of all operations) and the same ending (pass / same panic / same deadlock report); (3) the same tree is explored again under UncontrolledNondeterminismCheckScheduler, which must never complain; distinct_nontrivial = programs with >= 2 distinct (log, ending) outcomes; 'traces_validated' = executions replayed identically");
    res.assumptions.push("replay of random / PCT / URW / DFS / round-robin built-in schedulers over the seed interval is part of C09-C11 (same seed => same run; reported seed reproduces the iteration)".into());
    res
}

/// C14: executions are isolated — B after any predecessor A behaves exactly like B alone.
pub fn c14(ctx: &CheckCtx) -> CheckResult {
    let mut res = CheckResult::new("exploration");
    let mode = Mode {
        iso_check: true,
        iso_max_b: if ctx.tier.is_thorough() { 200 } else { 24 },
        max_execs: if ctx.tier.is_thorough() { 3000 } else { 400 },
        ..Mode::default()
    };
    run_e2(
        ctx,
        &mut res,
        &[("iso", "quick", mode)],
        &[VKind::Other("Isolation".into()), VKind::Abort],
        if ctx.tier.is_thorough() { 1500.0 } else { 50.0 },
    );
    // in this mode `scheduling_decisions` counts pair runs and `traces_validated` the B executions
    // whose log was identical after A and alone
    if let Some(v) = res.coverage.remove("scheduling_decisions") {
        res.coverage.insert("pair_runs(A then B in one Runner::run)".into(), v.clone());
        res.coverage.insert("evaluations".into(), v);
    }
    res.cov("rule", "bodies use thread_local! (Cell counter and a drop-counted value), lazy_static! (drop-counted), a static Once, task labels, vector clocks, context_switches(), the recorded schedule length, drop-counted values on task stacks, a mutex and yields; for each body ALL complete schedules are enumerated by the explorer; predecessors A = every complete schedule and every proper prefix of one, stopped there by the scheduler answering None; successors B = complete schedules (quick: 6 evenly spread, thorough: all); each (A,B) is run as two executions of ONE Runner::run and B's full observation log + drop ledger is compared with B run alone in a fresh Runner::run; distinct_nontrivial = distinct (kind of predecessor, its length) classes");
    res.assumptions.push("ContinueAfter cuts are covered by C13 (same teardown path as a scheduler stop)".into());
    res
}

/// C15: vector clocks = happens-before.
pub fn c15(ctx: &CheckCtx) -> CheckResult {
    let mut res = CheckResult::new("exploration");
    let set = if ctx.tier.is_thorough() { "thorough" } else { "quick" };
    let want = if ctx.tier.is_thorough() { 6000 } else { 450 };
    let items: Vec<(&str, &str, Mode)> = ["lock", "atomic", "sync", "mpsc", "thread", "sem", "async"]
        .iter()
        .map(|f| {
            let n = family(f).len(set);
            (
                *f,
                set,
                Mode {
                    clock_check: true,
                    clock_all_targets: false,
                    // every k-th program (the sets are sorted simplest first): all sizes are sampled
                    stride: (n / want).max(1),
                    max_execs: 50_000,
                    ..Mode::default()
                },
            )
        })
        .collect();
    let mut items = items;
    // releases of unrelated tasks feeding acquisitions of several permits
    items.push(("sem", "clocks", Mode { clock_check: true, clock_all_targets: false, max_execs: 50_000, ..Mode::default() }));
    // vector clocks longer than the inline capacity of 16 entries
    for f in ["lock", "atomic", "sem"] {
        items.push((f, "highids", Mode { clock_check: true, clock_all_targets: false, max_execs: 20_000, ..Mode::default() }));
    }
    run_e2(ctx, &mut res, &items, &[VKind::Other("Clock".into()), VKind::Abort], if ctx.tier.is_thorough() { 1500.0 } else { 50.0 });
    if let Some(v) = res.coverage.remove("scheduling_decisions") {
        res.coverage.insert("must_edges_checked".into(), v);
    }
    res.cov("rule", "every execution of the complete choice tree of the generated programs (every k-th program of each family's set, about 450 per family in the quick tier) with shuttle::current::clock() sampled after every operation; HB_must = program order + spawn->child start + child end->join + per-primitive API-level rules (unlock->later lock, write-unlock->later read/write lock, read-unlock->later write lock, atomic write->later read/RMW of the variable, send->its receive, k-th receive->(k+c)-th send on a bounded channel, notify_all->the waits it released, barrier: before-arrival->every departure of the generation, winning call_once->later call_once, flag store->later flag load): the later clock must dominate the earlier one; HB_may = closure of program order, spawn/join and 'any two operations on a common object, earlier->later': two tasks that have each advanced their own clock component may only be clock-ordered if such a chain exists; per-task clocks never decrease; target-clock replay: ReplayScheduler restricted to the clock of main's last operation must not fail and must reproduce every operation in the HB_must-past of the target with the same result; traces_validated = target-clock replays");
    res.assumptions.push("documented over-approximations (waiter clock frozen at enqueue, last_acquire on failed tries) only add edges, hence the two-relation form".into());
    res
}

/// C03: endings — deadlock reported iff the model is stuck with an unfinished attached task, with
/// exactly the unfinished tasks; otherwise a normal ending.
pub fn c03(ctx: &CheckCtx) -> CheckResult {
    let mut res = CheckResult::new("model_checking");
    let set = if ctx.tier.is_thorough() { "thorough" } else { "quick" };
    let mode = Mode {
        complete: false,
        max_programs: if ctx.tier.is_thorough() { usize::MAX } else { 700 },
        ..Mode::default()
    };
    let mut items: Vec<(&str, &str, Mode)> = ALL_FAMILIES.iter().map(|f| (*f, set, mode.clone())).collect();
    // ending-oriented programs beyond the simplest 700: parked threads together with detached tasks,
    // detached tasks left running, never-woken futures
    items.push(("async", "endings", Mode { complete: false, ..Mode::default() }));
    run_e2(ctx, &mut res, &items, &[VKind::Ending, VKind::Enabled, VKind::Abort], if ctx.tier.is_thorough() { 1500.0 } else { 50.0 });
    // anti-vacuity: how many executions ended in a deadlock report
    res.cov("rule", format!("{}; C03 oracle restricted to the ending of every execution: the deadlock report (with exactly these task ids, detached ones included) must be an ending of some model state consistent with the whole log in which no task can progress (spurious wake-ups not counted) and an attached task is unfinished; a normal ending requires every attached task finished; horizon 20000 steps (a hang would surface as a step-bound failure)", e2_rule()));
    res.assumptions.push("endings are judged only for executions whose steps the model accepts up to the end (a primitive-level mismatch is reported by that primitive's property)".into());
    res
}

/// C08: the Scheduler contract at every decision of every execution, incl. scheduler-requested stops.
pub fn c08(ctx: &CheckCtx) -> CheckResult {
    let mut res = CheckResult::new("exploration");
    let set = if ctx.tier.is_thorough() { "thorough" } else { "quick" };
    let mode = Mode {
        complete: false,
        max_programs: if ctx.tier.is_thorough() { usize::MAX } else { 500 },
        ..Mode::default()
    };
    let stop_mode = Mode {
        complete: false,
        stop_children: true,
        max_programs: if ctx.tier.is_thorough() { 1500 } else { 150 },
        ..Mode::default()
    };
    let mut items: Vec<(&str, &str, Mode)> = ALL_FAMILIES.iter().map(|f| (*f, set, mode.clone())).collect();
    for f in ALL_FAMILIES {
        items.push((f, set, stop_mode.clone()));
    }
    run_e2(
        ctx,
        &mut res,
        &items,
        &[VKind::Contract, VKind::Enabled, VKind::Abort, VKind::Ending],
        if ctx.tier.is_thorough() { 1500.0 } else { 50.0 },
    );
    wrapper_transparency(ctx, &mut res);
    res.cov("rule", format!("{}; C08 oracle at EVERY decision: runnable list non-empty, strictly ascending ids, only runnable or spuriously-wakeable tasks, contains every task the (strict) model can run, current_task = the task chosen at the previous decision (None at the first), is_yielding exactly after an explicit yield request, only the chosen task's code runs between decisions (log entries stamped with the decision counter); second pass: the explorer additionally answers None at every decision of every execution — the run must continue without failure; non-trivial = programs with >= 2 outcomes", e2_rule()));
    res.assumptions.push("'every task able to run' is decided against the reference models (strict variants)".into());
    res
}

/// Transparent wrappers: the explorer sees the same tree with and without the wrapper around it.
fn wrapper_transparency(ctx: &CheckCtx, res: &mut CheckResult) {
    // bodies are sharded over child processes (each explores plain tree + one tree per wrapper)
    let per_family = if ctx.tier.is_thorough() { 12 } else { 3 };
    let n = nshards();
    let children: Vec<_> = (0..n)
        .map(|k| {
            std::process::Command::new("/proc/self/exe")
                .args(["wrappers", &per_family.to_string(), &k.to_string(), &n.to_string()])
                .stdout(std::process::Stdio::piped())
                .stderr(std::process::Stdio::null())
                .spawn()
        })
        .collect();
    let mut cases = Vec::new();
    for c in children {
        let out = match c {
            Ok(c) => c.wait_with_output(),
            Err(e) => {
                res.machinery_errors.push(format!("cannot spawn wrappers child: {}", e));
                continue;
            }
        };
        match out {
            Ok(o) if o.status.success() => {
                let txt = String::from_utf8_lossy(&o.stdout);
                match txt.lines().last().and_then(|l| serde_json::from_str::<serde_json::Value>(l).ok()) {
                    Some(v) => {
                        cases.extend(v["cases"].as_array().cloned().unwrap_or_default());
                        for m in v["mismatches"].as_array().cloned().unwrap_or_default() {
                            res.finding(
                                format!("wrapper/{}", m["wrapper"].as_str().unwrap_or("?")),
                                format!("scheduler wrapper is not transparent: {}", m),
                                json!({"engine": "wrappers", "case": m}),
                            );
                        }
                    }
                    None => res.machinery_errors.push("wrappers child produced no report".into()),
                }
            }
            Ok(o) => res.machinery_errors.push(format!("wrappers child failed: {:?}", o.status)),
            Err(e) => res.machinery_errors.push(format!("wrappers child: {}", e)),
        }
    }
    let execs: u64 = cases.iter().map(|c| c["executions_wrapped"].as_u64().unwrap_or(0)).sum();
    res.cov(
        "wrapper_transparency",
        json!({"bodies_x_wrappers": cases.len(), "executions_under_wrappers": execs, "wrappers": ["MetricsScheduler", "UncontrolledNondeterminismCheckScheduler", "AnnotationScheduler", "PortfolioRunner's stop wrapper"], "sample": cases.iter().take(8).collect::<Vec<_>>()}),
    );
}

pub fn run_check(id: &str, tier: Tier) -> ! {
    let ctx = CheckCtx::new(id, tier);
    let res = match id {
        "C01" => c01(&ctx),
        "C02" => c02(&ctx),
        "C14" => c14(&ctx),
        "C15" => c15(&ctx),
        "C03" => c03(&ctx),
        "C08" => c08(&ctx),
        "C04" => c04(&ctx),
        "C05" => c05(&ctx),
        "C07" => conformance(&ctx, &["thread"], &["thread-local life cycle is judged by a monitor over logged init/drop events (expected sequence computed from the program: lazy init on first use, destruction in initialisation order, a destructor touching a destroyed key sees AccessError, a key first touched during destruction is initialised then and destroyed later)"]),
        "C18" => conformance(&ctx, &["sem"], &["reference model: counter + FIFO queue with grant-in-the-releasing-step (fair) / bag of waiters (unfair), Appendix A; the permit ledger avail + acquired + granted-pending = initial + released is asserted in every model state and the implementation's available_permits() must agree with it wherever a program observes it"]),
        "C17" => conformance(&ctx, &["async"], &["executor model: a task waiting on a leaf future is enabled iff the flag is set; JoinHandle await yields the output or Cancelled; abort may take effect at any later poll (loose); detached tasks are cut off when the last attached task finishes; future-drop events are checked by a monitor"]),
        "C06" => conformance(&ctx, &["mpsc"], &["reference model: FIFO channel with FIFO queue of blocked senders (Appendix A); rendezvous = hand-off only to a waiting receiver, as the property states"]),
        _ => {
            eprintln!("MACHINERY-ERROR: no check registered for {}", id);
            std::process::exit(2)
        }
    };
    finish(&ctx, res)
}

pub fn replay_file(id: &str, path: &str) -> ! {
    let s = std::fs::read_to_string(path).unwrap_or_else(|e| {
        eprintln!("cannot read {}: {}", path, e);
        std::process::exit(2)
    });
    let doc: serde_json::Value = serde_json::from_str(&s).expect("replay json");
    let r = &doc["replay"];
    println!("property {} key {}", id, doc["key"]);
    println!("reported: {}", doc["what"]);
    match r["engine"].as_str() {
        Some("e2") => {
            let fam = family(r["family"].as_str().unwrap());
            let set = r["set"].as_str().unwrap();
            let idx = r["idx"].as_u64().unwrap() as usize;
            let alts: Vec<String> = r["alts"].as_array().unwrap().iter().map(|v| v.as_str().unwrap().to_string()).collect();
            if fam.describe(set, idx) != r["program"].as_str().unwrap() {
                println!("note: program list changed since the replay file was written; using index {}", idx);
            }
            if alts.is_empty() {
                println!("(finding concerns the whole schedule tree of the program; re-checking the program)");
                let rep = fam.check_idx(set, idx, &Mode::default());
                for v in rep.violations {
                    println!("  {:?}: {}", v.kind, v.what);
                }
            } else {
                crate::common::silence_panics();
                println!("{}", fam.replay(set, idx, &strings_to_alts(&alts)));
            }
        }
        Some("atomic-diff") => {
            println!("case: {}", r["case"]);
            let v = crate::atomic_diff::run_type(r["type_index"].as_u64().unwrap() as usize, true);
            println!("re-run of the whole type: evaluations={} mismatches={}", v["evaluations"], v["mismatches"].as_array().map(|a| a.len()).unwrap_or(0));
            for m in v["mismatches"].as_array().cloned().unwrap_or_default().iter().take(5) {
                println!("  {}", m);
            }
        }
        other => {
            println!("no replayer for engine {:?}", other);
            std::process::exit(2);
        }
    }
    std::process::exit(0)
}


/// C04 (ii): run the sequential differential of all 14 atomic types in parallel child processes.
fn atomic_differential(ctx: &CheckCtx, res: &mut CheckResult) {
    let exe = Ok::<std::path::PathBuf, std::io::Error>(std::path::PathBuf::from("/proc/self/exe")).expect("current_exe");
    let children: Vec<_> = (0..crate::atomic_diff::TYPES)
        .map(|i| {
            std::process::Command::new(&exe)
                .arg("atomic-diff")
                .arg(i.to_string())
                .arg(if ctx.tier.is_thorough() { "full" } else { "quick" })
                .stdout(std::process::Stdio::piped())
                .stderr(std::process::Stdio::null())
                .spawn()
                .expect("spawn atomic-diff")
        })
        .collect();
    let mut total = 0u64;
    let mut classes = 0u64;
    for (i, c) in children.into_iter().enumerate() {
        let out = c.wait_with_output().expect("wait atomic-diff");
        let txt = String::from_utf8_lossy(&out.stdout);
        let v: serde_json::Value = match txt.lines().last().and_then(|l| serde_json::from_str(l).ok()) {
            Some(v) => v,
            None => {
                res.machinery_errors.push(format!("atomic-diff child {} produced no report (status {:?})", i, out.status));
                continue;
            }
        };
        total += v["evaluations"].as_u64().unwrap_or(0);
        classes += v["classes"].as_array().map(|a| a.len() as u64).unwrap_or(0);
        if let Some(p) = v["panic"].as_str() {
            res.finding(format!("atomic-diff/panic/type{}", i), format!("atomic operation panicked: {}", p), json!({"engine": "atomic-diff", "type_index": i}));
        }
        for m in v["mismatches"].as_array().cloned().unwrap_or_default() {
            res.finding(
                format!("atomic-diff/{}.{}", m["type"].as_str().unwrap_or("?"), m["op"].as_str().unwrap_or("?")),
                format!("atomic result differs from the reference: {}", m),
                json!({"engine": "atomic-diff", "type_index": i, "case": m}),
            );
        }
        for s in v["samples"].as_array().cloned().unwrap_or_default() {
            res.sample(s);
        }
    }
    res.cov("atomic_differential_evaluations", total);
    res.cov("atomic_differential_distinct_type_op_classes", classes);
    res.add_count("evaluations", total);
}
