//! Generic per-family driver: for each generated program, explicit-state check of the model,
//! exhaustive exploration of the implementation (E1), co-simulation of every execution, outcome-set
//! comparison.  Also: worker-process sharding, report aggregation.

use crate::explore::{Alt, Options};
use crate::prog::*;
use serde::{Deserialize, Serialize};
use std::collections::BTreeSet;
use std::sync::Arc;

#[derive(Clone, Debug, Serialize, Deserialize, PartialEq, Eq)]
pub enum VKind {
    /// a return value / step the model does not allow (primitive's own property)
    Sound,
    /// a thread the model can run is not offered (lost wake-up / missing task) — primitive's property and C08
    Enabled,
    /// ending (ok / deadlock set / panic) not allowed by the model — C03 and primitive's property
    Ending,
    /// user code ran outside the chosen task's step, unknown task — C08
    Contract,
    /// an outcome of the strict model that no schedule produces — C02
    Missing,
    /// the process died (abort) while running this program
    Abort,
    /// rejected by the reference model but explained by the family's weakened model = the named,
    /// recorded finding
    Known(String),
    /// extra monitors
    Other(String),
}

#[derive(Clone, Debug, Serialize, Deserialize)]
pub struct Violation {
    pub kind: VKind,
    #[serde(default)]
    pub culprit: String,
    pub family: String,
    pub program_idx: usize,
    pub program: String,
    /// op kinds (Debug names without arguments) occurring in the program — used for known-finding keys
    pub op_kinds: Vec<String>,
    pub what: String,
    /// alternatives taken (replayable with FixedScheduler)
    pub alts: Vec<String>,
    pub choices: Vec<usize>,
}

#[derive(Clone, Debug, Default, Serialize, Deserialize)]
pub struct ProgReport {
    pub idx: usize,
    pub executions: u64,
    pub decisions: u64,
    pub max_depth: usize,
    pub model_states: u64,
    pub model_transitions: u64,
    pub model_outcomes: usize,
    pub impl_outcomes: usize,
    pub traces_validated: u64,
    pub full_tree: bool,
    pub capped: bool,
    pub violations: Vec<Violation>,
    pub sample: Option<serde_json::Value>,
    pub machinery_error: Option<String>,
}

#[derive(Clone, Debug)]
pub struct Mode {
    pub sound: bool,
    pub complete: bool,
    pub check_enabled: bool,
    pub preemption_bound: Option<usize>,
    pub max_execs: u64,
    pub max_model_states: usize,
    pub max_violations_per_program: usize,
    /// only the first N programs of the set (simplest first)
    pub max_programs: usize,
    /// additionally explore "scheduler returns None here" at every decision
    pub stop_children: bool,
    /// C01: instead of the model check, replay every execution from its recorded schedule string
    pub replay_check: bool,
    /// seed of the data stream (replay_check)
    pub seed: u64,
    /// C14: run every execution B after every predecessor A in one Runner::run and alone; compare
    pub iso_check: bool,
    /// C14: at most this many B schedules per program (evenly spread), 0 = all
    pub iso_max_b: usize,
    /// C15: vector-clock check instead of the model check
    pub clock_check: bool,
    /// C15: target-clock replay for every thread's last operation (else main's only)
    pub clock_all_targets: bool,
    /// take every `stride`-th program of the set (1 = all); with a large thorough set this spreads a
    /// bounded pass over all program sizes instead of the simplest ones only
    pub stride: usize,
    /// leave out the programs with an index below this (used with `stride` to sample the part of a
    /// set that a prefix-limited pass does not reach)
    pub skip_first: usize,
}

impl Default for Mode {
    fn default() -> Self {
        Mode {
            sound: true,
            complete: true,
            check_enabled: true,
            preemption_bound: None,
            max_execs: 300_000,
            max_model_states: 2_000_000,
            max_violations_per_program: 3,
            max_programs: usize::MAX,
            stop_children: false,
            replay_check: false,
            seed: 0,
            iso_check: false,
            iso_max_b: 0,
            clock_check: false,
            clock_all_targets: false,
            stride: 1,
            skip_first: 0,
        }
    }
}

pub fn op_kind_name(dbg: &str) -> String {
    dbg.split(|c: char| c == '(' || c == '{' || c == ' ').next().unwrap_or("").to_string()
}

pub fn op_kinds<F: Family>(p: &Program<F>) -> Vec<String> {
    let mut s = BTreeSet::new();
    for t in &p.threads {
        for o in t {
            match o {
                GOp::Op(o) => {
                    s.insert(op_kind_name(&format!("{:?}", o)));
                }
                GOp::Spawn(_) => {
                    s.insert("Spawn".into());
                }
                GOp::Join(_) => {
                    s.insert("Join".into());
                }
                GOp::ScopeBegin(_) => {
                    s.insert("ScopeBegin".into());
                }
                GOp::ScopeEnd => {
                    s.insert("ScopeEnd".into());
                }
                GOp::Abort(_) => {
                    s.insert("Abort".into());
                }
                GOp::Detach(_) => {
                    s.insert("Detach".into());
                }
                GOp::IsFinished(_) => {
                    s.insert("IsFinished".into());
                }
                GOp::PollJoin(_) => {
                    s.insert("PollJoin".into());
                }
            }
        }
    }
    s.into_iter().collect()
}

pub fn alts_to_strings(path: &[crate::explore::Node]) -> Vec<String> {
    path.iter()
        .map(|n| match n.chosen() {
            Alt::Task(t) => format!("T{}", t),
            Alt::Stop => "STOP".into(),
            Alt::Rand(v) => format!("R{}", v),
        })
        .collect()
}

pub fn strings_to_alts(v: &[String]) -> Vec<Alt> {
    v.iter()
        .map(|s| {
            if s == "STOP" {
                Alt::Stop
            } else if let Some(r) = s.strip_prefix('T') {
                Alt::Task(r.parse().unwrap())
            } else if let Some(r) = s.strip_prefix('R') {
                Alt::Rand(r.parse().unwrap())
            } else {
                panic!("bad alt {}", s)
            }
        })
        .collect()
}

/// Normalise an implementation outcome for comparison with model outcomes.
fn normalise<R: Ord + Clone>(o: &Outcome<R>, model_panics: &[String]) -> Outcome<R> {
    match &o.ending {
        Ending::Panic(msg) => {
            let cls = model_panics
                .iter()
                .find(|c| msg.contains(c.as_str()))
                .cloned()
                .unwrap_or_else(|| msg.clone());
            Outcome {
                res: vec![],
                ending: Ending::Panic(cls),
            }
        }
        _ => o.clone(),
    }
}

thread_local! {
    pub static COSIM_NANOS: std::cell::Cell<u64> = const { std::cell::Cell::new(0) };
}

/// C01: every execution of the program's full tree is re-executed from the printed form of the
/// schedule the runtime recorded for it, and must be identical.
pub fn replay_program<F: Family>(idx: usize, prog: &Program<F>, mode: &Mode) -> ProgReport {
    use crate::explore::{path_events, Explorer, RecEvent, RecSched};
    use shuttle_engine::runtime::execution::CurrentSchedule;
    use shuttle_engine::scheduler::serialization::serialize_schedule;
    let mut rep = ProgReport {
        idx,
        ..Default::default()
    };
    let kinds = op_kinds(prog);
    let desc = prog.describe();
    let arc = Arc::new(SS(prog.clone()));
    let ex = Explorer::new(Options {
        preemption_bound: mode.preemption_bound,
        seed: mode.seed,
        data_from_seed: true,
        ..Options::default()
    });
    let config = base_config();
    let mut viols: Vec<Violation> = Vec::new();
    let mut outcomes: BTreeSet<String> = BTreeSet::new();
    let push = |what: String, culprit: &str, path: &[crate::explore::Node], viols: &mut Vec<Violation>| {
        if viols.len() < mode.max_violations_per_program {
            viols.push(Violation {
                kind: VKind::Other("Replay".into()),
                culprit: culprit.to_string(),
                family: F::NAME.into(),
                program_idx: idx,
                program: desc.clone(),
                op_kinds: kinds.clone(),
                what,
                alts: alts_to_strings(path),
                choices: path.iter().map(|n| n.idx).collect(),
            });
        }
    };
    loop {
        let (log, ending) = run_once::<F, _>(&arc, ex.handle(), &config);
        // the runtime's own record of this execution
        let recorded = CurrentSchedule::get_schedule();
        ex.advance();
        if let Some(d) = ex.diverged() {
            rep.machinery_error = Some(format!("{} — program {}", d, desc));
            break;
        }
        let path = ex.path();
        rep.executions += 1;
        outcomes.insert(format!("{:?}|{:?}", ending, log.iter().filter_map(|e| if let EKind::Ret(r) = &e.kind { Some(format!("{}:{:?}", e.thread, r)) } else { None }).collect::<Vec<_>>()));
        let mine = ex.reconstructed_schedule();
        if recorded != mine {
            push(
                format!("the schedule recorded by the runtime differs from the sequence of answered scheduler calls: recorded {:?}, calls {:?}", recorded, mine),
                "recorded-schedule",
                &path,
                &mut viols,
            );
        } else {
            // replay from the printed form
            let text = serialize_schedule(&recorded);
            let (rs, rec) = RecSched::new(shuttle_schedulers::ReplayScheduler::new_from_encoded(&text));
            let (log2, ending2) = run_once::<F, _>(&arc, rs, &config);
            let ev2: Vec<RecEvent> = rec.borrow().iter().filter(|e| !matches!(e, RecEvent::NewExecution(_))).cloned().collect();
            let ev1 = path_events(&path);
            // a replay ends with one extra `new_execution -> None`; compare the calls in between
            if ev1 != ev2 {
                let at = ev1.iter().zip(ev2.iter()).position(|(a, b)| a != b).unwrap_or(ev1.len().min(ev2.len()));
                push(
                    format!("replay diverges at scheduler call {}: original {:?}, replay {:?} (lengths {} / {})", at, ev1.get(at), ev2.get(at), ev1.len(), ev2.len()),
                    "decisions",
                    &path,
                    &mut viols,
                );
            } else if log != log2 {
                let at = log.iter().zip(log2.iter()).position(|(a, b)| a != b).unwrap_or(log.len().min(log2.len()));
                push(
                    format!("replay produced a different observation log at entry {}: original {:?}, replay {:?}", at, log.get(at), log2.get(at)),
                    "observations",
                    &path,
                    &mut viols,
                );
            } else if ending != ending2 {
                push(format!("replay ended differently: original {:?}, replay {:?}", ending, ending2), "ending", &path, &mut viols);
            } else {
                rep.traces_validated += 1;
            }
        }
        if rep.sample.is_none() {
            rep.sample = Some(serde_json::json!({"program": desc, "schedule": alts_to_strings(&path), "encoded": serialize_schedule(&recorded), "ending": format!("{:?}", ending)}));
        }
        if ex.exhausted() {
            rep.full_tree = mode.preemption_bound.is_none();
            break;
        }
        if rep.executions >= mode.max_execs {
            rep.capped = true;
            break;
        }
    }
    // "under any scheduler": every execution of a short run under each BUILT-IN scheduler must be
    // reproducible from the schedule the runtime prints for it = the data seed its `new_execution`
    // announced + the calls it answered (seed C01-round-robin-data-source-not-reseeded was invisible
    // while only the explorer's executions were replayed)
    if rep.machinery_error.is_none() {
        use crate::wrappers::DynSched;
        use shuttle_engine::scheduler::Schedule;
        let iters = 3usize;
        let builtins: Vec<(&str, DynSched)> = vec![
            ("round-robin", DynSched(Box::new(shuttle_schedulers::RoundRobinScheduler::new(iters)))),
            ("random", DynSched(Box::new(shuttle_schedulers::RandomScheduler::new_from_seed(mode.seed ^ 0x5eed, iters)))),
            ("pct", DynSched(Box::new(shuttle_schedulers::PctScheduler::new_from_seed(mode.seed ^ 0x5eed, 2, iters)))),
            ("urw", DynSched(Box::new(shuttle_schedulers::UrwRandomScheduler::new_from_seed(mode.seed ^ 0x5eed, iters)))),
            ("dfs", DynSched(Box::new(shuttle_schedulers::DfsScheduler::new(Some(iters), true)))),
        ];
        for (sname, sched) in builtins {
            let (rs, rec) = RecSched::new(sched);
            let logs: Logs<F::Res> = std::rc::Rc::new(std::cell::RefCell::new(Vec::new()));
            let auxs: AuxLogs = std::rc::Rc::new(std::cell::RefCell::new(Vec::new()));
            AUX.with(|a| a.borrow_mut().clear());
            let body = make_body::<F>(&arc, &logs, &auxs);
            let run = std::panic::catch_unwind(std::panic::AssertUnwindSafe(|| {
                shuttle_engine::Runner::new(rs, config.clone()).run(body);
            }));
            // split the recorded calls per execution
            let mut execs: Vec<(u64, Vec<RecEvent>)> = Vec::new();
            for e in rec.borrow().iter() {
                match e {
                    RecEvent::NewExecution(Some(seed)) => execs.push((*seed, Vec::new())),
                    RecEvent::NewExecution(None) => {}
                    other => {
                        if let Some(last) = execs.last_mut() {
                            last.1.push(other.clone());
                        }
                    }
                }
            }
            let ls = logs.borrow();
            for (i, (seed, evs)) in execs.iter().enumerate() {
                // an execution that produced no body log (none here) or the failing last one is still replayed
                let Some(log1) = ls.get(i) else { continue };
                // (PCT refuses, between iterations, bodies without any multi-choice step: that panic is
                // the scheduler's own and not a failure of the execution before it)
                let pct_refusal = matches!(&run, Err(p) if payload_to_string(p).contains("did not exercise any concurrency"));
                let last_failed = run.is_err() && !pct_refusal && i + 1 == execs.len();
                let mut sch = Schedule::new(*seed);
                for e in evs {
                    match e {
                        RecEvent::Task { chosen: Some(t), .. } => sch.push_task(shuttle_engine::scheduler::TaskId::from(*t)),
                        RecEvent::Rand(_) => sch.push_random(),
                        _ => {}
                    }
                }
                let text = serialize_schedule(&sch);
                let (rs2, rec2) = RecSched::new(shuttle_schedulers::ReplayScheduler::new_from_encoded(&text));
                let (log2, ending2) = run_once::<F, _>(&arc, rs2, &config);
                let ev2: Vec<RecEvent> = rec2.borrow().iter().filter(|e| !matches!(e, RecEvent::NewExecution(_))).cloned().collect();
                rep.executions += 1;
                let what = if *evs != ev2 {
                    let at = evs.iter().zip(ev2.iter()).position(|(a, b)| a != b).unwrap_or(evs.len().min(ev2.len()));
                    Some(format!("scheduler call {} differs: original {:?}, replay {:?}", at, evs.get(at), ev2.get(at)))
                } else if *log1 != log2 {
                    let at = log1.iter().zip(log2.iter()).position(|(a, b)| a != b).unwrap_or(log1.len().min(log2.len()));
                    Some(format!("observation log differs at entry {}: original {:?}, replay {:?}", at, log1.get(at), log2.get(at)))
                } else if last_failed != (ending2 != RawEnding::Ok) {
                    Some(format!(
                        "original execution {} but the replay ended {:?}",
                        match &run {
                            Err(p) => format!("failed ({})", payload_to_string(p).chars().take(160).collect::<String>()),
                            Ok(_) => "passed".into(),
                        },
                        ending2
                    ))
                } else {
                    None
                };
                match what {
                    Some(w) => push(
                        format!("execution {} of a {}-iteration run under the built-in {} scheduler is not reproduced by its schedule {:?} (seed {}): {}", i, iters, sname, text, seed, w),
                        &format!("builtin-{}", sname),
                        &[],
                        &mut viols,
                    ),
                    None => rep.traces_validated += 1,
                }
            }
        }
    }
    // the uncontrolled-nondeterminism checker wrapped around the same exploration must stay silent
    if rep.machinery_error.is_none() {
        let ex2 = Explorer::new(Options {
            preemption_bound: mode.preemption_bound,
            seed: mode.seed,
            data_from_seed: true,
            ..Options::default()
        });
        let mut n2 = 0u64;
        loop {
            let wrapped = shuttle_schedulers::UncontrolledNondeterminismCheckScheduler::new(ex2.handle());
            let (_log, ending) = run_once::<F, _>(&arc, wrapped, &config);
            ex2.advance();
            n2 += 1;
            if let RawEnding::Panic(m) = &ending {
                if m.contains("nondeterminism") {
                    let path = ex2.path();
                    push(format!("the uncontrolled-nondeterminism checker rejected a body whose only nondeterminism is scheduling and shuttle::rand: {}", m), "nondeterminism-checker", &path, &mut viols);
                }
            }
            if ex2.exhausted() || n2 >= mode.max_execs {
                break;
            }
        }
        rep.decisions = n2;
    }
    let st = ex.stats();
    rep.max_depth = st.max_depth;
    rep.impl_outcomes = outcomes.len();
    rep.model_states = 0;
    rep.violations = viols;
    rep
}

/// A scheduler that serves a fixed list of executions, each a fixed list of alternatives.
pub struct SeqScheduler {
    pub execs: Vec<Vec<Alt>>,
    pub cur: usize,
    pub pos: usize,
    pub started: usize,
    pub mismatch: std::rc::Rc<std::cell::RefCell<Option<String>>>,
}

impl shuttle_engine::scheduler::Scheduler for SeqScheduler {
    fn new_execution(&mut self) -> Option<shuttle_engine::scheduler::Schedule> {
        if self.started >= self.execs.len() {
            return None;
        }
        self.cur = self.started;
        SEQ_CUR.with(|c| c.set(self.cur));
        self.started += 1;
        self.pos = 0;
        crate::explore::DECISION.with(|d| d.set(0));
        Some(shuttle_engine::scheduler::Schedule::new(0))
    }
    fn next_task(
        &mut self,
        runnable: &[&shuttle_engine::scheduler::Task],
        _c: Option<shuttle_engine::scheduler::TaskId>,
        _y: bool,
    ) -> Option<shuttle_engine::scheduler::TaskId> {
        crate::explore::DECISION.with(|d| d.set(d.get() + 1));
        let a = self.execs[self.cur].get(self.pos).cloned();
        self.pos += 1;
        match a {
            Some(Alt::Task(t)) if runnable.iter().any(|r| usize::from(r.id()) == t) => Some(shuttle_engine::scheduler::TaskId::from(t)),
            Some(Alt::Stop) => None,
            other => {
                *self.mismatch.borrow_mut() = Some(format!(
                    "execution {} decision {}: planned {:?}, offered {:?}",
                    self.cur,
                    self.pos - 1,
                    other,
                    runnable.iter().map(|r| usize::from(r.id())).collect::<Vec<_>>()
                ));
                None
            }
        }
    }
    fn next_u64(&mut self) -> u64 {
        crate::explore::DECISION.with(|d| d.set(d.get() + 1));
        self.pos += 1;
        0
    }
}

thread_local! {
    /// index of the execution the SeqScheduler is driving (read by bodies that differ per execution)
    pub static SEQ_CUR: std::cell::Cell<usize> = const { std::cell::Cell::new(0) };
    /// C14 cross pairs: the program whose executions serve as predecessors A of `prog`'s executions B
    /// (set by `FamRunner::check_idx`: the next program of the set)
    pub static ISO_OTHER: std::cell::RefCell<Option<Box<dyn std::any::Any>>> = const { std::cell::RefCell::new(None) };
}

/// C14: every execution B of the program, run (i) alone in a fresh Runner::run and (ii) as the
/// second execution of a Runner::run whose first execution is A, for every A in {complete
/// schedules} ∪ {every proper prefix of a schedule, stopped there by the scheduler}: B's complete
/// observation log (task ids, results, clocks, counters, labels, lazy/once/thread-local
/// initialisation) must be identical, and nothing created in A may be alive when B starts.
pub fn iso_program<F: Family>(idx: usize, prog: &Program<F>, mode: &Mode) -> ProgReport {
    use crate::explore::Explorer;
    use std::collections::BTreeSet as BS;
    let mut rep = ProgReport {
        idx,
        ..Default::default()
    };
    let kinds = op_kinds(prog);
    let desc = prog.describe();
    let arc = Arc::new(SS(prog.clone()));
    let config = base_config();
    // 1. all complete schedules, each run alone (one Runner::run per execution)
    let ex = Explorer::new(Options::default());
    let mut complete: Vec<(Vec<Alt>, Vec<Entry<F::Res>>, RawEnding, Vec<AuxEntry>)> = Vec::new();
    loop {
        AUX.with(|a| a.borrow_mut().clear());
        F::reset_globals();
        let (log, ending) = run_once::<F, _>(&arc, ex.handle(), &config);
        let aux = AUX.with(|a| std::mem::take(&mut *a.borrow_mut()));
        ex.advance();
        if let Some(d) = ex.diverged() {
            rep.machinery_error = Some(d);
            return rep;
        }
        let alts: Vec<Alt> = ex.path().iter().map(|n| n.chosen().clone()).collect();
        complete.push((alts, log, ending, aux));
        if ex.exhausted() || complete.len() as u64 >= mode.max_execs {
            break;
        }
    }
    rep.executions = complete.len() as u64;
    // 2. predecessors: complete schedules and every stopped prefix
    let mut preds: BS<Vec<String>> = BS::new();
    for (alts, _, _, _) in &complete {
        let strs: Vec<String> = alts.iter().map(|a| format!("{:?}", a)).collect();
        preds.insert(strs.clone());
        for k in 0..alts.len() {
            let mut p = strs[..k].to_vec();
            p.push("Stop".into());
            preds.insert(p);
        }
    }
    let parse = |v: &Vec<String>| -> Vec<Alt> {
        v.iter()
            .map(|s| {
                if s == "Stop" {
                    Alt::Stop
                } else {
                    let n: usize = s.trim_start_matches("Task(").trim_end_matches(')').parse().unwrap();
                    Alt::Task(n)
                }
            })
            .collect()
    };
    // 3. successors
    let b_idx: Vec<usize> = if mode.iso_max_b == 0 || complete.len() <= mode.iso_max_b {
        (0..complete.len()).collect()
    } else {
        (0..mode.iso_max_b).map(|i| i * (complete.len() - 1) / (mode.iso_max_b - 1)).collect()
    };
    let mut viols: Vec<Violation> = Vec::new();
    let mut classes: BS<String> = BS::new();
    // cross pairs: predecessors taken from ANOTHER body (more / fewer tasks, other per-execution
    // state touched first by other threads), B still compared with B alone
    let other: Option<Program<F>> = ISO_OTHER.with(|o| o.borrow_mut().take()).and_then(|b| b.downcast::<Program<F>>().ok()).map(|b| *b);
    let mut other_failing: BS<Vec<String>> = BS::new();
    let mut jobs: Vec<(Option<Arc<SS<Program<F>>>>, Vec<String>)> = preds.iter().map(|a| (None, a.clone())).collect();
    if let Some(op) = &other {
        let oarc = Arc::new(SS(op.clone()));
        let ex2 = Explorer::new(Options::default());
        let mut opreds: BS<Vec<String>> = BS::new();
        let mut n = 0u64;
        loop {
            AUX.with(|a| a.borrow_mut().clear());
            F::reset_globals();
            let (_log, ending) = run_once::<F, _>(&oarc, ex2.handle(), &config);
            ex2.advance();
            if let Some(d) = ex2.diverged() {
                rep.machinery_error = Some(d);
                return rep;
            }
            let strs: Vec<String> = ex2.path().iter().map(|n| format!("{:?}", n.chosen())).collect();
            if ending != RawEnding::Ok {
                other_failing.insert(strs.clone());
            }
            opreds.insert(strs.clone());
            for k in 0..strs.len() {
                let mut p = strs[..k].to_vec();
                p.push("Stop".into());
                opreds.insert(p);
            }
            n += 1;
            if ex2.exhausted() || n >= mode.max_execs {
                break;
            }
        }
        // every k-th of them (the same-program pairs above are the exhaustive part)
        let want = if mode.iso_max_b <= 24 { 400 } else { 4000 };
        let k = (opreds.len() / want.max(1)).max(1);
        for (i, a) in opreds.into_iter().enumerate() {
            if i % k == 0 {
                jobs.push((Some(oarc.clone()), a));
            }
        }
    }
    // bound the number of predecessors per body (every k-th; all of them for the small bodies)
    let max_jobs = if mode.iso_max_b <= 24 { 3_000 } else { 20_000 };
    let kj = (jobs.len() / max_jobs).max(1);
    let jobs: Vec<_> = jobs.into_iter().enumerate().filter(|(i, _)| i % kj == 0).map(|(_, j)| j).collect();
    for (a_arc, a) in &jobs {
        let a_alts = parse(a);
        let cross = a_arc.is_some();
        for &bi in &b_idx {
            let (b_alts, b_log, b_end, b_aux) = &complete[bi];
            if *b_end != RawEnding::Ok {
                continue; // a failing B ends the run: it is its own last execution anyway
            }
            let logs: Logs<F::Res> = std::rc::Rc::new(std::cell::RefCell::new(Vec::new()));
            let auxs: AuxLogs = std::rc::Rc::new(std::cell::RefCell::new(Vec::new()));
            AUX.with(|x| x.borrow_mut().clear());
            F::reset_globals();
            let mm = std::rc::Rc::new(std::cell::RefCell::new(None));
            let sched = SeqScheduler {
                execs: vec![a_alts.clone(), b_alts.clone()],
                cur: 0,
                pos: 0,
                started: 0,
                mismatch: mm.clone(),
            };
            let body_b = make_body::<F>(&arc, &logs, &auxs);
            let body_a = a_arc.as_ref().map(|x| make_body::<F>(x, &logs, &auxs));
            let body = move || {
                // which execution of the run is this (A stopped at its first decision never runs a body)
                let k = SEQ_CUR.with(|c| c.get());
                match (&body_a, k) {
                    (Some(a), 0) => a(),
                    _ => body_b(),
                }
            };
            let r = std::panic::catch_unwind(std::panic::AssertUnwindSafe(|| shuttle_engine::Runner::new(sched, config.clone()).run(body)));
            let last_aux = AUX.with(|x| std::mem::take(&mut *x.borrow_mut()));
            rep.decisions += 1; // pair runs
            let a_complete = !matches!(a_alts.last(), Some(Alt::Stop));
            classes.insert(format!("{}{}|{}", if cross { "other-body " } else { "" }, if a_complete { "A-complete" } else { "A-stopped" }, a_alts.len()));
            let mut complain = |what: String, culprit: &str| {
                if viols.len() < mode.max_violations_per_program + 3 {
                    viols.push(Violation {
                        kind: VKind::Other("Isolation".into()),
                        culprit: culprit.to_string(),
                        family: F::NAME.into(),
                        program_idx: idx,
                        program: desc.clone(),
                        op_kinds: kinds.clone(),
                        what,
                        alts: a.iter().cloned().chain(std::iter::once("||".to_string())).chain(b_alts.iter().map(|x| format!("{:?}", x))).collect(),
                        choices: vec![],
                    });
                }
            };
            match r {
                Err(p) => {
                    // A itself may legitimately fail (deadlocking schedule): then there is no B
                    let msg = payload_to_string(&p);
                    let a_fails = if cross { other_failing.contains(a) } else { complete.iter().any(|(al, _, e, _)| *al == a_alts && *e != RawEnding::Ok) };
                    if !a_fails {
                        complain(format!("the run panicked: {}", msg), "run-panicked");
                    }
                    continue;
                }
                Ok(n) => {
                    if let Some(m) = mm.borrow().as_ref() {
                        complain(format!("execution B could not follow its schedule after predecessor A: {}", m), "schedule-not-applicable");
                        continue;
                    }
                    if n != 2 {
                        complain(format!("Runner::run returned {} for two executions", n), "count");
                    }
                }
            }
            let ls = logs.borrow();
            let stopped_at_once = a_alts.len() == 1 && a_alts[0] == Alt::Stop;
            let b_pair_log = if stopped_at_once { ls.get(0) } else { ls.get(1) };
            match b_pair_log {
                None => complain("execution B left no log".into(), "no-log"),
                Some(l2) => {
                    if l2 != b_log {
                        let at = l2.iter().zip(b_log.iter()).position(|(x, y)| x != y).unwrap_or(l2.len().min(b_log.len()));
                        complain(
                            format!(
                                "execution B behaves differently after predecessor A than alone: entry {} is {:?} after A but {:?} alone",
                                at,
                                l2.get(at),
                                b_log.get(at)
                            ),
                            "behaviour-differs",
                        );
                    } else {
                        rep.traces_validated += 1;
                    }
                }
            }
            // ledger: nothing of A alive when B starts; B's own aux events as when alone
            let b_aux_pair: Vec<String> = last_aux.iter().map(|x| x.what.clone()).collect();
            let b_aux_alone: Vec<String> = b_aux.iter().map(|x| x.what.clone()).collect();
            if b_aux_pair != b_aux_alone {
                complain(
                    format!("auxiliary events of B differ: after A {:?}, alone {:?} (live-at-start counts values of earlier executions still alive)", b_aux_pair, b_aux_alone),
                    "ledger",
                );
            }
        }
    }
    rep.full_tree = true;
    rep.impl_outcomes = classes.len();
    rep.violations = viols;
    rep.sample = Some(serde_json::json!({"program": desc, "complete_schedules": complete.len(), "predecessors": preds.len(), "successors": b_idx.len()}));
    rep
}

pub fn check_program<F: Family>(idx: usize, prog: &Program<F>, mode: &Mode) -> ProgReport {
    if mode.replay_check {
        return replay_program(idx, prog, mode);
    }
    if mode.iso_check {
        return iso_program(idx, prog, mode);
    }
    if mode.clock_check {
        return crate::clockcheck::clock_program(idx, prog, mode);
    }
    let mut rep = ProgReport {
        idx,
        ..Default::default()
    };
    let kinds = op_kinds(prog);
    let desc = prog.describe();

    // explicit-state exploration of the model
    let (m_strict, ms) = model_outcomes(prog, true, mode.max_model_states);
    rep.model_states = ms.states;
    rep.model_transitions = ms.transitions;
    rep.model_outcomes = m_strict.len();
    if ms.capped {
        rep.capped = true;
    }
    let model_panics: Vec<String> = m_strict
        .iter()
        .filter_map(|o| match &o.ending {
            Ending::Panic(c) => Some(c.clone()),
            _ => None,
        })
        .collect();
    let m_strict_norm: BTreeSet<Outcome<F::Res>> = m_strict.iter().map(|o| normalise(o, &model_panics)).collect();

    let arc = Arc::new(SS(prog.clone()));
    let opts = Options {
        preemption_bound: mode.preemption_bound,
        stop_children: mode.stop_children,
        ..Options::default()
    };
    let mut impl_outcomes: BTreeSet<Outcome<F::Res>> = BTreeSet::new();
    let mut mc: MCache<F> = MCache::new(prog, false);
    let weakening = F::weakening(&prog.cfg);
    let mut mc_weak: Option<MCache<F>> = weakening.map(|_| with_weak(true, || MCache::new(prog, false)));
    let mut viols: Vec<Violation> = Vec::new();
    let mut validated = 0u64;
    let mut sample: Option<serde_json::Value> = None;
    let maxv = mode.max_violations_per_program;
    let mut known_hits = 0usize;
    let r = explore_program::<F>(&arc, opts, mode.max_execs, |rec, _ex| {
        let tc = std::time::Instant::now();
        let cr = cosim(prog, &mut mc, rec, mode.check_enabled);
        COSIM_NANOS.with(|c| c.set(c.get() + tc.elapsed().as_nanos() as u64));
        if cr.fail.is_none() {
            validated += 1;
        }
        if sample.is_none() || (rec.path.len() > 6 && validated % 97 == 1) {
            sample = Some(serde_json::json!({
                "program": desc,
                "schedule": alts_to_strings(&rec.path),
                "log": rec.log.iter().filter(|e| matches!(e.kind, EKind::Ret(_))).map(|e| format!("t{}#{}@{}:{:?}", e.thread, e.op, e.stamp, e.kind)).collect::<Vec<_>>(),
                "ending": format!("{:?}", cr.outcome.ending),
            }));
        }
        if cr.fail.is_none() && mode.sound && viols.len() < maxv {
            if let Some((culprit, what)) = F::monitor(prog, rec) {
                viols.push(Violation {
                    kind: VKind::Sound,
                    culprit,
                    family: F::NAME.into(),
                    program_idx: idx,
                    program: desc.clone(),
                    op_kinds: kinds.clone(),
                    what,
                    alts: alts_to_strings(&rec.path),
                    choices: rec.path.iter().map(|n| n.idx).collect(),
                });
            }
        }
        if let Some(f) = &cr.fail {
            // does the weakened model (reference + recorded defect) explain this execution?
            let mut explained = false;
            if let (Some(mw), Some(name)) = (mc_weak.as_mut(), weakening) {
                let cw = with_weak(true, || cosim(prog, mw, rec, mode.check_enabled));
                if std::env::var("VX_DEBUG_WEAK").is_ok() {
                    if let Some(wf) = &cw.fail {
                        eprintln!("weakened model rejects too: {}", wf.what);
                    }
                }
                if cw.fail.is_none() {
                    explained = true;
                    if mode.sound && known_hits < 2 {
                        known_hits += 1;
                        viols.push(Violation {
                            kind: VKind::Known(name.to_string()),
                            culprit: name.to_string(),
                            family: F::NAME.into(),
                            program_idx: idx,
                            program: desc.clone(),
                            op_kinds: kinds.clone(),
                            what: format!("{} [ending observed: {:?}] — explained by the weakened model", f.what, rec.raw_ending),
                            alts: alts_to_strings(&rec.path),
                            choices: rec.path.iter().map(|n| n.idx).collect(),
                        });
                    }
                }
            }
            if !explained && mode.sound && viols.len() < maxv + 2 {
                let kind = match f.kind {
                    FailKind::Ending => VKind::Ending,
                    FailKind::Enabled => VKind::Enabled,
                    FailKind::Contract => VKind::Contract,
                    FailKind::Ret => VKind::Sound,
                };
                viols.push(Violation {
                    kind,
                    culprit: f.culprit.clone(),
                    family: F::NAME.into(),
                    program_idx: idx,
                    program: desc.clone(),
                    op_kinds: kinds.clone(),
                    what: format!("{} [ending observed: {:?}]", f.what, rec.raw_ending),
                    alts: alts_to_strings(&rec.path),
                    choices: rec.path.iter().map(|n| n.idx).collect(),
                });
            }
        }
        impl_outcomes.insert(normalise(&cr.outcome, &model_panics));
    });
    match r {
        Err(e) => {
            rep.machinery_error = Some(e);
        }
        Ok(ts) => {
            rep.executions = ts.executions;
            rep.decisions = ts.decisions;
            rep.max_depth = ts.max_depth;
            if ts.exec_cap_hit || ts.depth_cap_hits > 0 {
                rep.capped = true;
            }
            rep.full_tree = mode.preemption_bound.is_none() && !ts.exec_cap_hit && ts.depth_cap_hits == 0;
            if let Some((what, path)) = &ts.after_stop {
                viols.push(Violation {
                    kind: VKind::Contract,
                    culprit: "scheduler-called-after-None".into(),
                    family: F::NAME.into(),
                    program_idx: idx,
                    program: desc.clone(),
                    op_kinds: kinds.clone(),
                    what: what.clone(),
                    alts: alts_to_strings(path),
                    choices: path.iter().map(|n| n.idx).collect(),
                });
            }
        }
    }
    rep.traces_validated = validated;
    rep.impl_outcomes = impl_outcomes.len();
    rep.sample = sample;
    // abort timing is modelled loosely (cancellation at any later poll), so the model's outcome set
    // is an over-approximation for programs that abort: completeness is not judged there
    let has_abort = prog.threads.iter().flatten().any(|o| matches!(o, GOp::Abort(_)));
    if mode.complete && rep.full_tree && !ms.capped && rep.machinery_error.is_none() && !mode.stop_children && !has_abort {
        let missing: Vec<&Outcome<F::Res>> = m_strict_norm.iter().filter(|o| !impl_outcomes.contains(*o)).collect();
        // attribute to the recorded no-scheduling-point findings if the fused model explains them
        let known = no_sched_findings(prog);
        let mut attributed = false;
        if !missing.is_empty() && !known.is_empty() {
            let (fused, _) = model_outcomes_ex(prog, true, mode.max_model_states, true);
            let fused_norm: BTreeSet<Outcome<F::Res>> = fused.iter().map(|o| normalise(o, &model_panics)).collect();
            if fused_norm.iter().all(|o| impl_outcomes.contains(o)) {
                attributed = true;
                viols.push(Violation {
                    kind: VKind::Known(known.join("+")),
                    culprit: known.join("+"),
                    family: F::NAME.into(),
                    program_idx: idx,
                    program: desc.clone(),
                    op_kinds: kinds.clone(),
                    what: format!(
                        "{} outcome(s) of the sequentially consistent model are produced by none of the {} schedules, e.g. {:?}; all outcomes of the model with the listed operations fused to the preceding operation of their thread are produced",
                        missing.len(),
                        rep.executions,
                        missing[0]
                    ),
                    alts: vec![],
                    choices: vec![],
                });
            }
        }
        // ... or to a recorded semantic deviation of the primitive itself (a finding of another
        // property, described exactly by the family's weakened model): the inclusion is repeated
        // with the weakened model, alone and combined with the fused operations
        if !missing.is_empty() && !attributed {
            if let Some(name) = F::weakening(&prog.cfg) {
                for fused in [false, true] {
                    if fused && known.is_empty() {
                        continue;
                    }
                    let (wo, _) = with_weak(true, || model_outcomes_ex(prog, true, mode.max_model_states, fused));
                    let wn: BTreeSet<Outcome<F::Res>> = wo.iter().map(|o| normalise(o, &model_panics)).collect();
                    if std::env::var("VX_DEBUG_WEAK").is_ok() {
                        for o in wn.iter().filter(|o| !impl_outcomes.contains(*o)) {
                            eprintln!("weak(fused={}) outcome not produced: {:?}", fused, o);
                        }
                        for o in impl_outcomes.iter().filter(|o| !wn.contains(*o)) {
                            eprintln!("impl outcome not in weak(fused={}): {:?}", fused, o);
                        }
                    }
                    if wn.iter().all(|o| impl_outcomes.contains(o)) {
                        attributed = true;
                        let mut names = vec![name.to_string()];
                        if fused {
                            names.extend(known.iter().map(|k| k.to_string()));
                        }
                        viols.push(Violation {
                            kind: VKind::Known(names.join("+")),
                            culprit: names.join("+"),
                            family: F::NAME.into(),
                            program_idx: idx,
                            program: desc.clone(),
                            op_kinds: kinds.clone(),
                            what: format!(
                                "{} outcome(s) of the sequentially consistent model are produced by none of the {} schedules, e.g. {:?}; all outcomes of the weakened model (the recorded deviation of the primitive itself) are produced, so no interleaving is unreachable",
                                missing.len(),
                                rep.executions,
                                missing[0]
                            ),
                            alts: vec![],
                            choices: vec![],
                        });
                        break;
                    }
                }
            }
        }
        for o in &m_strict_norm {
            if attributed {
                break;
            }
            if !impl_outcomes.contains(o) {
                if viols.len() < maxv + 2 {
                    viols.push(Violation {
                        kind: VKind::Missing,
                        culprit: kinds.join("+"),
                        family: F::NAME.into(),
                        program_idx: idx,
                        program: desc.clone(),
                        op_kinds: kinds.clone(),
                        what: format!(
                            "outcome allowed by the sequentially consistent model but produced by none of the {} schedules: {:?}",
                            rep.executions, o
                        ),
                        alts: vec![],
                        choices: vec![],
                    });
                }
            }
        }
    }
    rep.violations = viols;
    rep
}

// ---------------------------------------------------------------------------------------------
// Type-erased family registry, worker processes, aggregation
// ---------------------------------------------------------------------------------------------

use std::io::{BufRead, BufReader, Write};
use std::process::{Command, Stdio};

impl Serialize for Mode {
    fn serialize<S: serde::Serializer>(&self, s: S) -> Result<S::Ok, S::Error> {
        serde_json::json!({
            "sound": self.sound, "complete": self.complete, "check_enabled": self.check_enabled,
            "preemption_bound": self.preemption_bound, "max_execs": self.max_execs,
            "max_model_states": self.max_model_states, "max_violations_per_program": self.max_violations_per_program,
            "max_programs": if self.max_programs == usize::MAX { serde_json::Value::Null } else { serde_json::json!(self.max_programs) },
            "stop_children": self.stop_children,
            "replay_check": self.replay_check,
            "seed": self.seed,
            "iso_check": self.iso_check,
            "iso_max_b": self.iso_max_b,
            "clock_check": self.clock_check,
            "clock_all_targets": self.clock_all_targets,
            "stride": self.stride,
            "skip_first": self.skip_first,
        })
        .serialize(s)
    }
}

pub fn mode_from_json(v: &serde_json::Value) -> Mode {
    Mode {
        sound: v["sound"].as_bool().unwrap(),
        complete: v["complete"].as_bool().unwrap(),
        check_enabled: v["check_enabled"].as_bool().unwrap(),
        preemption_bound: v["preemption_bound"].as_u64().map(|x| x as usize),
        max_execs: v["max_execs"].as_u64().unwrap(),
        max_model_states: v["max_model_states"].as_u64().unwrap() as usize,
        max_violations_per_program: v["max_violations_per_program"].as_u64().unwrap() as usize,
        max_programs: v["max_programs"].as_u64().map(|x| x as usize).unwrap_or(usize::MAX),
        stop_children: v["stop_children"].as_bool().unwrap_or(false),
        replay_check: v["replay_check"].as_bool().unwrap_or(false),
        seed: v["seed"].as_u64().unwrap_or(0),
        iso_check: v["iso_check"].as_bool().unwrap_or(false),
        iso_max_b: v["iso_max_b"].as_u64().unwrap_or(0) as usize,
        clock_check: v["clock_check"].as_bool().unwrap_or(false),
        clock_all_targets: v["clock_all_targets"].as_bool().unwrap_or(false),
        stride: v["stride"].as_u64().unwrap_or(1).max(1) as usize,
        skip_first: v["skip_first"].as_u64().unwrap_or(0) as usize,
    }
}

pub trait FamilyDyn {
    fn name(&self) -> &'static str;
    fn len(&self, set: &str) -> usize;
    fn check_idx(&self, set: &str, idx: usize, mode: &Mode) -> ProgReport;
    fn describe(&self, set: &str, idx: usize) -> String;
    /// Re-execute one schedule of one program with the fixed-sequence scheduler; prints the observation.
    fn replay(&self, set: &str, idx: usize, alts: &[Alt]) -> String;
}

pub struct FamRunner<F: Family> {
    pub gen: fn(&str) -> Vec<Program<F>>,
    pub cache: std::cell::RefCell<Option<(String, std::rc::Rc<Vec<Program<F>>>)>>,
}

impl<F: Family> FamRunner<F> {
    pub fn new(gen: fn(&str) -> Vec<Program<F>>) -> Self {
        FamRunner {
            gen,
            cache: std::cell::RefCell::new(None),
        }
    }
    pub fn progs(&self, set: &str) -> std::rc::Rc<Vec<Program<F>>> {
        crate::prog::set_alt_api(set.ends_with("-alt"));
        let mut c = self.cache.borrow_mut();
        if let Some((s, p)) = c.as_ref() {
            if s == set {
                return p.clone();
            }
        }
        let p = std::rc::Rc::new((self.gen)(set));
        *c = Some((set.to_string(), p.clone()));
        p
    }
}

impl<F: Family> FamilyDyn for FamRunner<F> {
    fn name(&self) -> &'static str {
        F::NAME
    }
    fn len(&self, set: &str) -> usize {
        self.progs(set).len()
    }
    fn check_idx(&self, set: &str, idx: usize, mode: &Mode) -> ProgReport {
        let progs = self.progs(set);
        if mode.iso_check && progs.len() > 1 {
            let other: Program<F> = progs[(idx + 1) % progs.len()].clone();
            ISO_OTHER.with(|o| *o.borrow_mut() = Some(Box::new(other)));
        }
        check_program(idx, &progs[idx], mode)
    }
    fn describe(&self, set: &str, idx: usize) -> String {
        self.progs(set)[idx].describe()
    }
    fn replay(&self, set: &str, idx: usize, alts: &[Alt]) -> String {
        let p = &self.progs(set)[idx];
        let arc = Arc::new(SS(p.clone()));
        let fs = crate::explore::FixedScheduler::new(alts.to_vec(), 0);
        let mm = fs.mismatch.clone();
        let (log, ending) = run_once::<F, _>(&arc, fs, &base_config());
        let mut s = format!("program: {}\nschedule: {:?}\n", p.describe(), alts);
        for e in &log {
            s.push_str(&format!("  step {:>3} thread {} (task {}) op {} {:?}\n", e.stamp, e.thread, e.task, e.op, e.kind));
        }
        s.push_str(&format!("ending: {:?}\n", ending));
        if let Some(m) = mm.borrow().as_ref() {
            s.push_str(&format!("REPLAY MISMATCH: {}\n", m));
        }
        s
    }
}

#[derive(Default, Debug, Clone)]
pub struct FamAgg {
    pub family: String,
    pub set: String,
    pub programs_total: usize,
    pub programs_run: usize,
    pub programs_full_tree: usize,
    pub programs_nontrivial: usize,
    pub executions: u64,
    pub decisions: u64,
    pub max_depth: usize,
    pub model_states: u64,
    pub model_transitions: u64,
    pub traces_validated: u64,
    pub capped_programs: usize,
    pub skipped_deadline: usize,
    pub violations: Vec<Violation>,
    pub samples: Vec<serde_json::Value>,
    pub machinery_errors: Vec<String>,
    /// (executions, program index) of the heaviest programs
    pub heaviest: Vec<(u64, usize)>,
    /// histogram of executions per program: <10, <100, <1k, <10k, <100k, >=100k
    pub histo: [usize; 6],
}

/// Worker body: check programs idx ≡ shard (mod nshards), idx ≥ from; print B/E lines.
pub fn worker_main(fam: &dyn FamilyDyn, set: &str, mode: &Mode, shard: usize, nshards: usize, from: usize, only: Option<usize>, deadline_s: f64) {
    let loud = std::env::var("VX_WORKER_LOUD").is_ok();
    let mut orig = if loud { std::fs::File::create("/dev/null").unwrap() } else { crate::common::mute_stderr() };
    if !loud {
        crate::common::silence_panics();
    }
    let t0 = std::time::Instant::now();
    let n = fam.len(set).min(mode.max_programs);
    let out = std::io::stdout();
    let idxs: Vec<usize> = match only {
        Some(i) => vec![i],
        None => (from..n).filter(|i| *i >= mode.skip_first && i % mode.stride == 0 && (i / mode.stride) % nshards == shard).collect(),
    };
    for idx in idxs {
        if t0.elapsed().as_secs_f64() > deadline_s {
            let mut o = out.lock();
            let _ = writeln!(o, "S {}", idx);
            continue;
        }
        {
            let mut o = out.lock();
            let _ = writeln!(o, "B {}", idx);
            let _ = o.flush();
        }
        let rep = fam.check_idx(set, idx, mode);
        let mut o = out.lock();
        let _ = writeln!(o, "E {}", serde_json::to_string(&rep).unwrap());
        let _ = o.flush();
    }
    let _ = writeln!(orig, "worker {}/{} of {}:{} done in {:?}", shard, nshards, fam.name(), set, t0.elapsed());
}

fn spawn_worker(fam: &str, set: &str, mode: &Mode, shard: usize, nshards: usize, from: usize, only: Option<usize>, deadline_s: f64) -> std::process::Child {
    let exe = Ok::<std::path::PathBuf, std::io::Error>(std::path::PathBuf::from("/proc/self/exe")).expect("current_exe");
    let mut c = Command::new(exe);
    c.arg("worker")
        .arg(fam)
        .arg(set)
        .arg(serde_json::to_string(mode).unwrap())
        .arg(shard.to_string())
        .arg(nshards.to_string())
        .arg(from.to_string())
        .arg(match only {
            Some(i) => i.to_string(),
            None => "-".into(),
        })
        .arg(format!("{}", deadline_s))
        .stdout(Stdio::piped())
        .stderr(Stdio::null())
        .stdin(Stdio::null());
    c.spawn().expect("spawn worker")
}

/// Run one family/set in `nshards` worker processes and aggregate. A worker that dies is attributed
/// to the program it was running, which is re-run alone to confirm; the shard then continues.
pub fn run_family(fam: &dyn FamilyDyn, set: &str, mode: &Mode, nshards: usize, deadline_s: f64) -> FamAgg {
    let upto = fam.len(set).min(mode.max_programs);
    let total = (0..upto).filter(|i| *i >= mode.skip_first && i % mode.stride == 0).count();
    let mut agg = FamAgg {
        family: fam.name().to_string(),
        set: set.to_string(),
        programs_total: total,
        ..Default::default()
    };
    let nshards = nshards.min(total.max(1));
    let t0 = std::time::Instant::now();
    let handles: Vec<std::thread::JoinHandle<(Vec<ProgReport>, Vec<usize>, Vec<(usize, String)>)>> = (0..nshards)
        .map(|shard| {
            let famname = fam.name().to_string();
            let set = set.to_string();
            let mode = mode.clone();
            std::thread::spawn(move || {
                let mut reports = Vec::new();
                let mut skipped = Vec::new();
                let mut aborts: Vec<(usize, String)> = Vec::new();
                let mut from = 0usize;
                loop {
                    let remaining = deadline_s - t0.elapsed().as_secs_f64();
                    let mut child = spawn_worker(&famname, &set, &mode, shard, nshards, from, None, remaining.max(0.0));
                    let rd = BufReader::new(child.stdout.take().unwrap());
                    let mut current: Option<usize> = None;
                    for line in rd.lines() {
                        let line = match line {
                            Ok(l) => l,
                            Err(_) => break,
                        };
                        if let Some(r) = line.strip_prefix("B ") {
                            current = r.trim().parse().ok();
                        } else if let Some(r) = line.strip_prefix("S ") {
                            if let Ok(i) = r.trim().parse() {
                                skipped.push(i);
                            }
                        } else if let Some(r) = line.strip_prefix("E ") {
                            if let Ok(rep) = serde_json::from_str::<ProgReport>(r) {
                                reports.push(rep);
                            }
                            current = None;
                        }
                    }
                    let status = child.wait().expect("wait worker");
                    if status.success() && current.is_none() {
                        break;
                    }
                    // the worker died while running `current`
                    match current {
                        Some(idx) => {
                            // confirm alone
                            let mut c2 = spawn_worker(&famname, &set, &mode, 0, 1, 0, Some(idx), 1e9);
                            let rd2 = BufReader::new(c2.stdout.take().unwrap());
                            let mut got = None;
                            for line in rd2.lines().flatten() {
                                if let Some(r) = line.strip_prefix("E ") {
                                    got = serde_json::from_str::<ProgReport>(r).ok();
                                }
                            }
                            let st2 = c2.wait().expect("wait worker");
                            match (st2.success(), got) {
                                (true, Some(rep)) => {
                                    // not reproducible alone: machinery problem, keep the report but flag it
                                    let mut rep = rep;
                                    rep.machinery_error = Some(format!(
                                        "worker died ({:?}) on program {} in a shard but not when re-run alone",
                                        status, idx
                                    ));
                                    reports.push(rep);
                                }
                                _ => {
                                    aborts.push((idx, format!("{:?} / alone: {:?}", status, st2)));
                                }
                            }
                            from = idx + 1;
                        }
                        None => {
                            aborts.push((usize::MAX, format!("worker for shard {} failed outside any program: {:?}", shard, status)));
                            break;
                        }
                    }
                }
                (reports, skipped, aborts)
            })
        })
        .collect();
    for h in handles {
        let (reports, skipped, aborts) = h.join().expect("shard thread");
        agg.skipped_deadline += skipped.len();
        for (idx, what) in aborts {
            if idx == usize::MAX {
                agg.machinery_errors.push(what);
            } else {
                agg.violations.push(Violation {
                    kind: VKind::Abort,
                    culprit: "abort".into(),
                    family: fam.name().into(),
                    program_idx: idx,
                    program: fam.describe(set, idx),
                    op_kinds: vec![],
                    what: format!("the process running this program was killed (abort / double panic): {}", what),
                    alts: vec![],
                    choices: vec![],
                });
            }
        }
        for r in reports {
            agg.programs_run += 1;
            if r.full_tree {
                agg.programs_full_tree += 1;
            }
            if r.impl_outcomes >= 2 {
                agg.programs_nontrivial += 1;
            }
            agg.executions += r.executions;
            agg.heaviest.push((r.executions, r.idx));
            let b = match r.executions {
                0..=9 => 0,
                10..=99 => 1,
                100..=999 => 2,
                1000..=9999 => 3,
                10000..=99999 => 4,
                _ => 5,
            };
            agg.histo[b] += 1;
            agg.decisions += r.decisions;
            agg.max_depth = agg.max_depth.max(r.max_depth);
            agg.model_states += r.model_states;
            agg.model_transitions += r.model_transitions;
            agg.traces_validated += r.traces_validated;
            if r.capped {
                agg.capped_programs += 1;
            }
            if let Some(e) = r.machinery_error {
                agg.machinery_errors.push(e);
            }
            if let Some(s) = r.sample {
                if agg.samples.len() < 3 && r.executions > 4 {
                    agg.samples.push(s);
                }
            }
            agg.violations.extend(r.violations);
        }
    }
    agg.violations.sort_by_key(|v| (v.program_idx, v.alts.len()));
    agg.heaviest.sort_by(|a, b| b.cmp(a));
    agg.heaviest.truncate(5);
    agg
}

impl FamAgg {
    pub fn to_json(&self) -> serde_json::Value {
        serde_json::json!({
            "family": self.family, "set": self.set,
            "programs_total": self.programs_total, "programs_run": self.programs_run,
            "programs_full_tree": self.programs_full_tree,
            "programs_with_2plus_outcomes": self.programs_nontrivial,
            "executions": self.executions, "decisions": self.decisions, "max_depth": self.max_depth,
            "model_states": self.model_states, "model_transitions": self.model_transitions,
            "traces_validated_against_impl": self.traces_validated,
            "capped_programs": self.capped_programs, "skipped_deadline": self.skipped_deadline,
            "violations": self.violations.len(),
            "executions_per_program_histogram(<10,<100,<1k,<10k,<100k,more)": self.histo,
            "heaviest_programs(executions,index)": self.heaviest,
        })
    }
}
