//! Generic per-family driver: for each generated program, explicit-state check of the model,
//! exhaustive exploration of the implementation (E1), co-simulation of every execution, outcome-set
//! comparison.  Also: worker-process sharding, report aggregation.

use crate::explore::{Alt, Options};
use crate::prog::*;
use serde::{Deserialize, Serialize};
use std::collections::BTreeSet;
use std::sync::Arc;

#[derive(Clone, Debug, Serialize, Deserialize, PartialEq, Eq)]
pub enum VKind {
    /// a return value / step the model does not allow (primitive's own property)
    Sound,
    /// a thread the model can run is not offered (lost wake-up / missing task) — primitive's property and C08
    Enabled,
    /// ending (ok / deadlock set / panic) not allowed by the model — C03 and primitive's property
    Ending,
    /// user code ran outside the chosen task's step, unknown task — C08
    Contract,
    /// an outcome of the strict model that no schedule produces — C02
    Missing,
    /// the process died (abort) while running this program
    Abort,
    /// rejected by the reference model but explained by the family's weakened model = the named,
    /// recorded finding
    Known(String),
    /// extra monitors
    Other(String),
}

#[derive(Clone, Debug, Serialize, Deserialize)]
pub struct Violation {
    pub kind: VKind,
    #[serde(default)]
    pub culprit: String,
    pub family: String,
    pub program_idx: usize,
    pub program: String,
    /// op kinds (Debug names without arguments) occurring in the program — used for known-finding keys
    pub op_kinds: Vec<String>,
    pub what: String,
    /// alternatives taken (replayable with FixedScheduler)
    pub alts: Vec<String>,
    pub choices: Vec<usize>,
}

#[derive(Clone, Debug, Default, Serialize, Deserialize)]
pub struct ProgReport {
    pub idx: usize,
    pub executions: u64,
    pub decisions: u64,
    pub max_depth: usize,
    pub model_states: u64,
    pub model_transitions: u64,
    pub model_outcomes: usize,
    pub impl_outcomes: usize,
    pub traces_validated: u64,
    pub full_tree: bool,
    pub capped: bool,
    pub violations: Vec<Violation>,
    pub sample: Option<serde_json::Value>,
    pub machinery_error: Option<String>,
}

#[derive(Clone, Debug)]
pub struct Mode {
    pub sound: bool,
    pub complete: bool,
    pub check_enabled: bool,
    pub preemption_bound: Option<usize>,
    pub max_execs: u64,
    pub max_model_states: usize,
    pub max_violations_per_program: usize,
    /// only the first N programs of the set (simplest first)
    pub max_programs: usize,
    /// additionally explore "scheduler returns None here" at every decision
    pub stop_children: bool,
}

impl Default for Mode {
    fn default() -> Self {
        Mode {
            sound: true,
            complete: true,
            check_enabled: true,
            preemption_bound: None,
            max_execs: 300_000,
            max_model_states: 2_000_000,
            max_violations_per_program: 3,
            max_programs: usize::MAX,
            stop_children: false,
        }
    }
}

pub fn op_kind_name(dbg: &str) -> String {
    dbg.split(|c: char| c == '(' || c == '{' || c == ' ').next().unwrap_or("").to_string()
}

pub fn op_kinds<F: Family>(p: &Program<F>) -> Vec<String> {
    let mut s = BTreeSet::new();
    for t in &p.threads {
        for o in t {
            match o {
                GOp::Op(o) => {
                    s.insert(op_kind_name(&format!("{:?}", o)));
                }
                GOp::Spawn(_) => {
                    s.insert("Spawn".into());
                }
                GOp::Join(_) => {
                    s.insert("Join".into());
                }
                GOp::ScopeBegin(_) => {
                    s.insert("ScopeBegin".into());
                }
                GOp::ScopeEnd => {
                    s.insert("ScopeEnd".into());
                }
                GOp::Abort(_) => {
                    s.insert("Abort".into());
                }
                GOp::Detach(_) => {
                    s.insert("Detach".into());
                }
                GOp::IsFinished(_) => {
                    s.insert("IsFinished".into());
                }
            }
        }
    }
    s.into_iter().collect()
}

pub fn alts_to_strings(path: &[crate::explore::Node]) -> Vec<String> {
    path.iter()
        .map(|n| match n.chosen() {
            Alt::Task(t) => format!("T{}", t),
            Alt::Stop => "STOP".into(),
            Alt::Rand(v) => format!("R{}", v),
        })
        .collect()
}

pub fn strings_to_alts(v: &[String]) -> Vec<Alt> {
    v.iter()
        .map(|s| {
            if s == "STOP" {
                Alt::Stop
            } else if let Some(r) = s.strip_prefix('T') {
                Alt::Task(r.parse().unwrap())
            } else if let Some(r) = s.strip_prefix('R') {
                Alt::Rand(r.parse().unwrap())
            } else {
                panic!("bad alt {}", s)
            }
        })
        .collect()
}

/// Normalise an implementation outcome for comparison with model outcomes.
fn normalise<R: Ord + Clone>(o: &Outcome<R>, model_panics: &[String]) -> Outcome<R> {
    match &o.ending {
        Ending::Panic(msg) => {
            let cls = model_panics
                .iter()
                .find(|c| msg.contains(c.as_str()))
                .cloned()
                .unwrap_or_else(|| msg.clone());
            Outcome {
                res: vec![],
                ending: Ending::Panic(cls),
            }
        }
        _ => o.clone(),
    }
}

thread_local! {
    pub static COSIM_NANOS: std::cell::Cell<u64> = const { std::cell::Cell::new(0) };
}

pub fn check_program<F: Family>(idx: usize, prog: &Program<F>, mode: &Mode) -> ProgReport {
    let mut rep = ProgReport {
        idx,
        ..Default::default()
    };
    let kinds = op_kinds(prog);
    let desc = prog.describe();

    // explicit-state exploration of the model
    let (m_strict, ms) = model_outcomes(prog, true, mode.max_model_states);
    rep.model_states = ms.states;
    rep.model_transitions = ms.transitions;
    rep.model_outcomes = m_strict.len();
    if ms.capped {
        rep.capped = true;
    }
    let model_panics: Vec<String> = m_strict
        .iter()
        .filter_map(|o| match &o.ending {
            Ending::Panic(c) => Some(c.clone()),
            _ => None,
        })
        .collect();
    let m_strict_norm: BTreeSet<Outcome<F::Res>> = m_strict.iter().map(|o| normalise(o, &model_panics)).collect();

    let arc = Arc::new(SS(prog.clone()));
    let opts = Options {
        preemption_bound: mode.preemption_bound,
        stop_children: mode.stop_children,
        ..Options::default()
    };
    let mut impl_outcomes: BTreeSet<Outcome<F::Res>> = BTreeSet::new();
    let mut mc: MCache<F> = MCache::new(prog, false);
    let weakening = F::weakening(&prog.cfg);
    let mut mc_weak: Option<MCache<F>> = weakening.map(|_| with_weak(true, || MCache::new(prog, false)));
    let mut viols: Vec<Violation> = Vec::new();
    let mut validated = 0u64;
    let mut sample: Option<serde_json::Value> = None;
    let maxv = mode.max_violations_per_program;
    let mut known_hits = 0usize;
    let r = explore_program::<F>(&arc, opts, mode.max_execs, |rec, _ex| {
        let tc = std::time::Instant::now();
        let cr = cosim(prog, &mut mc, rec, mode.check_enabled);
        COSIM_NANOS.with(|c| c.set(c.get() + tc.elapsed().as_nanos() as u64));
        if cr.fail.is_none() {
            validated += 1;
        }
        if sample.is_none() || (rec.path.len() > 6 && validated % 97 == 1) {
            sample = Some(serde_json::json!({
                "program": desc,
                "schedule": alts_to_strings(&rec.path),
                "log": rec.log.iter().filter(|e| matches!(e.kind, EKind::Ret(_))).map(|e| format!("t{}#{}@{}:{:?}", e.thread, e.op, e.stamp, e.kind)).collect::<Vec<_>>(),
                "ending": format!("{:?}", cr.outcome.ending),
            }));
        }
        if cr.fail.is_none() && mode.sound && viols.len() < maxv {
            if let Some((culprit, what)) = F::monitor(prog, rec) {
                viols.push(Violation {
                    kind: VKind::Sound,
                    culprit,
                    family: F::NAME.into(),
                    program_idx: idx,
                    program: desc.clone(),
                    op_kinds: kinds.clone(),
                    what,
                    alts: alts_to_strings(&rec.path),
                    choices: rec.path.iter().map(|n| n.idx).collect(),
                });
            }
        }
        if let Some(f) = &cr.fail {
            // does the weakened model (reference + recorded defect) explain this execution?
            let mut explained = false;
            if let (Some(mw), Some(name)) = (mc_weak.as_mut(), weakening) {
                let cw = with_weak(true, || cosim(prog, mw, rec, mode.check_enabled));
                if cw.fail.is_none() {
                    explained = true;
                    if mode.sound && known_hits < 2 {
                        known_hits += 1;
                        viols.push(Violation {
                            kind: VKind::Known(name.to_string()),
                            culprit: name.to_string(),
                            family: F::NAME.into(),
                            program_idx: idx,
                            program: desc.clone(),
                            op_kinds: kinds.clone(),
                            what: format!("{} [ending observed: {:?}] — explained by the weakened model", f.what, rec.raw_ending),
                            alts: alts_to_strings(&rec.path),
                            choices: rec.path.iter().map(|n| n.idx).collect(),
                        });
                    }
                }
            }
            if !explained && mode.sound && viols.len() < maxv + 2 {
                let kind = match f.kind {
                    FailKind::Ending => VKind::Ending,
                    FailKind::Enabled => VKind::Enabled,
                    FailKind::Contract => VKind::Contract,
                    FailKind::Ret => VKind::Sound,
                };
                viols.push(Violation {
                    kind,
                    culprit: f.culprit.clone(),
                    family: F::NAME.into(),
                    program_idx: idx,
                    program: desc.clone(),
                    op_kinds: kinds.clone(),
                    what: format!("{} [ending observed: {:?}]", f.what, rec.raw_ending),
                    alts: alts_to_strings(&rec.path),
                    choices: rec.path.iter().map(|n| n.idx).collect(),
                });
            }
        }
        impl_outcomes.insert(normalise(&cr.outcome, &model_panics));
    });
    match r {
        Err(e) => {
            rep.machinery_error = Some(e);
        }
        Ok(ts) => {
            rep.executions = ts.executions;
            rep.decisions = ts.decisions;
            rep.max_depth = ts.max_depth;
            if ts.exec_cap_hit || ts.depth_cap_hits > 0 {
                rep.capped = true;
            }
            rep.full_tree = mode.preemption_bound.is_none() && !ts.exec_cap_hit && ts.depth_cap_hits == 0;
        }
    }
    rep.traces_validated = validated;
    rep.impl_outcomes = impl_outcomes.len();
    rep.sample = sample;
    // abort timing is modelled loosely (cancellation at any later poll), so the model's outcome set
    // is an over-approximation for programs that abort: completeness is not judged there
    let has_abort = prog.threads.iter().flatten().any(|o| matches!(o, GOp::Abort(_)));
    if mode.complete && rep.full_tree && !ms.capped && rep.machinery_error.is_none() && !mode.stop_children && !has_abort {
        let missing: Vec<&Outcome<F::Res>> = m_strict_norm.iter().filter(|o| !impl_outcomes.contains(*o)).collect();
        // attribute to the recorded no-scheduling-point findings if the fused model explains them
        let known = no_sched_findings(prog);
        let mut attributed = false;
        if !missing.is_empty() && !known.is_empty() {
            let (fused, _) = model_outcomes_ex(prog, true, mode.max_model_states, true);
            let fused_norm: BTreeSet<Outcome<F::Res>> = fused.iter().map(|o| normalise(o, &model_panics)).collect();
            if fused_norm.iter().all(|o| impl_outcomes.contains(o)) {
                attributed = true;
                viols.push(Violation {
                    kind: VKind::Known(known.join("+")),
                    culprit: known.join("+"),
                    family: F::NAME.into(),
                    program_idx: idx,
                    program: desc.clone(),
                    op_kinds: kinds.clone(),
                    what: format!(
                        "{} outcome(s) of the sequentially consistent model are produced by none of the {} schedules, e.g. {:?}; all outcomes of the model with the listed operations fused to the preceding operation of their thread are produced",
                        missing.len(),
                        rep.executions,
                        missing[0]
                    ),
                    alts: vec![],
                    choices: vec![],
                });
            }
        }
        for o in &m_strict_norm {
            if attributed {
                break;
            }
            if !impl_outcomes.contains(o) {
                if viols.len() < maxv + 2 {
                    viols.push(Violation {
                        kind: VKind::Missing,
                        culprit: kinds.join("+"),
                        family: F::NAME.into(),
                        program_idx: idx,
                        program: desc.clone(),
                        op_kinds: kinds.clone(),
                        what: format!(
                            "outcome allowed by the sequentially consistent model but produced by none of the {} schedules: {:?}",
                            rep.executions, o
                        ),
                        alts: vec![],
                        choices: vec![],
                    });
                }
            }
        }
    }
    rep.violations = viols;
    rep
}

// ---------------------------------------------------------------------------------------------
// Type-erased family registry, worker processes, aggregation
// ---------------------------------------------------------------------------------------------

use std::io::{BufRead, BufReader, Write};
use std::process::{Command, Stdio};

impl Serialize for Mode {
    fn serialize<S: serde::Serializer>(&self, s: S) -> Result<S::Ok, S::Error> {
        serde_json::json!({
            "sound": self.sound, "complete": self.complete, "check_enabled": self.check_enabled,
            "preemption_bound": self.preemption_bound, "max_execs": self.max_execs,
            "max_model_states": self.max_model_states, "max_violations_per_program": self.max_violations_per_program,
            "max_programs": if self.max_programs == usize::MAX { serde_json::Value::Null } else { serde_json::json!(self.max_programs) },
            "stop_children": self.stop_children,
        })
        .serialize(s)
    }
}

pub fn mode_from_json(v: &serde_json::Value) -> Mode {
    Mode {
        sound: v["sound"].as_bool().unwrap(),
        complete: v["complete"].as_bool().unwrap(),
        check_enabled: v["check_enabled"].as_bool().unwrap(),
        preemption_bound: v["preemption_bound"].as_u64().map(|x| x as usize),
        max_execs: v["max_execs"].as_u64().unwrap(),
        max_model_states: v["max_model_states"].as_u64().unwrap() as usize,
        max_violations_per_program: v["max_violations_per_program"].as_u64().unwrap() as usize,
        max_programs: v["max_programs"].as_u64().map(|x| x as usize).unwrap_or(usize::MAX),
        stop_children: v["stop_children"].as_bool().unwrap_or(false),
    }
}

pub trait FamilyDyn {
    fn name(&self) -> &'static str;
    fn len(&self, set: &str) -> usize;
    fn check_idx(&self, set: &str, idx: usize, mode: &Mode) -> ProgReport;
    fn describe(&self, set: &str, idx: usize) -> String;
    /// Re-execute one schedule of one program with the fixed-sequence scheduler; prints the observation.
    fn replay(&self, set: &str, idx: usize, alts: &[Alt]) -> String;
}

pub struct FamRunner<F: Family> {
    pub gen: fn(&str) -> Vec<Program<F>>,
    pub cache: std::cell::RefCell<Option<(String, std::rc::Rc<Vec<Program<F>>>)>>,
}

impl<F: Family> FamRunner<F> {
    pub fn new(gen: fn(&str) -> Vec<Program<F>>) -> Self {
        FamRunner {
            gen,
            cache: std::cell::RefCell::new(None),
        }
    }
    pub fn progs(&self, set: &str) -> std::rc::Rc<Vec<Program<F>>> {
        let mut c = self.cache.borrow_mut();
        if let Some((s, p)) = c.as_ref() {
            if s == set {
                return p.clone();
            }
        }
        let p = std::rc::Rc::new((self.gen)(set));
        *c = Some((set.to_string(), p.clone()));
        p
    }
}

impl<F: Family> FamilyDyn for FamRunner<F> {
    fn name(&self) -> &'static str {
        F::NAME
    }
    fn len(&self, set: &str) -> usize {
        self.progs(set).len()
    }
    fn check_idx(&self, set: &str, idx: usize, mode: &Mode) -> ProgReport {
        check_program(idx, &self.progs(set)[idx], mode)
    }
    fn describe(&self, set: &str, idx: usize) -> String {
        self.progs(set)[idx].describe()
    }
    fn replay(&self, set: &str, idx: usize, alts: &[Alt]) -> String {
        let p = &self.progs(set)[idx];
        let arc = Arc::new(SS(p.clone()));
        let fs = crate::explore::FixedScheduler::new(alts.to_vec(), 0);
        let mm = fs.mismatch.clone();
        let (log, ending) = run_once::<F, _>(&arc, fs, &base_config());
        let mut s = format!("program: {}\nschedule: {:?}\n", p.describe(), alts);
        for e in &log {
            s.push_str(&format!("  step {:>3} thread {} (task {}) op {} {:?}\n", e.stamp, e.thread, e.task, e.op, e.kind));
        }
        s.push_str(&format!("ending: {:?}\n", ending));
        if let Some(m) = mm.borrow().as_ref() {
            s.push_str(&format!("REPLAY MISMATCH: {}\n", m));
        }
        s
    }
}

#[derive(Default, Debug, Clone)]
pub struct FamAgg {
    pub family: String,
    pub set: String,
    pub programs_total: usize,
    pub programs_run: usize,
    pub programs_full_tree: usize,
    pub programs_nontrivial: usize,
    pub executions: u64,
    pub decisions: u64,
    pub max_depth: usize,
    pub model_states: u64,
    pub model_transitions: u64,
    pub traces_validated: u64,
    pub capped_programs: usize,
    pub skipped_deadline: usize,
    pub violations: Vec<Violation>,
    pub samples: Vec<serde_json::Value>,
    pub machinery_errors: Vec<String>,
    /// (executions, program index) of the heaviest programs
    pub heaviest: Vec<(u64, usize)>,
    /// histogram of executions per program: <10, <100, <1k, <10k, <100k, >=100k
    pub histo: [usize; 6],
}

/// Worker body: check programs idx ≡ shard (mod nshards), idx ≥ from; print B/E lines.
pub fn worker_main(fam: &dyn FamilyDyn, set: &str, mode: &Mode, shard: usize, nshards: usize, from: usize, only: Option<usize>, deadline_s: f64) {
    let mut orig = crate::common::mute_stderr();
    crate::common::silence_panics();
    let t0 = std::time::Instant::now();
    let n = fam.len(set).min(mode.max_programs);
    let out = std::io::stdout();
    let idxs: Vec<usize> = match only {
        Some(i) => vec![i],
        None => (from..n).filter(|i| i % nshards == shard).collect(),
    };
    for idx in idxs {
        if t0.elapsed().as_secs_f64() > deadline_s {
            let mut o = out.lock();
            let _ = writeln!(o, "S {}", idx);
            continue;
        }
        {
            let mut o = out.lock();
            let _ = writeln!(o, "B {}", idx);
            let _ = o.flush();
        }
        let rep = fam.check_idx(set, idx, mode);
        let mut o = out.lock();
        let _ = writeln!(o, "E {}", serde_json::to_string(&rep).unwrap());
        let _ = o.flush();
    }
    let _ = writeln!(orig, "worker {}/{} of {}:{} done in {:?}", shard, nshards, fam.name(), set, t0.elapsed());
}

fn spawn_worker(fam: &str, set: &str, mode: &Mode, shard: usize, nshards: usize, from: usize, only: Option<usize>, deadline_s: f64) -> std::process::Child {
    let exe = std::env::current_exe().expect("current_exe");
    let mut c = Command::new(exe);
    c.arg("worker")
        .arg(fam)
        .arg(set)
        .arg(serde_json::to_string(mode).unwrap())
        .arg(shard.to_string())
        .arg(nshards.to_string())
        .arg(from.to_string())
        .arg(match only {
            Some(i) => i.to_string(),
            None => "-".into(),
        })
        .arg(format!("{}", deadline_s))
        .stdout(Stdio::piped())
        .stderr(Stdio::null())
        .stdin(Stdio::null());
    c.spawn().expect("spawn worker")
}

/// Run one family/set in `nshards` worker processes and aggregate. A worker that dies is attributed
/// to the program it was running, which is re-run alone to confirm; the shard then continues.
pub fn run_family(fam: &dyn FamilyDyn, set: &str, mode: &Mode, nshards: usize, deadline_s: f64) -> FamAgg {
    let total = fam.len(set).min(mode.max_programs);
    let mut agg = FamAgg {
        family: fam.name().to_string(),
        set: set.to_string(),
        programs_total: total,
        ..Default::default()
    };
    let nshards = nshards.min(total.max(1));
    let t0 = std::time::Instant::now();
    let handles: Vec<std::thread::JoinHandle<(Vec<ProgReport>, Vec<usize>, Vec<(usize, String)>)>> = (0..nshards)
        .map(|shard| {
            let famname = fam.name().to_string();
            let set = set.to_string();
            let mode = mode.clone();
            std::thread::spawn(move || {
                let mut reports = Vec::new();
                let mut skipped = Vec::new();
                let mut aborts: Vec<(usize, String)> = Vec::new();
                let mut from = 0usize;
                loop {
                    let remaining = deadline_s - t0.elapsed().as_secs_f64();
                    let mut child = spawn_worker(&famname, &set, &mode, shard, nshards, from, None, remaining.max(0.0));
                    let rd = BufReader::new(child.stdout.take().unwrap());
                    let mut current: Option<usize> = None;
                    for line in rd.lines() {
                        let line = match line {
                            Ok(l) => l,
                            Err(_) => break,
                        };
                        if let Some(r) = line.strip_prefix("B ") {
                            current = r.trim().parse().ok();
                        } else if let Some(r) = line.strip_prefix("S ") {
                            if let Ok(i) = r.trim().parse() {
                                skipped.push(i);
                            }
                        } else if let Some(r) = line.strip_prefix("E ") {
                            if let Ok(rep) = serde_json::from_str::<ProgReport>(r) {
                                reports.push(rep);
                            }
                            current = None;
                        }
                    }
                    let status = child.wait().expect("wait worker");
                    if status.success() && current.is_none() {
                        break;
                    }
                    // the worker died while running `current`
                    match current {
                        Some(idx) => {
                            // confirm alone
                            let mut c2 = spawn_worker(&famname, &set, &mode, 0, 1, 0, Some(idx), 1e9);
                            let rd2 = BufReader::new(c2.stdout.take().unwrap());
                            let mut got = None;
                            for line in rd2.lines().flatten() {
                                if let Some(r) = line.strip_prefix("E ") {
                                    got = serde_json::from_str::<ProgReport>(r).ok();
                                }
                            }
                            let st2 = c2.wait().expect("wait worker");
                            match (st2.success(), got) {
                                (true, Some(rep)) => {
                                    // not reproducible alone: machinery problem, keep the report but flag it
                                    let mut rep = rep;
                                    rep.machinery_error = Some(format!(
                                        "worker died ({:?}) on program {} in a shard but not when re-run alone",
                                        status, idx
                                    ));
                                    reports.push(rep);
                                }
                                _ => {
                                    aborts.push((idx, format!("{:?} / alone: {:?}", status, st2)));
                                }
                            }
                            from = idx + 1;
                        }
                        None => {
                            aborts.push((usize::MAX, format!("worker for shard {} failed outside any program: {:?}", shard, status)));
                            break;
                        }
                    }
                }
                (reports, skipped, aborts)
            })
        })
        .collect();
    for h in handles {
        let (reports, skipped, aborts) = h.join().expect("shard thread");
        agg.skipped_deadline += skipped.len();
        for (idx, what) in aborts {
            if idx == usize::MAX {
                agg.machinery_errors.push(what);
            } else {
                agg.violations.push(Violation {
                    kind: VKind::Abort,
                    culprit: "abort".into(),
                    family: fam.name().into(),
                    program_idx: idx,
                    program: fam.describe(set, idx),
                    op_kinds: vec![],
                    what: format!("the process running this program was killed (abort / double panic): {}", what),
                    alts: vec![],
                    choices: vec![],
                });
            }
        }
        for r in reports {
            agg.programs_run += 1;
            if r.full_tree {
                agg.programs_full_tree += 1;
            }
            if r.impl_outcomes >= 2 {
                agg.programs_nontrivial += 1;
            }
            agg.executions += r.executions;
            agg.heaviest.push((r.executions, r.idx));
            let b = match r.executions {
                0..=9 => 0,
                10..=99 => 1,
                100..=999 => 2,
                1000..=9999 => 3,
                10000..=99999 => 4,
                _ => 5,
            };
            agg.histo[b] += 1;
            agg.decisions += r.decisions;
            agg.max_depth = agg.max_depth.max(r.max_depth);
            agg.model_states += r.model_states;
            agg.model_transitions += r.model_transitions;
            agg.traces_validated += r.traces_validated;
            if r.capped {
                agg.capped_programs += 1;
            }
            if let Some(e) = r.machinery_error {
                agg.machinery_errors.push(e);
            }
            if let Some(s) = r.sample {
                if agg.samples.len() < 3 && r.executions > 4 {
                    agg.samples.push(s);
                }
            }
            agg.violations.extend(r.violations);
        }
    }
    agg.violations.sort_by_key(|v| (v.program_idx, v.alts.len()));
    agg.heaviest.sort_by(|a, b| b.cmp(a));
    agg.heaviest.truncate(5);
    agg
}

impl FamAgg {
    pub fn to_json(&self) -> serde_json::Value {
        serde_json::json!({
            "family": self.family, "set": self.set,
            "programs_total": self.programs_total, "programs_run": self.programs_run,
            "programs_full_tree": self.programs_full_tree,
            "programs_with_2plus_outcomes": self.programs_nontrivial,
            "executions": self.executions, "decisions": self.decisions, "max_depth": self.max_depth,
            "model_states": self.model_states, "model_transitions": self.model_transitions,
            "traces_validated_against_impl": self.traces_validated,
            "capped_programs": self.capped_programs, "skipped_deadline": self.skipped_deadline,
            "violations": self.violations.len(),
            "executions_per_program_histogram(<10,<100,<1k,<10k,<100k,more)": self.histo,
            "heaviest_programs(executions,index)": self.heaviest,
        })
    }
}
