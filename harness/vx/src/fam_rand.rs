//! Family `rand`: shuttle::rand draws interleaved with scheduling (for C01 / C14): the body's only
//! nondeterminism is scheduling and shuttle::rand.

use crate::prog::*;
use shuttle::rand::Rng;
use shuttle::sync::atomic::{AtomicUsize, Ordering};
use shuttle::sync::{Mutex, MutexGuard};

#[derive(Clone, Debug, PartialEq, Eq, Hash)]
pub enum ROp {
    /// thread_rng().gen_range(0..n)
    DrawRange(usize),
    /// thread_rng().gen::<u64>() % 3
    DrawU64,
    /// draw, then store the value into the shared atomic
    DrawStore,
    Load,
    Lock,
    Unlock,
    Yield,
}

#[derive(Clone, Debug, PartialEq, Eq, Hash, PartialOrd, Ord)]
pub enum RRes {
    Unit,
    Val(usize),
}

pub struct RObjs {
    a: AtomicUsize,
    m: Mutex<usize>,
}

pub struct RLocals {
    g: Option<MutexGuard<'static, usize>>,
}

#[derive(Clone, Debug, PartialEq, Eq, Hash)]
pub struct RM {
    a: usize,
    holder: Option<usize>,
}

pub struct RandFam;

impl Family for RandFam {
    type Op = ROp;
    type Res = RRes;
    type Cfg = ();
    type Objs = RObjs;
    type Locals = RLocals;
    type M = RM;
    const NAME: &'static str = "rand";

    fn make_objs(_c: &(), _n: usize) -> RObjs {
        RObjs {
            a: AtomicUsize::new(0),
            m: Mutex::new(0),
        }
    }
    fn new_locals(_c: &(), _t: usize) -> RLocals {
        RLocals { g: None }
    }
    fn end_thread(_o: &RObjs, l: RLocals, _t: usize) {
        std::mem::forget(l.g);
    }
    fn yields(op: &ROp) -> Option<bool> {
        Some(matches!(op, ROp::Yield))
    }
    fn exec(o: &RObjs, l: &mut RLocals, _t: usize, op: &ROp) -> RRes {
        match op {
            ROp::DrawRange(n) => RRes::Val(shuttle::rand::thread_rng().gen_range(0..*n)),
            ROp::DrawU64 => RRes::Val((shuttle::rand::thread_rng().gen::<u64>() % 3) as usize),
            ROp::DrawStore => {
                let v = shuttle::rand::thread_rng().gen_range(1..4usize);
                o.a.store(v, Ordering::SeqCst);
                RRes::Val(v)
            }
            ROp::Load => RRes::Val(o.a.load(Ordering::SeqCst)),
            ROp::Lock => {
                let g = unsafe { std::mem::transmute::<&Mutex<usize>, &'static Mutex<usize>>(&o.m) }.lock().unwrap();
                l.g = Some(g);
                RRes::Unit
            }
            ROp::Unlock => {
                drop(l.g.take().expect("unlock without guard"));
                RRes::Unit
            }
            ROp::Yield => {
                shuttle::thread::yield_now();
                RRes::Unit
            }
        }
    }
    fn objects_of(op: &ROp) -> Vec<u32> {
        match op {
            ROp::DrawStore | ROp::Load => vec![0x300],
            ROp::Lock | ROp::Unlock => vec![0x100],
            _ => vec![],
        }
    }
    fn m_init(_c: &(), _n: usize) -> RM {
        RM { a: 0, holder: None }
    }
    fn m_step(m: &RM, t: usize, op: &ROp, phase: u8, _strict: bool) -> Vec<MStep<RM, RRes>> {
        let mut n = m.clone();
        match op {
            ROp::DrawRange(k) => (0..*k).map(|v| MStep::Done(n.clone(), RRes::Val(v))).collect(),
            ROp::DrawU64 => (0..3).map(|v| MStep::Done(n.clone(), RRes::Val(v))).collect(),
            ROp::DrawStore => {
                // the draw happens first (no scheduling point), the store after its scheduling point:
                // phase 1..3 remembers the drawn value
                if phase == 0 {
                    (1..4u8).map(|v| MStep::Cont(n.clone(), v)).collect()
                } else {
                    n.a = phase as usize;
                    vec![MStep::Done(n, RRes::Val(phase as usize))]
                }
            }
            ROp::Load => {
                let v = n.a;
                vec![MStep::Done(n, RRes::Val(v))]
            }
            ROp::Lock => {
                if n.holder.is_none() {
                    n.holder = Some(t);
                    vec![MStep::Done(n, RRes::Unit)]
                } else {
                    vec![]
                }
            }
            ROp::Unlock => {
                n.holder = None;
                vec![MStep::Done(n, RRes::Unit)]
            }
            ROp::Yield => vec![MStep::Done(n, RRes::Unit)],
        }
    }
}

pub fn program_set(_set: &str) -> Vec<Program<RandFam>> {
    let bodies: Vec<Vec<ROp>> = vec![
        vec![ROp::DrawRange(3)],
        vec![ROp::DrawU64, ROp::DrawRange(2)],
        vec![ROp::DrawStore],
        vec![ROp::Load, ROp::DrawRange(2)],
        vec![ROp::Lock, ROp::DrawRange(2), ROp::Unlock],
        vec![ROp::Yield, ROp::DrawStore],
        vec![ROp::DrawStore, ROp::Load],
        vec![ROp::Lock, ROp::DrawStore],
    ];
    let mut out = Vec::new();
    for idx in nondecreasing_tuples(bodies.len(), 2) {
        for ms in [vec![], vec![ROp::DrawRange(2)], vec![ROp::Load]] {
            out.push(Program::fork_join((), ms, idx.iter().map(|&i| bodies[i].clone()).collect()));
        }
    }
    for b in &bodies {
        out.push(Program::fork_join((), vec![ROp::DrawU64], vec![b.clone(), vec![ROp::Load], vec![ROp::DrawStore]]));
    }
    out.sort_by_key(|p| p.size());
    out
}
