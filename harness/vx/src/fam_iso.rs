//! Family `iso` (C14): bodies that use per-execution state — thread_local!, lazy_static!, a static
//! Once, task labels/names, vector clocks, context-switch and step counters, drop-counted values.
//! The C14 driver runs execution B after a predecessor execution A inside one `Runner::run` and
//! alone, and compares B's complete observation log.

use crate::prog::*;
use shuttle::sync::{Mutex, MutexGuard, Once};
use std::cell::Cell;

#[derive(Clone, Debug, PartialEq, Eq, Hash)]
pub enum IOp {
    /// per-thread counter in a thread_local: returns the previous value
    TlsBump,
    /// lazy_static value: (did the initialiser run during this call, value)
    LazyGet,
    /// static Once: did my closure run
    OnceCall,
    /// set a label on my task, return the previous one
    LabelSet(u32),
    LabelGet,
    /// "set a label for a scope, restore the previous value on drop": the guard lives until the
    /// thread's program ends — or until its stack is unwound when the execution is abandoned
    LabelScope(u32),
    /// my vector clock, the context-switch counter and the recorded schedule length
    Counters,
    Me,
    /// create a drop-counted value that lives until the thread's program ends
    MakeGuard,
    Lock,
    Unlock,
    Yield,
}

#[derive(Clone, Debug, PartialEq, Eq, Hash, PartialOrd, Ord)]
pub enum IRes {
    Unit,
    Num(u32),
    Lazy(bool, u32),
    Bool(bool),
    Label(Option<u32>),
    Counters(Vec<u32>, usize, usize),
}

thread_local! {
    /// drop ledger (plain std thread-local: all Shuttle tasks share the OS thread)
    pub static LIVE: Cell<i64> = const { Cell::new(0) };
    static LAZY_INIT_RAN: Cell<bool> = const { Cell::new(false) };
    static LAZY_SERIAL: Cell<u32> = const { Cell::new(0) };
}

pub struct Guard;
impl Guard {
    fn new() -> Guard {
        LIVE.with(|l| l.set(l.get() + 1));
        Guard
    }
}
impl Drop for Guard {
    fn drop(&mut self) {
        LIVE.with(|l| l.set(l.get() - 1));
    }
}

/// The lazily initialised static owns a drop-counted value too.
pub struct LazyVal {
    v: u32,
    _g: Guard,
}
unsafe impl Sync for LazyVal {}

shuttle::lazy_static! {
    static ref LZ: LazyVal = {
        LAZY_INIT_RAN.with(|c| c.set(true));
        LazyVal { v: 7, _g: Guard::new() }
    };
}

shuttle::thread_local! {
    static TC: Cell<u32> = Cell::new(0);
    static TG: Guard = Guard::new();
}

static ONCE: Once = Once::new();

#[derive(Clone, Debug, PartialEq, Eq)]
struct Lbl(u32);

/// Restores the previous label of its task when dropped.
pub struct LabelGuard {
    task: shuttle::current::TaskId,
    prev: Option<Lbl>,
}
impl Drop for LabelGuard {
    fn drop(&mut self) {
        match self.prev.take() {
            Some(p) => {
                shuttle::current::set_label_for_task(self.task, p);
            }
            None => {
                shuttle::current::remove_label_for_task::<Lbl>(self.task);
            }
        }
    }
}

pub struct IObjs {
    m: Mutex<u32>,
}
pub struct ILocals {
    g: Option<MutexGuard<'static, u32>>,
    guards: Vec<Guard>,
    label_guards: Vec<LabelGuard>,
}

pub struct IsoFam;

impl Family for IsoFam {
    type Op = IOp;
    type Res = IRes;
    type Cfg = ();
    type Objs = IObjs;
    type Locals = ILocals;
    type M = ();
    const NAME: &'static str = "iso";

    fn make_objs(_c: &(), _n: usize) -> IObjs {
        IObjs { m: Mutex::new(0) }
    }
    fn new_locals(_c: &(), _t: usize) -> ILocals {
        ILocals { g: None, guards: vec![], label_guards: vec![] }
    }
    fn on_start(_o: &IObjs, t: usize) {
        if t == 0 {
            // every value created by earlier executions must be gone before this one starts
            log_aux(format!("live-at-start {}", LIVE.with(|l| l.get())));
        }
    }
    fn reset_globals() {
        LIVE.with(|l| l.set(0));
    }
    /// every spawned closure owns a drop-counted value
    fn capture(_o: &IObjs, _child: usize) -> Option<Box<dyn std::any::Any + Send>> {
        Some(Box::new(Guard::new()))
    }
    fn yields(op: &IOp) -> Option<bool> {
        Some(matches!(op, IOp::Yield))
    }
    fn exec(o: &IObjs, l: &mut ILocals, _t: usize, op: &IOp) -> IRes {
        let me = shuttle::current::me();
        match op {
            IOp::TlsBump => {
                TG.with(|_| ());
                IRes::Num(TC.with(|c| {
                    let v = c.get();
                    c.set(v + 1);
                    v
                }))
            }
            IOp::LazyGet => {
                LAZY_INIT_RAN.with(|c| c.set(false));
                let v = LZ.v;
                IRes::Lazy(LAZY_INIT_RAN.with(|c| c.get()), v)
            }
            IOp::OnceCall => {
                let mut ran = false;
                ONCE.call_once(|| ran = true);
                IRes::Bool(ran)
            }
            IOp::LabelSet(v) => IRes::Label(shuttle::current::set_label_for_task(me, Lbl(*v)).map(|l| l.0)),
            IOp::LabelGet => IRes::Label(shuttle::current::get_label_for_task::<Lbl>(me).map(|l| l.0)),
            IOp::LabelScope(v) => {
                let prev = shuttle::current::set_label_for_task(me, Lbl(*v));
                let r = IRes::Label(prev.as_ref().map(|l| l.0));
                // restore an "idle" marker rather than nothing, as scope guards commonly do
                l.label_guards.push(LabelGuard { task: me, prev: prev.or(Some(Lbl(99))) });
                r
            }
            IOp::Counters => {
                let clock = shuttle::current::clock();
                let v: Vec<u32> = clock.iter().cloned().collect();
                IRes::Counters(
                    v,
                    shuttle::current::context_switches(),
                    shuttle_engine::runtime::execution::CurrentSchedule::len(),
                )
            }
            IOp::Me => IRes::Num(usize::from(me) as u32),
            IOp::MakeGuard => {
                l.guards.push(Guard::new());
                IRes::Unit
            }
            IOp::Lock => {
                let g = unsafe { std::mem::transmute::<&Mutex<u32>, &'static Mutex<u32>>(&o.m) }.lock().unwrap();
                l.g = Some(g);
                IRes::Unit
            }
            IOp::Unlock => {
                drop(l.g.take());
                IRes::Unit
            }
            IOp::Yield => {
                shuttle::thread::yield_now();
                IRes::Unit
            }
        }
    }
    // no reference model: C14's oracle is differential (B after A  vs  B alone)
    fn m_init(_c: &(), _n: usize) {}
    fn m_step(_m: &(), _t: usize, _op: &IOp, _ph: u8, _s: bool) -> Vec<MStep<(), IRes>> {
        vec![]
    }
}

pub fn program_set(_set: &str) -> Vec<Program<IsoFam>> {
    use IOp::*;
    let bodies: Vec<(Vec<IOp>, Vec<Vec<IOp>>)> = vec![
        (vec![TlsBump, LazyGet, Counters], vec![vec![TlsBump, TlsBump, LazyGet]]),
        (vec![OnceCall, LabelSet(1), LabelGet], vec![vec![OnceCall, LabelGet, LabelSet(2), Me]]),
        (vec![MakeGuard, Lock, Yield, Unlock, Counters], vec![vec![MakeGuard, Lock, TlsBump, Unlock]]),
        (vec![LazyGet, Lock, LabelSet(3), Unlock], vec![vec![Lock, LazyGet, Unlock, Counters], vec![TlsBump, OnceCall]]),
        (vec![Me, Counters], vec![vec![Me, MakeGuard, Yield, Counters], vec![Me, LabelGet, TlsBump]]),
        (vec![Lock, MakeGuard, OnceCall, Unlock, TlsBump], vec![vec![Lock, LazyGet, MakeGuard, Unlock]]),
        (vec![LabelGet, LabelScope(5), Yield, LabelGet], vec![vec![LabelGet, Yield, LabelScope(6), LabelGet]]),
        (vec![LabelGet, Lock, LabelScope(7), Unlock, Counters], vec![vec![LabelGet, Lock, LabelScope(8), Yield, Unlock], vec![LabelGet]]),
        // three children (more tasks than the other bodies: as predecessors of a smaller body they
        // leave more task slots, stacks and thread-local storage behind)
        (vec![Counters], vec![vec![TlsBump, MakeGuard], vec![LazyGet, Me], vec![OnceCall, TlsBump, Counters]]),
        (vec![TlsBump], vec![vec![Me]]),
        (vec![Lock, Yield, Unlock], vec![vec![Lock, MakeGuard, Unlock, Me], vec![Me, Yield, LabelSet(4)], vec![LabelGet, TlsBump]]),
        (vec![Me, LazyGet, OnceCall, LabelGet, Counters], vec![]),
    ];
    let mut out: Vec<Program<IsoFam>> = bodies.into_iter().map(|(m, ch)| Program::fork_join((), m, ch)).collect();
    // nested spawning: the grandchild exists only late in an execution
    let g = |ops: &[IOp]| -> Vec<GOp<IOp>> { ops.iter().cloned().map(GOp::Op).collect() };
    {
        let mut t1 = vec![GOp::Spawn(2)];
        t1.extend(g(&[TlsBump, MakeGuard]));
        t1.push(GOp::Join(2));
        out.push(Program {
            cfg: (),
            threads: vec![vec![GOp::Spawn(1), GOp::Op(LazyGet), GOp::Join(1), GOp::Op(Counters)], t1, g(&[OnceCall, Me, TlsBump])],
        });
    }
    out
}
