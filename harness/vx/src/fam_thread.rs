//! Family `thread`: spawn/join (nested, joins by non-parents), scope, Builder names,
//! thread::current(), thread-locals with destructors (C07).

use crate::prog::*;
use std::cell::Cell;

#[derive(Clone, Debug, PartialEq, Eq, Hash)]
pub enum TOp {
    /// KEYk.with(|v| v.owner == me)
    TlsGet(usize),
    /// KEYk.try_with(..).is_ok()
    TlsTry(usize),
    /// const-initialised Cell<u32> key: returns the previous value and increments
    TlsCount,
    /// thread::current().id() agrees with current::me()
    CurrentId,
    /// thread::current().name() == the name given at spawn
    CurrentName,
    Yield,
}

#[derive(Clone, Debug, PartialEq, Eq, Hash, PartialOrd, Ord)]
pub enum TRes {
    Unit,
    Bool(bool),
    Count(u32),
}

/// A thread-local value whose construction and destruction are logged as auxiliary events.
pub struct Tv {
    key: usize,
    owner: usize,
}

impl Tv {
    fn new(key: usize) -> Tv {
        let owner: usize = shuttle::current::me().into();
        log_aux(format!("init k{}", key));
        Tv { key, owner }
    }
}

impl Drop for Tv {
    fn drop(&mut self) {
        match self.key {
            0 => log_aux("drop k0".into()),
            1 => {
                // touches another key during destruction: must be either the live value, a fresh
                // lazily initialised one (destroyed later), or AccessError — never a resurrected one
                let r = K0.try_with(|v| v.owner);
                match r {
                    Ok(o) => log_aux(format!("drop k1 saw-k0 ok owner-is-me={}", o == self.owner)),
                    Err(_) => log_aux("drop k1 saw-k0 err".into()),
                }
            }
            _ => {
                // a destructor with a scheduling point inside, then touches itself
                shuttle::thread::yield_now();
                let again = K2.try_with(|_| ()).is_ok();
                log_aux(format!("drop k2 self-access-ok={}", again));
            }
        }
    }
}

shuttle::thread_local! {
    static K0: Tv = Tv::new(0);
    static K1: Tv = Tv::new(1);
    static K2: Tv = Tv::new(2);
    static KC: Cell<u32> = const { Cell::new(0) };
}

pub struct ThreadFam;

impl Family for ThreadFam {
    type Op = TOp;
    type Res = TRes;
    type Cfg = bool; // named threads?
    type Objs = ();
    type Locals = usize; // thread index
    type M = Vec<u32>;
    const NAME: &'static str = "thread";

    fn make_objs(_cfg: &bool, _n: usize) {}
    /// thread index, plus bit 16 = "this thread was given a name"
    fn new_locals(cfg: &bool, t: usize) -> usize {
        t | if Self::thread_name(cfg, t).is_some() { 1 << 16 } else { 0 }
    }
    /// "named" programs name the odd threads only: an unnamed thread spawned by a named one (and the
    /// reverse) must still report its own name — none
    fn thread_name(cfg: &bool, t: usize) -> Option<String> {
        if *cfg && t % 2 == 1 {
            Some(format!("vx-thread-{}", t))
        } else {
            None
        }
    }
    fn exec(_o: &(), l: &mut usize, t: usize, op: &TOp) -> TRes {
        let me: usize = shuttle::current::me().into();
        match op {
            TOp::TlsGet(k) => {
                let owner = match k {
                    0 => K0.with(|v| v.owner),
                    1 => K1.with(|v| v.owner),
                    _ => K2.with(|v| v.owner),
                };
                TRes::Bool(owner == me)
            }
            TOp::TlsTry(k) => {
                let r = match k {
                    0 => K0.try_with(|v| v.owner),
                    1 => K1.try_with(|v| v.owner),
                    _ => K2.try_with(|v| v.owner),
                };
                TRes::Bool(r == Ok(me))
            }
            TOp::TlsCount => TRes::Count(KC.with(|c| {
                let v = c.get();
                c.set(v + 1);
                v
            })),
            TOp::CurrentId => {
                let id: usize = shuttle::thread::current().id().into();
                TRes::Bool(id == me)
            }
            TOp::CurrentName => {
                let cur = shuttle::thread::current();
                let want = if t == 0 {
                    Some("main-thread".to_string())
                } else if *l & (1 << 16) != 0 {
                    Some(format!("vx-thread-{}", *l & 0xffff))
                } else {
                    None
                };
                TRes::Bool(cur.name().map(|s| s.to_string()) == want)
            }
            TOp::Yield => {
                shuttle::thread::yield_now();
                TRes::Unit
            }
        }
    }
    fn yields(op: &TOp) -> Option<bool> {
        Some(matches!(op, TOp::Yield))
    }
    fn m_init(_cfg: &bool, n: usize) -> Vec<u32> {
        vec![0; n]
    }
    fn m_step(m: &Vec<u32>, t: usize, op: &TOp, _ph: u8, _strict: bool) -> Vec<MStep<Vec<u32>, TRes>> {
        let mut n = m.clone();
        let r = match op {
            TOp::TlsGet(_) | TOp::TlsTry(_) | TOp::CurrentId | TOp::CurrentName => TRes::Bool(true),
            TOp::TlsCount => {
                let v = n[t];
                n[t] += 1;
                TRes::Count(v)
            }
            TOp::Yield => TRes::Unit,
        };
        vec![MStep::Done(n, r)]
    }

    /// Thread-local life cycle per task, from the auxiliary events: lazily initialised on first
    /// use, destroyed exactly once, in initialisation order, after the closure returned and before
    /// any joiner's `join` returned; access during/after destruction is an error, never a resurrection.
    fn monitor(p: &Program<ThreadFam>, rec: &ExecRecord<TRes>) -> Option<(String, String)> {
        let n = p.threads.len();
        // task → thread from Start entries
        let mut thread_of = std::collections::HashMap::new();
        let mut end_pos = vec![None; n];
        let mut finished_normally = vec![false; n];
        for (i, e) in rec.log.iter().enumerate() {
            match e.kind {
                EKind::Start => {
                    thread_of.insert(e.task, e.thread);
                }
                EKind::End => {
                    end_pos[e.thread] = Some(i + 1);
                    finished_normally[e.thread] = true;
                }
                _ => {}
            }
        }
        // distinct task ids for distinct threads
        if thread_of.len() != rec.log.iter().filter(|e| e.kind == EKind::Start).count() {
            return Some(("thread-ids".into(), "two threads report the same task id".into()));
        }
        // expected aux sequence per thread
        for t in 0..n {
            let Some(task) = rec.log.iter().find(|e| e.thread == t && e.kind == EKind::Start).map(|e| e.task) else { continue };
            let got: Vec<&AuxEntry> = rec.aux.iter().filter(|a| a.task == task).collect();
            // simulate
            let mut order: Vec<usize> = Vec::new(); // initialised keys in order
            let mut expect: Vec<String> = Vec::new();
            let ops_done = rec.log.iter().filter(|e| e.thread == t && matches!(e.kind, EKind::Ret(_))).count();
            for (i, op) in p.threads[t].iter().enumerate() {
                if i >= ops_done {
                    break;
                }
                if let GOp::Op(TOp::TlsGet(k)) | GOp::Op(TOp::TlsTry(k)) = op {
                    if !order.contains(k) {
                        order.push(*k);
                        expect.push(format!("init k{}", k));
                    }
                }
            }
            let complete = finished_normally[t] && !matches!(rec.raw_ending, RawEnding::Stopped);
            // a thread whose closure returned runs its destructors; but if the execution ended (deadlock,
            // stop) it may not have got that far: compare prefixes in that case
            let mut destroyed: Vec<usize> = Vec::new();
            let mut queue = order.clone();
            let mut exp_destr: Vec<String> = Vec::new();
            while !queue.is_empty() {
                let k = queue.remove(0);
                destroyed.push(k);
                match k {
                    0 => exp_destr.push("drop k0".into()),
                    1 => {
                        if destroyed.contains(&0) {
                            exp_destr.push("drop k1 saw-k0 err".into());
                        } else if order.contains(&0) || queue.contains(&0) {
                            exp_destr.push("drop k1 saw-k0 ok owner-is-me=true".into());
                        } else {
                            // lazily initialised during destruction, destroyed later
                            exp_destr.push("init k0".into());
                            exp_destr.push("drop k1 saw-k0 ok owner-is-me=true".into());
                            queue.push(0);
                        }
                    }
                    _ => exp_destr.push("drop k2 self-access-ok=false".into()),
                }
            }
            let got_s: Vec<String> = got.iter().map(|a| a.what.clone()).collect();
            let mut full = expect.clone();
            full.extend(exp_destr.iter().cloned());
            let ok = if complete && matches!(rec.raw_ending, RawEnding::Ok) {
                got_s == full
            } else {
                // must be a prefix of the full expectation, and contain at least the inits
                got_s.len() >= expect.len().min(got_s.len()) && full.starts_with(&got_s[..])
            };
            if !ok {
                return Some((
                    "tls-lifecycle".into(),
                    format!("thread {} (task {}): thread-local events {:?}, expected {:?}", t, task, got_s, full),
                ));
            }
            // destructors run after the closure returned ...
            if let Some(endp) = end_pos[t] {
                for a in &got {
                    if a.what.starts_with("drop") && a.after < endp {
                        return Some(("tls-before-return".into(), format!("thread {}: destructor event {:?} before its closure returned", t, a.what)));
                    }
                }
            }
            // ... and before any join on this thread returns
            for (i, e) in rec.log.iter().enumerate() {
                if let EKind::Ret(GRes::Joined(_)) = e.kind {
                    if let GOp::Join(c) = &p.threads[e.thread][e.op] {
                        if *c == t {
                            if got_s != full {
                                return Some(("join-before-destructors".into(), format!("join of thread {} returned but its thread-local events are {:?}, expected {:?}", t, got_s, full)));
                            }
                            for a in &got {
                                if a.after > i {
                                    return Some(("join-before-destructors".into(), format!("join of thread {} returned before destructor event {:?}", t, a.what)));
                                }
                            }
                        }
                    }
                }
            }
        }
        None
    }
}

// ---------------------------------------------------------------------------------------------

fn op_seqs(alpha: &[TOp], k: usize) -> Vec<Vec<TOp>> {
    let mut out: Vec<Vec<TOp>> = vec![vec![]];
    let mut cur: Vec<Vec<TOp>> = vec![vec![]];
    for _ in 0..k {
        let mut next = Vec::new();
        for s in &cur {
            for a in alpha {
                let mut s2 = s.clone();
                s2.push(a.clone());
                next.push(s2);
            }
        }
        out.extend(next.iter().cloned());
        cur = next;
    }
    out
}

fn g(ops: &[TOp]) -> Vec<GOp<TOp>> {
    ops.iter().cloned().map(GOp::Op).collect()
}

pub fn program_set(set: &str) -> Vec<Program<ThreadFam>> {
    let thorough = set == "thorough";
    let mut out: Vec<Program<ThreadFam>> = Vec::new();
    let tls_alpha = vec![TOp::TlsGet(0), TOp::TlsGet(1), TOp::TlsGet(2), TOp::TlsTry(0), TOp::TlsCount];
    let seqs = op_seqs(&tls_alpha, if thorough { 3 } else { 2 });
    // (1) fork/join with TLS use in main and children
    for named in [false, true] {
        for idx in nondecreasing_tuples(seqs.len(), 2) {
            for ms in [vec![], vec![TOp::TlsGet(1), TOp::TlsGet(0)], vec![TOp::TlsGet(2)], vec![TOp::TlsCount]] {
                let mut ch: Vec<Vec<TOp>> = idx.iter().map(|&i| seqs[i].clone()).collect();
                if named {
                    ch[0].push(TOp::CurrentName);
                    ch[1].push(TOp::CurrentId);
                }
                if ms.len() + ch[0].len() + ch[1].len() > if thorough { 7 } else { 5 } {
                    continue;
                }
                out.push(Program::fork_join(named, ms, ch));
            }
        }
    }
    // (2) nested spawn, joins in every order and by non-parents
    let body: Vec<Vec<TOp>> = vec![vec![], vec![TOp::TlsGet(0)], vec![TOp::TlsGet(2)], vec![TOp::TlsGet(1), TOp::TlsGet(0)], vec![TOp::Yield]];
    for b1 in &body {
        for b2 in &body {
            // main spawns 1; 1 spawns 2; 1 joins 2 (parent) — or main joins 2 after joining 1 (non-parent)
            let mut t1 = vec![GOp::Spawn(2)];
            t1.extend(g(b1));
            let mut t1j = t1.clone();
            t1j.push(GOp::Join(2));
            out.push(Program {
                cfg: false,
                threads: vec![vec![GOp::Spawn(1), GOp::Join(1)], t1j.clone(), g(b2)],
            });
            out.push(Program {
                cfg: false,
                threads: vec![vec![GOp::Spawn(1), GOp::Join(1), GOp::Join(2)], t1.clone(), g(b2)],
            });
            // main never joins: the execution still waits for every thread
            out.push(Program {
                cfg: false,
                threads: vec![vec![GOp::Spawn(1)], t1.clone(), g(b2)],
            });
            // joins in reverse order
            out.push(Program {
                cfg: false,
                threads: vec![vec![GOp::Spawn(1), GOp::Spawn(2), GOp::Join(2), GOp::Join(1)], g(b1), g(b2)],
            });
        }
    }
    // (2b) names across spawning: a named thread (1) spawns an unnamed one (2), which spawns a named
    // one (3); everybody asks for its own name and id; also unnamed scoped threads of a named owner
    {
        let q = |extra: &[TOp]| -> Vec<GOp<TOp>> {
            let mut v = g(extra);
            v.extend(g(&[TOp::CurrentName, TOp::CurrentId]));
            v
        };
        let mut t1 = vec![GOp::Spawn(2)];
        t1.extend(q(&[]));
        t1.push(GOp::Join(2));
        let mut t2 = vec![GOp::Spawn(3)];
        t2.extend(q(&[]));
        t2.push(GOp::Join(3));
        out.push(Program {
            cfg: true,
            threads: vec![vec![GOp::Spawn(1), GOp::Op(TOp::CurrentName), GOp::Join(1)], t1, t2, q(&[TOp::TlsGet(0)])],
        });
        // a named thread owning a scope with an unnamed (2) scoped thread
        let mut owner = vec![GOp::ScopeBegin(vec![2])];
        owner.extend(q(&[]));
        owner.push(GOp::ScopeEnd);
        out.push(Program {
            cfg: true,
            threads: vec![vec![GOp::Spawn(1), GOp::Join(1)], owner, q(&[])],
        });
        // unnamed children of main
        out.push(Program {
            cfg: true,
            threads: vec![vec![GOp::Spawn(2), GOp::Spawn(1), GOp::Join(1), GOp::Join(2)], q(&[]), q(&[])],
        });
    }
    // (3) scope
    for b1 in &body {
        for b2 in &body {
            for mb in [vec![], vec![TOp::TlsGet(0)], vec![TOp::Yield]] {
                let mut main = vec![GOp::ScopeBegin(vec![1, 2])];
                main.extend(g(&mb));
                main.push(GOp::ScopeEnd);
                main.extend(g(&[TOp::TlsCount]));
                out.push(Program {
                    cfg: false,
                    threads: vec![main, g(b1), g(b2)],
                });
                // ScopedJoinHandle::join inside the scope (one child joined explicitly, the other by
                // the end of the scope), before or after the body's own operations
                for first in [true, false] {
                    let mut mj = vec![GOp::ScopeBegin(vec![1, 2])];
                    if first {
                        mj.push(GOp::Join(2));
                        mj.extend(g(&mb));
                    } else {
                        mj.extend(g(&mb));
                        mj.push(GOp::Join(1));
                    }
                    mj.push(GOp::ScopeEnd);
                    mj.extend(g(&[TOp::TlsCount]));
                    out.push(Program {
                        cfg: false,
                        threads: vec![mj, g(b1), g(b2)],
                    });
                }
                // nested scope inside a scoped thread
                let mut t1 = vec![GOp::ScopeBegin(vec![2])];
                t1.extend(g(b1));
                t1.push(GOp::ScopeEnd);
                let mut main2 = vec![GOp::ScopeBegin(vec![1])];
                main2.extend(g(&mb));
                main2.push(GOp::ScopeEnd);
                out.push(Program {
                    cfg: false,
                    threads: vec![main2, t1, g(b2)],
                });
            }
        }
    }
    if thorough {
        // (4) three children, TLS in all of them; (5) IsFinished observed by main; (6) a scope of
        // three; (7) three levels of spawning with joins by grand-parents
        let seqs2 = op_seqs(&tls_alpha, 2);
        for idx in nondecreasing_tuples(seqs2.len(), 3) {
            let ch: Vec<Vec<TOp>> = idx.iter().map(|&i| seqs2[i].clone()).collect();
            if ch.iter().map(|c| c.len()).sum::<usize>() > 5 {
                continue;
            }
            for ms in [vec![], vec![TOp::TlsGet(2)], vec![TOp::Yield]] {
                out.push(Program::fork_join(false, ms, ch.clone()));
            }
        }
        for b1 in &body {
            for b2 in &body {
                for b3 in &body {
                    let mut main = vec![GOp::ScopeBegin(vec![1, 2, 3])];
                    main.push(GOp::ScopeEnd);
                    main.extend(g(&[TOp::TlsCount]));
                    out.push(Program {
                        cfg: false,
                        threads: vec![main, g(b1), g(b2), g(b3)],
                    });
                    // main -> 1 -> 2 -> 3; 1 joins 2, main joins 3 and 1
                    let mut t1 = vec![GOp::Spawn(2)];
                    t1.extend(g(b1));
                    t1.push(GOp::Join(2));
                    let mut t2 = vec![GOp::Spawn(3)];
                    t2.extend(g(b2));
                    out.push(Program {
                        cfg: false,
                        threads: vec![vec![GOp::Spawn(1), GOp::Join(1), GOp::Join(3)], t1, t2, g(b3)],
                    });
                }
            }
        }
    }
    out.sort_by_key(|p| p.size());
    out
}
