//! Family `mpsc`: shuttle::sync::mpsc channels (unbounded, rendezvous, bounded) against the FIFO
//! channel model of Appendix A.

use crate::prog::*;
use shuttle::sync::mpsc::{self, Receiver, Sender, SyncSender, TryRecvError, TrySendError};
use std::cell::RefCell;

#[derive(Clone, Debug, PartialEq, Eq, Hash)]
pub enum COp {
    Send(u32),
    TrySend(u32),
    Recv,
    TryRecv,
    /// drop this thread's sender handle
    DropTx,
    DropRx,
    /// thread::park / unpark(thread index): only in the `mix` set (a task blocked in a channel
    /// operation is unparked and parks afterwards; the token must survive)
    Park,
    Unpark(usize),
}

#[derive(Clone, Debug, PartialEq, Eq, Hash, PartialOrd, Ord)]
pub enum CRes {
    Unit,
    Ok,
    Val(u32),
    Disconnected,
    Full,
    Empty,
}

#[derive(Clone, Debug)]
pub struct CCfg {
    /// None = unbounded `channel()`, Some(c) = `sync_channel(c)`
    pub cap: Option<usize>,
    /// threads that own a sender handle from the start
    pub tx_threads: Vec<usize>,
}

enum Tx {
    U(Sender<u32>),
    B(SyncSender<u32>),
}

pub struct CObjs {
    tx: RefCell<Vec<Option<Tx>>>,
    rx: RefCell<Option<Receiver<u32>>>,
    threads: RefCell<Vec<Option<shuttle::thread::Thread>>>,
}

#[derive(Clone, Debug, PartialEq, Eq, Hash)]
pub struct CM {
    cap: Option<usize>,
    buf: Vec<u32>,
    tx_alive: Vec<bool>,
    rx_alive: bool,
    blocked_senders: Vec<usize>,
    waiting_rx: Option<usize>,
    /// per thread: (token, parked, woken) — as in the sync family
    park: Vec<(bool, bool, bool)>,
}

pub struct MpscFam;

impl Family for MpscFam {
    type Op = COp;
    type Res = CRes;
    type Cfg = CCfg;
    type Objs = CObjs;
    type Locals = ();
    type M = CM;
    const NAME: &'static str = "mpsc";

    fn make_objs(cfg: &CCfg, n: usize) -> CObjs {
        let mut tx: Vec<Option<Tx>> = (0..n).map(|_| None).collect();
        let rx;
        match cfg.cap {
            None => {
                let (s, r) = mpsc::channel::<u32>();
                for t in &cfg.tx_threads {
                    tx[*t] = Some(Tx::U(s.clone()));
                }
                drop(s);
                rx = r;
            }
            Some(c) => {
                let (s, r) = mpsc::sync_channel::<u32>(c);
                for t in &cfg.tx_threads {
                    tx[*t] = Some(Tx::B(s.clone()));
                }
                drop(s);
                rx = r;
            }
        }
        let objs = CObjs {
            tx: RefCell::new(tx),
            rx: RefCell::new(Some(rx)),
            threads: RefCell::new(vec![None; n]),
        };
        objs.threads.borrow_mut()[0] = Some(shuttle::thread::current());
        objs
    }
    fn new_locals(_cfg: &CCfg, _t: usize) {}
    fn on_spawn(objs: &CObjs, child: usize, th: &shuttle::thread::Thread) {
        objs.threads.borrow_mut()[child] = Some(th.clone());
    }
    fn yields(op: &COp) -> Option<bool> {
        match op {
            COp::Park => None,
            _ => Some(false),
        }
    }

    fn exec(o: &CObjs, _l: &mut (), t: usize, op: &COp) -> CRes {
        match op {
            COp::Send(v) => {
                // take the handle out while sending: other threads touch other slots of the table
                let h = o.tx.borrow_mut()[t].take().expect("send without handle");
                let r = match &h {
                    Tx::U(s) => s.send(*v).map_err(|_| ()),
                    Tx::B(s) => s.send(*v).map_err(|_| ()),
                };
                o.tx.borrow_mut()[t] = Some(h);
                match r {
                    Ok(()) => CRes::Ok,
                    Err(()) => CRes::Disconnected,
                }
            }
            COp::TrySend(v) => {
                let h = o.tx.borrow_mut()[t].take().expect("try_send without handle");
                let r = match &h {
                    Tx::U(_) => panic!("try_send on unbounded channel"),
                    Tx::B(s) => match s.try_send(*v) {
                        Ok(()) => CRes::Ok,
                        Err(TrySendError::Full(_)) => CRes::Full,
                        Err(TrySendError::Disconnected(_)) => CRes::Disconnected,
                    },
                };
                o.tx.borrow_mut()[t] = Some(h);
                r
            }
            COp::Recv => {
                let h = o.rx.borrow_mut().take().expect("recv without receiver");
                let r = if alt_api() && t % 2 == 0 {
                    match h.recv_timeout(std::time::Duration::from_millis(1)) {
                        Ok(v) => CRes::Val(v),
                        Err(mpsc::RecvTimeoutError::Disconnected) => CRes::Disconnected,
                        // Shuttle does not model time: the alias never reports a timeout
                        Err(mpsc::RecvTimeoutError::Timeout) => panic!("recv_timeout reported a timeout"),
                    }
                } else if alt_api() {
                    match h.iter().next() {
                        Some(v) => CRes::Val(v),
                        None => CRes::Disconnected,
                    }
                } else {
                    match h.recv() {
                        Ok(v) => CRes::Val(v),
                        Err(_) => CRes::Disconnected,
                    }
                };
                *o.rx.borrow_mut() = Some(h);
                r
            }
            COp::TryRecv => {
                let h = o.rx.borrow_mut().take().expect("try_recv without receiver");
                let r = match h.try_recv() {
                    Ok(v) => CRes::Val(v),
                    Err(TryRecvError::Empty) => CRes::Empty,
                    Err(TryRecvError::Disconnected) => CRes::Disconnected,
                };
                *o.rx.borrow_mut() = Some(h);
                r
            }
            COp::DropTx => {
                let h = o.tx.borrow_mut()[t].take().expect("drop_tx without handle");
                drop(h);
                CRes::Unit
            }
            COp::DropRx => {
                let h = o.rx.borrow_mut().take().expect("drop_rx without receiver");
                drop(h);
                CRes::Unit
            }
            COp::Park => {
                shuttle::thread::park();
                CRes::Unit
            }
            COp::Unpark(u) => {
                let th = o.threads.borrow()[*u].clone().expect("unpark target not spawned yet");
                th.unpark();
                CRes::Unit
            }
        }
    }

    fn m_no_sched_point(op: &GOp<COp>) -> Option<&'static str> {
        match op {
            GOp::Op(COp::DropTx) => Some("no-scheduling-point-before:drop(Sender)"),
            GOp::Op(COp::DropRx) => Some("no-scheduling-point-before:drop(Receiver)"),
            _ => None,
        }
    }
    fn objects_of(op: &COp) -> Vec<u32> {
        match op {
            COp::Park | COp::Unpark(_) => vec![0x800],
            _ => vec![0x400],
        }
    }
    /// send -> the receive of that value; on a bounded channel of capacity c > 0 the k-th receive ->
    /// the (k+c)-th successful send (the send it makes room for)
    fn hb_must(p: &Program<MpscFam>, log: &[Entry<CRes>]) -> Vec<(usize, usize)> {
        let mut out = Vec::new();
        let mut sends: Vec<(usize, u32)> = Vec::new();
        let mut recvs: Vec<usize> = Vec::new();
        for (i, e) in log.iter().enumerate() {
            let EKind::Ret(GRes::R(r)) = &e.kind else { continue };
            let GOp::Op(op) = &p.threads[e.thread][e.op] else { continue };
            match (op, r) {
                (COp::Send(v), CRes::Ok) | (COp::TrySend(v), CRes::Ok) => sends.push((i, *v)),
                (_, CRes::Val(v)) => {
                    // what the sender had done before its send (the message carries the sender's
                    // clock at the hand-over, the send may advance the sender's clock further)
                    let sender = log.iter().enumerate().find(|(_, x)| matches!(&x.kind, EKind::Call) && matches!(&p.threads[x.thread][x.op], GOp::Op(COp::Send(sv)) | GOp::Op(COp::TrySend(sv)) if sv == v));
                    if let Some((c, x)) = sender {
                        if let Some(b) = prev_clocked(log, c, x.thread) {
                            out.push((b, i));
                        }
                    }
                    recvs.push(i);
                }
                _ => {}
            }
        }
        if let Some(c) = p.cfg.cap {
            if c > 0 {
                for (k, r) in recvs.iter().enumerate() {
                    if let Some((s, _)) = sends.get(k + c) {
                        if r < s {
                            out.push((*r, *s));
                        }
                    }
                }
            }
        }
        out
    }
    fn m_init(cfg: &CCfg, n: usize) -> CM {
        let mut tx_alive = vec![false; n];
        for t in &cfg.tx_threads {
            tx_alive[*t] = true;
        }
        CM {
            cap: cfg.cap,
            buf: vec![],
            tx_alive,
            rx_alive: true,
            blocked_senders: vec![],
            waiting_rx: None,
            park: vec![(false, false, false); n],
        }
    }

    fn m_step(m: &CM, t: usize, op: &COp, phase: u8, strict: bool) -> Vec<MStep<CM, CRes>> {
        let mut n = m.clone();
        let room = |m: &CM| match m.cap {
            None => true,
            Some(c) => m.buf.len() < c.max(1),
        };
        let rendezvous = m.cap == Some(0);
        match op {
            COp::Send(v) | COp::TrySend(v) => {
                let is_try = matches!(op, COp::TrySend(_));
                if phase == 0 {
                    if !n.rx_alive {
                        return vec![MStep::Done(n, CRes::Disconnected)];
                    }
                    let must_block = !room(&n) || !n.blocked_senders.is_empty() || (rendezvous && n.waiting_rx.is_none());
                    if must_block {
                        if is_try {
                            return vec![MStep::Done(n, CRes::Full)];
                        }
                        n.blocked_senders.push(t);
                        vec![MStep::Cont(n, 1)]
                    } else {
                        n.buf.push(*v);
                        vec![MStep::Done(n, CRes::Ok)]
                    }
                } else {
                    let pos = n.blocked_senders.iter().position(|x| *x == t).expect("blocked sender in queue");
                    if !n.rx_alive {
                        n.blocked_senders.remove(pos);
                        return vec![MStep::Done(n, CRes::Disconnected)];
                    }
                    let my_turn = if strict { pos == 0 } else { true };
                    if my_turn && room(&n) && (!rendezvous || n.waiting_rx.is_some()) {
                        n.blocked_senders.remove(pos);
                        n.buf.push(*v);
                        vec![MStep::Done(n, CRes::Ok)]
                    } else {
                        vec![]
                    }
                }
            }
            COp::Recv | COp::TryRecv => {
                let is_try = matches!(op, COp::TryRecv);
                let any_tx = n.tx_alive.iter().any(|a| *a);
                if phase == 0 {
                    if n.buf.is_empty() && !any_tx {
                        return vec![MStep::Done(n, CRes::Disconnected)];
                    }
                    if !n.buf.is_empty() && n.waiting_rx.is_none() {
                        let v = n.buf.remove(0);
                        return vec![MStep::Done(n, CRes::Val(v))];
                    }
                    if is_try {
                        // a rendezvous try_recv completes the hand-off if a sender is already waiting
                        if rendezvous && !n.blocked_senders.is_empty() {
                            n.waiting_rx = Some(t);
                            return vec![MStep::Cont(n, 1)];
                        }
                        return vec![MStep::Done(n, CRes::Empty)];
                    }
                    n.waiting_rx = Some(t);
                    vec![MStep::Cont(n, 1)]
                } else {
                    if !n.buf.is_empty() {
                        let v = n.buf.remove(0);
                        n.waiting_rx = None;
                        vec![MStep::Done(n, CRes::Val(v))]
                    } else if !any_tx {
                        n.waiting_rx = None;
                        vec![MStep::Done(n, CRes::Disconnected)]
                    } else {
                        vec![]
                    }
                }
            }
            COp::DropTx => {
                n.tx_alive[t] = false;
                vec![MStep::Done(n, CRes::Unit)]
            }
            COp::DropRx => {
                n.rx_alive = false;
                vec![MStep::Done(n, CRes::Unit)]
            }
            // park / unpark exactly as in the sync family (Appendix A)
            COp::Park => match phase {
                0 => {
                    if n.park[t].0 {
                        n.park[t].0 = false;
                        vec![MStep::Done(n, CRes::Unit)]
                    } else {
                        n.park[t].1 = true;
                        n.park[t].2 = false;
                        vec![MStep::Cont(n, 1)]
                    }
                }
                _ => {
                    if n.park[t].2 {
                        n.park[t].1 = false;
                        n.park[t].2 = false;
                        vec![MStep::Done(n, CRes::Unit)]
                    } else {
                        n.park[t].1 = false;
                        vec![MStep::Spurious(n, CRes::Unit)]
                    }
                }
            },
            COp::Unpark(u) => {
                if n.park[*u].1 {
                    if !n.park[*u].2 {
                        n.park[*u].2 = true;
                    } else {
                        n.park[*u].0 = true;
                    }
                } else {
                    n.park[*u].0 = true;
                }
                vec![MStep::Done(n, CRes::Unit)]
            }
        }
    }
}

// ---------------------------------------------------------------------------------------------
// Program generation
// ---------------------------------------------------------------------------------------------

/// Sender-thread op sequences of length ≤ k (values assigned later), ending with or without DropTx.
fn sender_seqs(k: usize, bounded: bool) -> Vec<Vec<COp>> {
    let mut alpha = vec![COp::Send(0)];
    if bounded {
        alpha.push(COp::TrySend(0));
    }
    let mut out = Vec::new();
    let mut cur: Vec<Vec<COp>> = vec![vec![]];
    for _ in 0..k {
        let mut next = Vec::new();
        for s in &cur {
            for a in &alpha {
                let mut s2 = s.clone();
                s2.push(a.clone());
                next.push(s2);
            }
        }
        for s in &next {
            out.push(s.clone());
            if s.len() < k {
                let mut d = s.clone();
                d.push(COp::DropTx);
                out.push(d);
            }
        }
        cur = next;
    }
    out.push(vec![COp::DropTx]);
    out
}

fn receiver_seqs(k: usize) -> Vec<Vec<COp>> {
    let alpha = [COp::Recv, COp::TryRecv];
    let mut out = Vec::new();
    let mut cur: Vec<Vec<COp>> = vec![vec![]];
    for _ in 0..k {
        let mut next = Vec::new();
        for s in &cur {
            for a in &alpha {
                let mut s2 = s.clone();
                s2.push(a.clone());
                next.push(s2);
            }
        }
        for s in &next {
            out.push(s.clone());
            if s.len() < k {
                let mut d = s.clone();
                d.push(COp::DropRx);
                out.push(d);
            }
        }
        cur = next;
    }
    out.push(vec![COp::DropRx]);
    out
}

fn assign_values(t: usize, s: &[COp]) -> Vec<COp> {
    let mut k = 0;
    s.iter()
        .map(|o| match o {
            COp::Send(_) => {
                k += 1;
                COp::Send((10 * t + k) as u32)
            }
            COp::TrySend(_) => {
                k += 1;
                COp::TrySend((10 * t + k) as u32)
            }
            o => o.clone(),
        })
        .collect()
}

/// main = receiver (ops between spawns and joins), children = senders.
fn main_receives(cap: Option<usize>, senders: usize, ks: usize, kr: usize, max_size: usize) -> Vec<Program<MpscFam>> {
    let ss = sender_seqs(ks, cap.is_some());
    let rs = receiver_seqs(kr);
    let mut out = Vec::new();
    for idx in nondecreasing_tuples(ss.len(), senders) {
        for r in &rs {
            let ch: Vec<Vec<COp>> = idx.iter().enumerate().map(|(i, &j)| assign_values(i + 1, &ss[j])).collect();
            let size = r.len() + ch.iter().map(|c| c.len()).sum::<usize>();
            if size > max_size {
                continue;
            }
            let cfg = CCfg {
                cap,
                tx_threads: (1..=senders).collect(),
            };
            out.push(Program::fork_join(cfg, r.clone(), ch));
        }
    }
    out
}

/// child 1 = receiver, main and the other children = senders.
fn child_receives(cap: Option<usize>, other_senders: usize, ks: usize, kr: usize, max_size: usize) -> Vec<Program<MpscFam>> {
    let ss = sender_seqs(ks, cap.is_some());
    let rs = receiver_seqs(kr);
    let mut out = Vec::new();
    for ms in &ss {
        for idx in nondecreasing_tuples(ss.len(), other_senders) {
            for r in &rs {
                let mut ch: Vec<Vec<COp>> = vec![r.clone()];
                for (i, &j) in idx.iter().enumerate() {
                    ch.push(assign_values(i + 2, &ss[j]));
                }
                let size = ms.len() + ch.iter().map(|c| c.len()).sum::<usize>();
                if size > max_size {
                    continue;
                }
                let mut tx_threads = vec![0];
                tx_threads.extend(2..2 + other_senders);
                let cfg = CCfg { cap, tx_threads };
                out.push(Program::fork_join(cfg, assign_values(0, ms), ch));
            }
        }
    }
    out
}

/// A task blocked in a channel operation is unparked, released by the channel, and parks: the token
/// must have survived (and a second park blocks).  T1 = the one that blocks and parks.
fn mix_programs() -> Vec<Program<MpscFam>> {
    let mut out = Vec::new();
    for parks in [vec![COp::Park], vec![COp::Park, COp::Park]] {
        for cap in [None, Some(0), Some(1)] {
            // T1 receives (blocked on the empty channel); T2 unparks it and then sends (or the reverse)
            for t2 in [vec![COp::Unpark(1), COp::Send(7)], vec![COp::Send(7), COp::Unpark(1)], vec![COp::Unpark(1), COp::Unpark(1), COp::Send(7)], vec![COp::Unpark(1), COp::DropTx]] {
                let mut t1 = vec![COp::Recv];
                t1.extend(parks.clone());
                out.push(Program::fork_join(CCfg { cap, tx_threads: vec![2] }, vec![], vec![t1, t2]));
            }
        }
        for cap in [Some(0), Some(1)] {
            // T1 sends (blocked: rendezvous / full channel); T2 unparks it and then receives
            for t2 in [vec![COp::Unpark(1), COp::Recv, COp::Recv], vec![COp::Recv, COp::Unpark(1), COp::Recv]] {
                let mut t1 = vec![COp::Send(1), COp::Send(2)];
                t1.extend(parks.clone());
                out.push(Program::fork_join(CCfg { cap, tx_threads: vec![1] }, vec![], vec![t1, t2]));
            }
        }
    }
    out.sort_by_key(|p| p.size());
    out
}

pub fn program_set(set: &str) -> Vec<Program<MpscFam>> {
    if set == "mix" {
        return mix_programs();
    }
    if let Some(base) = set.strip_suffix("-alt") {
        // the same programs with `recv` through recv_timeout (even threads) / iter().next() (odd threads)
        return program_set(base).into_iter().filter(|p| p.threads.iter().flatten().any(|o| matches!(o, GOp::Op(COp::Recv)))).collect();
    }
    let thorough = set == "thorough";
    let mut out = Vec::new();
    for cap in [None, Some(0), Some(1), Some(2)] {
        if thorough {
            out.extend(main_receives(cap, 1, 3, 3, 7));
            out.extend(main_receives(cap, 2, 2, 3, 7));
            out.extend(child_receives(cap, 0, 3, 3, 7));
            out.extend(child_receives(cap, 1, 2, 3, 7));
            out.extend(main_receives(cap, 3, 1, 3, 6));
        } else {
            out.extend(main_receives(cap, 1, 2, 2, 5));
            out.extend(main_receives(cap, 2, 2, 2, 5));
            out.extend(child_receives(cap, 0, 2, 2, 5));
            out.extend(child_receives(cap, 1, 1, 2, 5));
        }
    }
    // a scope owner blocked in recv inside the scope body while the last scoped thread exits
    for cap in [None, Some(0), Some(1)] {
        for scoped in [vec![], vec![COp::DropTx]] {
            for sender in [vec![], vec![COp::Send(21)], vec![COp::DropTx]] {
                let mut main = vec![GOp::Spawn(2), GOp::ScopeBegin(vec![1]), GOp::Op(COp::Recv), GOp::ScopeEnd, GOp::Join(2)];
                if scoped.is_empty() {
                    main.insert(0, GOp::Op(COp::TryRecv));
                }
                let txs = if scoped.is_empty() { vec![2] } else { vec![1, 2] };
                out.push(Program {
                    cfg: CCfg { cap, tx_threads: txs },
                    threads: vec![
                        main,
                        scoped.iter().cloned().map(GOp::Op).collect(),
                        sender.iter().cloned().map(GOp::Op).collect(),
                    ],
                });
            }
        }
    }
    out.sort_by_key(|p| p.size());
    out
}
