//! E1 — exhaustive explorer plugged in as Shuttle's `Scheduler`.
//!
//! The explorer owns every nondeterministic choice the runtime delegates: `next_task` (interleaving),
//! `next_u64` (data) and, optionally, "stop this execution here" (`None` from `next_task`).  It walks
//! the complete choice tree depth-first, statelessly: each execution replays the stored prefix and
//! then takes the first alternative at every new decision.  While replaying a prefix it compares what
//! the runtime offers with what was recorded; any difference is a *machinery error* (uncaptured
//! nondeterminism), never a verdict.
//!
//! The state lives behind `Rc<RefCell<_>>` shared between the `Scheduler` handle given to a `Runner`
//! and the driver, so it survives `Runner::run` unwinding after a deadlock / task panic.

use shuttle_engine::scheduler::{Schedule, ScheduleStep, Scheduler, Task, TaskId};
use std::cell::{Cell, RefCell};
use std::rc::Rc;

thread_local! {
    /// Number of scheduler calls (`next_task` + `next_u64`) answered so far in the current execution.
    /// The program interpreter stamps its log entries with it, which partitions the log into the
    /// runtime's atomic steps.
    pub static DECISION: Cell<usize> = const { Cell::new(0) };
}

pub fn decision_stamp() -> usize {
    DECISION.with(|d| d.get())
}

#[derive(Clone, Debug, PartialEq, Eq)]
pub struct Offered {
    pub id: usize,
    pub runnable: bool,
    pub spurious: bool,
    pub detached: bool,
}

#[derive(Clone, Debug, PartialEq, Eq)]
pub enum Alt {
    Task(usize),
    Stop,
    Rand(u64),
}

#[derive(Clone, Debug, PartialEq, Eq)]
pub enum NodeKind {
    Task {
        offered: Vec<Offered>,
        current: Option<usize>,
        yielding: bool,
    },
    Rand,
}

#[derive(Clone, Debug)]
pub struct Node {
    pub kind: NodeKind,
    pub alts: Vec<Alt>,
    pub idx: usize,
    /// preemptions on the path up to (not including) this node
    pub preempt_before: usize,
}

impl Node {
    pub fn chosen(&self) -> &Alt {
        &self.alts[self.idx]
    }
}

#[derive(Clone, Debug)]
pub struct Options {
    /// `None` = full tree. `Some(b)` = at most b preemptions per execution.
    pub preemption_bound: Option<usize>,
    /// Values offered at every `next_u64`.
    pub rand_menu: Vec<u64>,
    /// Additionally offer "stop the execution here" at every task decision.
    pub stop_children: bool,
    /// Hard horizon on the number of decisions in one execution (a hit is reported as a cap).
    pub max_depth: usize,
    /// Seed put in the `Schedule` returned from `new_execution`.
    pub seed: u64,
    /// Answer `next_u64` from the stream a built-in scheduler would produce for `seed`
    /// (Pcg64Mcg seeded per execution) instead of branching over `rand_menu`: the execution is then
    /// determined by (seed, task choices) like under the built-in schedulers, and replayable.
    pub data_from_seed: bool,
}

impl Default for Options {
    fn default() -> Self {
        Options {
            preemption_bound: None,
            rand_menu: vec![0],
            stop_children: false,
            max_depth: 400,
            seed: 0,
            data_from_seed: false,
        }
    }
}

#[derive(Debug, Default, Clone)]
pub struct Stats {
    pub executions: u64,
    pub decisions: u64,
    pub max_depth: usize,
    pub depth_cap_hits: u64,
}

pub struct State {
    pub opts: Options,
    pub stack: Vec<Node>,
    pub pos: usize,
    /// nodes below this index are fixed (shard prefix) and never backtracked
    pub floor: usize,
    pub in_execution: bool,
    pub started_once: bool,
    pub exhausted: bool,
    pub diverged: Option<String>,
    /// Scheduler-contract breach seen by the explorer itself: the runtime kept calling the scheduler
    /// for an execution after the scheduler had answered `None` ("returning no task ends the
    /// execution").  (message, path of that execution up to the `None`)
    pub after_stop: Option<(String, Vec<Node>)>,
    pub stats: Stats,
    /// If set, executions are allowed by `new_execution` until this many have been started in the
    /// current `Runner::run`; used by multi-execution drivers. Default: one execution per run.
    pub executions_per_run: usize,
    pub started_in_run: usize,
    /// Stop was chosen in the current execution
    pub stopped: bool,
    /// Snapshot of the path of the most recently finished execution
    pub last_path: Vec<Node>,
    /// Paths (and whether Stop was chosen) of all executions finished since the queue was last drained
    pub finished: Vec<(Vec<Node>, bool)>,
    pub data_rng: Option<rand_pcg::Pcg64Mcg>,
}

#[derive(Clone)]
pub struct Explorer {
    pub st: Rc<RefCell<State>>,
}

// The Runner requires `S: 'static` only; Explorer is used on one OS thread.
impl Explorer {
    pub fn new(opts: Options) -> Self {
        Explorer {
            st: Rc::new(RefCell::new(State {
                opts,
                stack: Vec::new(),
                pos: 0,
                floor: 0,
                in_execution: false,
                started_once: false,
                exhausted: false,
                diverged: None,
                after_stop: None,
                stats: Stats::default(),
                executions_per_run: 1,
                started_in_run: 0,
                stopped: false,
                last_path: Vec::new(),
                finished: Vec::new(),
                data_rng: None,
            })),
        }
    }

    pub fn handle(&self) -> Explorer {
        self.st.borrow_mut().started_in_run = 0;
        Explorer { st: self.st.clone() }
    }

    /// Finish the execution in progress (if any) and move to the next leaf. Returns false when the
    /// tree is exhausted.
    pub fn advance(&self) -> bool {
        let mut s = self.st.borrow_mut();
        s.finish_execution();
        !s.exhausted
    }

    pub fn set_executions_per_run(&self, n: usize) {
        self.st.borrow_mut().executions_per_run = n;
    }

    pub fn drain_finished(&self) -> Vec<(Vec<Node>, bool)> {
        std::mem::take(&mut self.st.borrow_mut().finished)
    }

    pub fn exhausted(&self) -> bool {
        self.st.borrow().exhausted
    }

    pub fn diverged(&self) -> Option<String> {
        self.st.borrow().diverged.clone()
    }
    pub fn after_stop(&self) -> Option<(String, Vec<Node>)> {
        self.st.borrow().after_stop.clone()
    }

    pub fn stats(&self) -> Stats {
        self.st.borrow().stats.clone()
    }

    /// The choices of the most recently finished execution.
    pub fn path(&self) -> Vec<Node> {
        self.st.borrow().last_path.clone()
    }

    /// Independent reconstruction of the schedule of the execution that just ran.
    pub fn reconstructed_schedule(&self) -> Schedule {
        let s = self.st.borrow();
        let mut sch = Schedule::new(s.opts.seed);
        for n in &s.last_path {
            match n.chosen() {
                Alt::Task(t) => sch.steps.push(ScheduleStep::Task(TaskId::from(*t))),
                Alt::Rand(_) => sch.steps.push(ScheduleStep::Random),
                Alt::Stop => {}
            }
        }
        sch
    }

    pub fn choice_indices(&self) -> Vec<usize> {
        self.st.borrow().last_path.iter().map(|n| n.idx).collect()
    }

    pub fn preemptions(&self) -> usize {
        let s = self.st.borrow();
        match s.last_path.last() {
            None => 0,
            Some(n) => n.preempt_before + s.cost(n, n.chosen()),
        }
    }
}

impl State {
    fn finish_execution(&mut self) {
        if !self.in_execution {
            return;
        }
        self.in_execution = false;
        // drop nodes beyond what this execution reached (can only happen after divergence)
        let reached = self.pos;
        self.stack.truncate(reached);
        self.last_path = self.stack.clone();
        self.finished.push((self.last_path.clone(), self.stopped));
        // backtrack
        loop {
            if self.stack.len() <= self.floor {
                self.exhausted = true;
                return;
            }
            let last = self.stack.last_mut().unwrap();
            if last.idx + 1 < last.alts.len() {
                last.idx += 1;
                return;
            }
            self.stack.pop();
        }
    }

    fn cost(&self, n: &Node, alt: &Alt) -> usize {
        match (&n.kind, alt) {
            (
                NodeKind::Task {
                    offered,
                    current: Some(cur),
                    yielding,
                },
                Alt::Task(t),
            ) => {
                // switching away from a task that is offered and really runnable, without it having
                // asked to yield, is a preemption
                if t != cur && !*yielding && offered.iter().any(|o| o.id == *cur && o.runnable) {
                    1
                } else {
                    0
                }
            }
            _ => 0,
        }
    }

    fn preempt_before_next(&self) -> usize {
        if self.pos == 0 {
            0
        } else {
            let n = &self.stack[self.pos - 1];
            n.preempt_before + self.cost(n, n.chosen())
        }
    }

    fn decide(&mut self, kind: NodeKind) -> Alt {
        DECISION.with(|d| d.set(d.get() + 1));
        self.stats.decisions += 1;
        if self.pos < self.stack.len() {
            // replaying the stored prefix: determinism self-check
            if self.stack[self.pos].kind != kind {
                let msg = format!(
                    "replay divergence at depth {}: recorded {:?}, now {:?}",
                    self.pos, self.stack[self.pos].kind, kind
                );
                if self.diverged.is_none() {
                    self.diverged = Some(msg);
                }
                // keep going on some legal alternative so that the runtime can wind down
                self.stack.truncate(self.pos);
                return self.decide_new(kind);
            }
            let alt = self.stack[self.pos].chosen().clone();
            self.pos += 1;
            return alt;
        }
        self.decide_new(kind)
    }

    fn decide_new(&mut self, kind: NodeKind) -> Alt {
        let pb = self.preempt_before_next();
        let mut alts = Vec::new();
        match &kind {
            NodeKind::Task {
                offered,
                current,
                yielding,
            } => {
                let cur_in = current.and_then(|c| offered.iter().find(|o| o.id == c));
                if let Some(c) = cur_in {
                    alts.push(Alt::Task(c.id));
                }
                let can_preempt = match self.opts.preemption_bound {
                    None => true,
                    Some(b) => {
                        // leaving `current` is free if it is not really runnable or it yielded
                        let free = match cur_in {
                            None => true,
                            Some(c) => !c.runnable || *yielding,
                        };
                        free || pb < b
                    }
                };
                if can_preempt {
                    for o in offered {
                        if Some(o.id) != cur_in.map(|c| c.id) {
                            alts.push(Alt::Task(o.id));
                        }
                    }
                }
                if self.opts.stop_children {
                    alts.push(Alt::Stop);
                }
                if self.pos >= self.opts.max_depth {
                    // horizon: abandon this execution
                    self.stats.depth_cap_hits += 1;
                    alts = vec![Alt::Stop];
                }
            }
            NodeKind::Rand => {
                if self.opts.data_from_seed {
                    // (not reached: seeded draws are answered in `decide_rand_seeded`)
                    alts.push(Alt::Rand(0));
                } else {
                    for v in &self.opts.rand_menu {
                        alts.push(Alt::Rand(*v));
                    }
                }
            }
        }
        assert!(!alts.is_empty());
        let node = Node {
            kind,
            alts,
            idx: 0,
            preempt_before: pb,
        };
        let alt = node.chosen().clone();
        self.stack.push(node);
        self.pos += 1;
        if self.pos > self.stats.max_depth {
            self.stats.max_depth = self.pos;
        }
        alt
    }
}

pub fn offered_of(runnable: &[&Task]) -> Vec<Offered> {
    runnable
        .iter()
        .map(|t| Offered {
            id: usize::from(t.id()),
            runnable: t.runnable(),
            spurious: t.can_spuriously_wakeup(),
            detached: t.is_detached(),
        })
        .collect()
}

impl Scheduler for Explorer {
    fn new_execution(&mut self) -> Option<Schedule> {
        let mut s = self.st.borrow_mut();
        if s.in_execution {
            s.finish_execution();
        }
        if s.exhausted || s.started_in_run >= s.executions_per_run {
            return None;
        }
        s.started_in_run += 1;
        s.in_execution = true;
        s.started_once = true;
        s.stopped = false;
        s.pos = 0;
        s.stats.executions += 1;
        DECISION.with(|d| d.set(0));
        if s.opts.data_from_seed {
            use rand::SeedableRng;
            s.data_rng = Some(rand_pcg::Pcg64Mcg::seed_from_u64(s.opts.seed));
        }
        Some(Schedule::new(s.opts.seed))
    }

    fn next_task(&mut self, runnable: &[&Task], current: Option<TaskId>, is_yielding: bool) -> Option<TaskId> {
        let mut s = self.st.borrow_mut();
        if s.stopped {
            // the execution was ended by our `None`; stay with that answer so the runtime winds down
            if s.after_stop.is_none() {
                let upto = s.pos.min(s.stack.len());
                let path = s.stack[..upto].to_vec();
                s.after_stop = Some((
                    format!(
                        "next_task called again (offered {:?}, current {:?}) after the scheduler had returned None for this execution",
                        runnable.iter().map(|t| usize::from(t.id())).collect::<Vec<_>>(),
                        current.map(usize::from)
                    ),
                    path,
                ));
            }
            return None;
        }
        let kind = NodeKind::Task {
            offered: offered_of(runnable),
            current: current.map(usize::from),
            yielding: is_yielding,
        };
        match s.decide(kind) {
            Alt::Task(t) => Some(TaskId::from(t)),
            Alt::Stop => {
                s.stopped = true;
                None
            }
            Alt::Rand(_) => {
                s.diverged.get_or_insert("rand alternative at task node".into());
                Some(runnable[0].id())
            }
        }
    }

    fn next_u64(&mut self) -> u64 {
        let mut s = self.st.borrow_mut();
        if s.stopped {
            // user code drawing random data after the scheduler ended the execution
            if s.after_stop.is_none() {
                let upto = s.pos.min(s.stack.len());
                let path = s.stack[..upto].to_vec();
                s.after_stop = Some(("next_u64 called after the scheduler had returned None for this execution".into(), path));
            }
            return 0;
        }
        if s.opts.data_from_seed {
            // a draw is a step of the schedule but not a branching point
            use rand::RngCore;
            let v = s.data_rng.as_mut().expect("data rng").next_u64();
            DECISION.with(|d| d.set(d.get() + 1));
            s.stats.decisions += 1;
            if s.pos < s.stack.len() {
                if s.stack[s.pos].kind != NodeKind::Rand || s.stack[s.pos].alts != vec![Alt::Rand(v)] {
                    let msg = format!("replay divergence at depth {}: recorded {:?}, now a draw of {}", s.pos, s.stack[s.pos].kind, v);
                    s.diverged.get_or_insert(msg);
                    let p = s.pos;
                    s.stack.truncate(p);
                }
            }
            if s.pos >= s.stack.len() {
                let pb = s.preempt_before_next();
                s.stack.push(Node {
                    kind: NodeKind::Rand,
                    alts: vec![Alt::Rand(v)],
                    idx: 0,
                    preempt_before: pb,
                });
            }
            s.pos += 1;
            return v;
        }
        match s.decide(NodeKind::Rand) {
            Alt::Rand(v) => v,
            _ => {
                s.diverged.get_or_insert("task alternative at rand node".into());
                0
            }
        }
    }
}

/// A scheduler that follows a fixed list of alternatives (for `--replay`): no exploration.
pub struct FixedScheduler {
    pub alts: Vec<Alt>,
    pub pos: usize,
    pub started: bool,
    pub seed: u64,
    pub mismatch: Rc<RefCell<Option<String>>>,
}

impl FixedScheduler {
    pub fn new(alts: Vec<Alt>, seed: u64) -> Self {
        FixedScheduler {
            alts,
            pos: 0,
            started: false,
            seed,
            mismatch: Rc::new(RefCell::new(None)),
        }
    }
}

impl Scheduler for FixedScheduler {
    fn new_execution(&mut self) -> Option<Schedule> {
        if self.started {
            return None;
        }
        self.started = true;
        DECISION.with(|d| d.set(0));
        Some(Schedule::new(self.seed))
    }
    fn next_task(&mut self, runnable: &[&Task], _c: Option<TaskId>, _y: bool) -> Option<TaskId> {
        DECISION.with(|d| d.set(d.get() + 1));
        let a = self.alts.get(self.pos).cloned();
        self.pos += 1;
        match a {
            Some(Alt::Task(t)) if runnable.iter().any(|r| usize::from(r.id()) == t) => Some(TaskId::from(t)),
            Some(Alt::Stop) | None => None,
            other => {
                *self.mismatch.borrow_mut() = Some(format!("replay mismatch at {}: {:?}", self.pos - 1, other));
                None
            }
        }
    }
    fn next_u64(&mut self) -> u64 {
        DECISION.with(|d| d.set(d.get() + 1));
        let a = self.alts.get(self.pos).cloned();
        self.pos += 1;
        match a {
            Some(Alt::Rand(v)) => v,
            other => {
                *self.mismatch.borrow_mut() = Some(format!("replay mismatch at {}: {:?}", self.pos - 1, other));
                0
            }
        }
    }
}


/// One call made by the runtime to a scheduler, as seen by a recording wrapper.
#[derive(Clone, Debug, PartialEq, Eq)]
pub enum RecEvent {
    NewExecution(Option<u64>),
    Task {
        offered: Vec<usize>,
        current: Option<usize>,
        yielding: bool,
        chosen: Option<usize>,
    },
    Rand(u64),
}

/// Records every call and answer of the wrapped scheduler.
pub struct RecSched<S: Scheduler> {
    pub inner: S,
    pub rec: Rc<RefCell<Vec<RecEvent>>>,
}

impl<S: Scheduler> RecSched<S> {
    pub fn new(inner: S) -> (Self, Rc<RefCell<Vec<RecEvent>>>) {
        let rec = Rc::new(RefCell::new(Vec::new()));
        (RecSched { inner, rec: rec.clone() }, rec)
    }
}

impl<S: Scheduler> Scheduler for RecSched<S> {
    fn new_execution(&mut self) -> Option<Schedule> {
        let r = self.inner.new_execution();
        DECISION.with(|d| d.set(0));
        self.rec.borrow_mut().push(RecEvent::NewExecution(r.as_ref().map(|s| s.seed)));
        r
    }
    fn next_task(&mut self, runnable: &[&Task], current: Option<TaskId>, is_yielding: bool) -> Option<TaskId> {
        // keep the decision stamp in step with what the explorer does, so that body logs compare equal
        DECISION.with(|d| d.set(d.get() + 1));
        let r = self.inner.next_task(runnable, current, is_yielding);
        self.rec.borrow_mut().push(RecEvent::Task {
            offered: runnable.iter().map(|t| usize::from(t.id())).collect(),
            current: current.map(usize::from),
            yielding: is_yielding,
            chosen: r.map(usize::from),
        });
        r
    }
    fn next_u64(&mut self) -> u64 {
        DECISION.with(|d| d.set(d.get() + 1));
        let v = self.inner.next_u64();
        self.rec.borrow_mut().push(RecEvent::Rand(v));
        v
    }
}

/// The calls the explorer saw on a path, in the same vocabulary.
pub fn path_events(path: &[Node]) -> Vec<RecEvent> {
    path.iter()
        .map(|n| match (&n.kind, n.chosen()) {
            (NodeKind::Task { offered, current, yielding }, alt) => RecEvent::Task {
                offered: offered.iter().map(|o| o.id).collect(),
                current: *current,
                yielding: *yielding,
                chosen: match alt {
                    Alt::Task(t) => Some(*t),
                    _ => None,
                },
            },
            (NodeKind::Rand, Alt::Rand(v)) => RecEvent::Rand(*v),
            (NodeKind::Rand, _) => RecEvent::Rand(0),
        })
        .collect()
}
