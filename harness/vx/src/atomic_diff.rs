//! C04 (ii): sequential, bounded-exhaustive differential of every Shuttle atomic type against
//! `std::sync::atomic` (and against plain wrapping integer arithmetic, which also covers the 128-bit
//! types std does not offer on stable): every operation × every operand pair of the type's boundary
//! set (all 256×256 pairs for the 8-bit types) × every ordering std accepts, executed inside a
//! Shuttle execution.

use serde_json::{json, Value};
use shuttle::sync::atomic as sa;
use std::sync::atomic as st;
use std::sync::atomic::Ordering::{self, *};

const RMW_ORD: [Ordering; 5] = [Relaxed, Acquire, Release, AcqRel, SeqCst];
const LOAD_ORD: [Ordering; 3] = [Relaxed, Acquire, SeqCst];
const STORE_ORD: [Ordering; 3] = [Relaxed, Release, SeqCst];

#[derive(Default)]
pub struct DiffStats {
    pub evaluations: u64,
    pub classes: std::collections::BTreeSet<String>,
    pub mismatches: Vec<Value>,
    pub samples: Vec<Value>,
}

impl DiffStats {
    fn mismatch(&mut self, ty: &str, op: &str, a: String, b: String, ord: String, got: String, want: String) {
        if self.mismatches.len() < 50 {
            self.mismatches.push(json!({"type": ty, "op": op, "init": a, "operand": b, "ordering": ord, "shuttle": got, "reference": want}));
        }
    }
}

macro_rules! boundary {
    ($t:ty) => {{
        let mut v: Vec<$t> = Vec::new();
        if std::mem::size_of::<$t>() == 1 {
            let mut x = <$t>::MIN;
            loop {
                v.push(x);
                if x == <$t>::MAX {
                    break;
                }
                x += 1;
            }
        } else {
            let bits = (std::mem::size_of::<$t>() * 8) as u32;
            let alt1 = (0..bits).step_by(2).fold(0 as $t, |acc, i| acc | ((1 as $t) << i));
            let alt2 = !alt1;
            for x in [
                <$t>::MIN,
                <$t>::MIN.wrapping_add(1),
                (0 as $t).wrapping_sub(1),
                0,
                1,
                2,
                <$t>::MAX.wrapping_sub(1),
                <$t>::MAX,
                alt1,
                alt2,
                <$t>::MAX / 2,
                (<$t>::MAX / 2).wrapping_add(1),
            ] {
                if !v.contains(&x) {
                    v.push(x);
                }
            }
        }
        v
    }};
}

/// One operation on the Shuttle atomic and on the reference (closure over a plain integer), compared.
macro_rules! int_diff {
    ($fname:ident, $name:literal, $sa:ty, $t:ty, $std:expr) => {
        pub fn $fname(full: bool, s: &mut DiffStats) {
            let vals = boundary!($t);
            // quick tier: every 5th value of an 8-bit type plus its boundaries (thorough: all 256)
            let vals: Vec<$t> = if full || vals.len() <= 16 {
                vals
            } else {
                let keep: Vec<$t> = vec![<$t>::MIN, <$t>::MIN.wrapping_add(1), (0 as $t).wrapping_sub(1), 0, 1, <$t>::MAX.wrapping_sub(1), <$t>::MAX];
                vals.iter().enumerate().filter(|(i, v)| i % 5 == 0 || keep.contains(v)).map(|(_, v)| *v).collect()
            };
            let ty = $name;
            // reference semantics on a plain integer
            let rmw_ops: Vec<(&str, fn($t, $t) -> $t)> = vec![
                ("fetch_add", |o, v| o.wrapping_add(v)),
                ("fetch_sub", |o, v| o.wrapping_sub(v)),
                ("fetch_and", |o, v| o & v),
                ("fetch_nand", |o, v| !(o & v)),
                ("fetch_or", |o, v| o | v),
                ("fetch_xor", |o, v| o ^ v),
                ("fetch_max", |o, v| o.max(v)),
                ("fetch_min", |o, v| o.min(v)),
                ("swap", |_o, v| v),
            ];
            for &a in &vals {
                for &b in &vals {
                    for (opname, rf) in &rmw_ops {
                        for ord in RMW_ORD {
                            let x = <$sa>::new(a);
                            let got = match *opname {
                                "fetch_add" => x.fetch_add(b, ord),
                                "fetch_sub" => x.fetch_sub(b, ord),
                                "fetch_and" => x.fetch_and(b, ord),
                                "fetch_nand" => x.fetch_nand(b, ord),
                                "fetch_or" => x.fetch_or(b, ord),
                                "fetch_xor" => x.fetch_xor(b, ord),
                                "fetch_max" => x.fetch_max(b, ord),
                                "fetch_min" => x.fetch_min(b, ord),
                                "swap" => x.swap(b, ord),
                                _ => unreachable!(),
                            };
                            let fin = x.load(SeqCst);
                            let want_fin = rf(a, b);
                            s.evaluations += 1;
                            if got != a || fin != want_fin {
                                s.mismatch(ty, opname, format!("{a}"), format!("{b}"), format!("{ord:?}"), format!("ret {got} final {fin}"), format!("ret {a} final {want_fin}"));
                            }
                            if fin != a {
                                s.classes.insert(format!("{ty}.{opname}:changes"));
                            } else {
                                s.classes.insert(format!("{ty}.{opname}:keeps"));
                            }
                            // std cross-check (where std has the type)
                            #[allow(unused_variables)]
                            let std_check: Option<fn($t, $t, &str, Ordering) -> ($t, $t)> = $std;
                            if let Some(f) = std_check {
                                let (sr, sf) = f(a, b, opname, ord);
                                if sr != got || sf != fin {
                                    s.mismatch(ty, opname, format!("{a}"), format!("{b}"), format!("{ord:?}"), format!("ret {got} final {fin}"), format!("std: ret {sr} final {sf}"));
                                }
                            }
                        }
                    }
                    // compare_exchange family: `a` initial, expected ∈ {a, b}, new = b^1-ish
                    for (exp, tag) in [(a, "hit"), (b, "maybe-miss")] {
                        let new = b.wrapping_add(1);
                        for so in RMW_ORD {
                            for fo in LOAD_ORD {
                                for which in ["compare_exchange", "compare_exchange_weak", "compare_and_swap"] {
                                    let x = <$sa>::new(a);
                                    #[allow(deprecated)]
                                    let got: Result<$t, $t> = match which {
                                        "compare_exchange" => x.compare_exchange(exp, new, so, fo),
                                        "compare_exchange_weak" => x.compare_exchange_weak(exp, new, so, fo),
                                        _ => {
                                            let r = x.compare_and_swap(exp, new, so);
                                            if r == exp {
                                                Ok(r)
                                            } else {
                                                Err(r)
                                            }
                                        }
                                    };
                                    let fin = x.load(SeqCst);
                                    let (want, want_fin) = if a == exp { (Ok(a), new) } else { (Err(a), a) };
                                    s.evaluations += 1;
                                    if got != want || fin != want_fin {
                                        s.mismatch(ty, which, format!("{a}"), format!("exp {exp} new {new}"), format!("{so:?}/{fo:?}"), format!("{got:?} final {fin}"), format!("{want:?} final {want_fin}"));
                                    }
                                    s.classes.insert(format!("{ty}.{which}:{}", if a == exp { "success" } else { "failure" }));
                                    let _ = tag;
                                }
                            }
                        }
                    }
                    // fetch_update with a partial function
                    for so in RMW_ORD {
                        for fo in LOAD_ORD {
                            let x = <$sa>::new(a);
                            let got = x.fetch_update(so, fo, |v| if v & 1 == 0 { Some(v ^ b) } else { None });
                            let fin = x.load(SeqCst);
                            let (want, want_fin) = if a & 1 == 0 { (Ok(a), a ^ b) } else { (Err(a), a) };
                            s.evaluations += 1;
                            if got != want || fin != want_fin {
                                s.mismatch(ty, "fetch_update", format!("{a}"), format!("{b}"), format!("{so:?}/{fo:?}"), format!("{got:?} final {fin}"), format!("{want:?} final {want_fin}"));
                            }
                            s.classes.insert(format!("{ty}.fetch_update:{}", if a & 1 == 0 { "some" } else { "none" }));
                        }
                    }
                }
                // load / store / get_mut / into_inner
                for lo in LOAD_ORD {
                    let x = <$sa>::new(a);
                    let got = x.load(lo);
                    s.evaluations += 1;
                    if got != a {
                        s.mismatch(ty, "load", format!("{a}"), "".into(), format!("{lo:?}"), format!("{got}"), format!("{a}"));
                    }
                }
                for &b in &vals {
                    for so in STORE_ORD {
                        let mut x = <$sa>::new(a);
                        x.store(b, so);
                        let got = x.load(SeqCst);
                        let gm = *x.get_mut();
                        *x.get_mut() = a;
                        let back = x.load(SeqCst);
                        let inner = x.into_inner();
                        s.evaluations += 1;
                        if got != b || gm != b || back != a || inner != a {
                            s.mismatch(ty, "store/get_mut/into_inner", format!("{a}"), format!("{b}"), format!("{so:?}"), format!("{got} {gm} {back} {inner}"), format!("{b} {b} {a} {a}"));
                        }
                    }
                }
                s.classes.insert(format!("{ty}.load"));
                s.classes.insert(format!("{ty}.store"));
            }
            if s.samples.len() < 6 {
                s.samples.push(json!({"type": ty, "operands": vals.len(), "example": format!("{}::new({}).fetch_nand({}, AcqRel)", ty, vals[vals.len()/2], vals[1])}));
            }
        }
    };
}

macro_rules! std_fn {
    ($stdty:ty, $t:ty) => {
        Some(|a: $t, b: $t, op: &str, ord: Ordering| -> ($t, $t) {
            let x = <$stdty>::new(a);
            let r = match op {
                "fetch_add" => x.fetch_add(b, ord),
                "fetch_sub" => x.fetch_sub(b, ord),
                "fetch_and" => x.fetch_and(b, ord),
                "fetch_nand" => x.fetch_nand(b, ord),
                "fetch_or" => x.fetch_or(b, ord),
                "fetch_xor" => x.fetch_xor(b, ord),
                "fetch_max" => x.fetch_max(b, ord),
                "fetch_min" => x.fetch_min(b, ord),
                "swap" => x.swap(b, ord),
                _ => unreachable!(),
            };
            (r, x.load(SeqCst))
        })
    };
}

int_diff!(diff_i8, "AtomicI8", sa::AtomicI8, i8, std_fn!(st::AtomicI8, i8));
int_diff!(diff_u8, "AtomicU8", sa::AtomicU8, u8, std_fn!(st::AtomicU8, u8));
int_diff!(diff_i16, "AtomicI16", sa::AtomicI16, i16, std_fn!(st::AtomicI16, i16));
int_diff!(diff_u16, "AtomicU16", sa::AtomicU16, u16, std_fn!(st::AtomicU16, u16));
int_diff!(diff_i32, "AtomicI32", sa::AtomicI32, i32, std_fn!(st::AtomicI32, i32));
int_diff!(diff_u32, "AtomicU32", sa::AtomicU32, u32, std_fn!(st::AtomicU32, u32));
int_diff!(diff_i64, "AtomicI64", sa::AtomicI64, i64, std_fn!(st::AtomicI64, i64));
int_diff!(diff_u64, "AtomicU64", sa::AtomicU64, u64, std_fn!(st::AtomicU64, u64));
int_diff!(diff_isize, "AtomicIsize", sa::AtomicIsize, isize, std_fn!(st::AtomicIsize, isize));
int_diff!(diff_usize, "AtomicUsize", sa::AtomicUsize, usize, std_fn!(st::AtomicUsize, usize));
int_diff!(diff_i128, "AtomicI128", sa::AtomicI128, i128, None);
int_diff!(diff_u128, "AtomicU128", sa::AtomicU128, u128, None);

pub fn diff_bool(s: &mut DiffStats) {
    let ty = "AtomicBool";
    for a in [false, true] {
        for b in [false, true] {
            for ord in RMW_ORD {
                for op in ["fetch_and", "fetch_nand", "fetch_or", "fetch_xor", "swap"] {
                    let x = sa::AtomicBool::new(a);
                    let y = st::AtomicBool::new(a);
                    let (g, w) = match op {
                        "fetch_and" => (x.fetch_and(b, ord), y.fetch_and(b, ord)),
                        "fetch_nand" => (x.fetch_nand(b, ord), y.fetch_nand(b, ord)),
                        "fetch_or" => (x.fetch_or(b, ord), y.fetch_or(b, ord)),
                        "fetch_xor" => (x.fetch_xor(b, ord), y.fetch_xor(b, ord)),
                        _ => (x.swap(b, ord), y.swap(b, ord)),
                    };
                    let (gf, wf) = (x.load(SeqCst), y.load(SeqCst));
                    s.evaluations += 1;
                    s.classes.insert(format!("{ty}.{op}:{}", if gf != a { "changes" } else { "keeps" }));
                    if g != w || gf != wf {
                        s.mismatch(ty, op, format!("{a}"), format!("{b}"), format!("{ord:?}"), format!("ret {g} final {gf}"), format!("ret {w} final {wf}"));
                    }
                }
                for fo in LOAD_ORD {
                    for exp in [false, true] {
                        for which in ["compare_exchange", "compare_exchange_weak"] {
                            let x = sa::AtomicBool::new(a);
                            let y = st::AtomicBool::new(a);
                            let (g, w) = if which == "compare_exchange" {
                                (x.compare_exchange(exp, b, ord, fo), y.compare_exchange(exp, b, ord, fo))
                            } else {
                                // std's weak form may fail spuriously; the strong form is the reference
                                (x.compare_exchange_weak(exp, b, ord, fo), y.compare_exchange(exp, b, ord, fo))
                            };
                            let (gf, wf) = (x.load(SeqCst), y.load(SeqCst));
                            s.evaluations += 1;
                            s.classes.insert(format!("{ty}.{which}:{}", if g.is_ok() { "success" } else { "failure" }));
                            if g != w || gf != wf {
                                s.mismatch(ty, which, format!("{a}"), format!("exp {exp} new {b}"), format!("{ord:?}/{fo:?}"), format!("{g:?} final {gf}"), format!("{w:?} final {wf}"));
                            }
                        }
                    }
                    let x = sa::AtomicBool::new(a);
                    let y = st::AtomicBool::new(a);
                    let g = x.fetch_update(ord, fo, |v| if v == b { Some(!v) } else { None });
                    let w = y.fetch_update(ord, fo, |v| if v == b { Some(!v) } else { None });
                    s.evaluations += 1;
                    if g != w || x.load(SeqCst) != y.load(SeqCst) {
                        s.mismatch(ty, "fetch_update", format!("{a}"), format!("{b}"), format!("{ord:?}/{fo:?}"), format!("{g:?}"), format!("{w:?}"));
                    }
                }
            }
            for so in STORE_ORD {
                let mut x = sa::AtomicBool::new(a);
                x.store(b, so);
                let g = x.load(SeqCst);
                let gm = *x.get_mut();
                let inner = x.into_inner();
                s.evaluations += 1;
                if g != b || gm != b || inner != b {
                    s.mismatch(ty, "store/get_mut/into_inner", format!("{a}"), format!("{b}"), format!("{so:?}"), format!("{g} {gm} {inner}"), format!("{b}"));
                }
            }
        }
    }
}

pub fn diff_ptr(s: &mut DiffStats) {
    let ty = "AtomicPtr";
    let mut cells = [0u32, 1, 2];
    let ptrs: Vec<*mut u32> = vec![std::ptr::null_mut(), &mut cells[0] as *mut u32, &mut cells[1] as *mut u32, &mut cells[2] as *mut u32];
    for &a in &ptrs {
        for &b in &ptrs {
            for ord in RMW_ORD {
                let x = sa::AtomicPtr::new(a);
                let g = x.swap(b, ord);
                s.evaluations += 1;
                if g != a || x.load(SeqCst) != b {
                    s.mismatch(ty, "swap", format!("{a:?}"), format!("{b:?}"), format!("{ord:?}"), format!("{g:?}"), format!("{a:?}"));
                }
                for fo in LOAD_ORD {
                    for &exp in &ptrs {
                        let x = sa::AtomicPtr::new(a);
                        let y = st::AtomicPtr::new(a);
                        let g = x.compare_exchange(exp, b, ord, fo);
                        let w = y.compare_exchange(exp, b, ord, fo);
                        s.evaluations += 1;
                        s.classes.insert(format!("{ty}.compare_exchange:{}", if g.is_ok() { "success" } else { "failure" }));
                        if g != w || x.load(SeqCst) != y.load(SeqCst) {
                            s.mismatch(ty, "compare_exchange", format!("{a:?}"), format!("exp {exp:?} new {b:?}"), format!("{ord:?}/{fo:?}"), format!("{g:?}"), format!("{w:?}"));
                        }
                    }
                }
            }
            for so in STORE_ORD {
                let x = sa::AtomicPtr::new(a);
                x.store(b, so);
                s.evaluations += 1;
                if x.load(SeqCst) != b {
                    s.mismatch(ty, "store", format!("{a:?}"), format!("{b:?}"), format!("{so:?}"), "".into(), "".into());
                }
            }
        }
    }
}

pub const TYPES: usize = 14;

/// Run the differential for type number `i` inside one Shuttle execution; returns a JSON report.
pub fn run_type(i: usize, full: bool) -> Value {
    crate::common::silence_panics();
    let out = std::sync::Arc::new(std::sync::Mutex::new(DiffStats::default()));
    let out2 = out.clone();
    let mut cfg = shuttle_engine::Config::new();
    cfg.max_steps = shuttle_engine::MaxSteps::None;
    cfg.failure_persistence = shuttle_engine::FailurePersistence::None;
    cfg.silence_warnings = true;
    let r = std::panic::catch_unwind(std::panic::AssertUnwindSafe(|| {
        shuttle_engine::Runner::new(shuttle_schedulers::RoundRobinScheduler::new(1), cfg).run(move || {
            let mut s = out2.lock().unwrap();
            match i {
                0 => diff_i8(full, &mut s),
                1 => diff_u8(full, &mut s),
                2 => diff_i16(full, &mut s),
                3 => diff_u16(full, &mut s),
                4 => diff_i32(full, &mut s),
                5 => diff_u32(full, &mut s),
                6 => diff_i64(full, &mut s),
                7 => diff_u64(full, &mut s),
                8 => diff_isize(full, &mut s),
                9 => diff_usize(full, &mut s),
                10 => diff_i128(full, &mut s),
                11 => diff_u128(full, &mut s),
                12 => diff_bool(&mut s),
                _ => diff_ptr(&mut s),
            }
        });
    }));
    let s = match out.lock() {
        Ok(g) => g,
        Err(p) => p.into_inner(),
    };
    json!({
        "type_index": i,
        "evaluations": s.evaluations,
        "classes": s.classes.iter().cloned().collect::<Vec<_>>(),
        "mismatches": s.mismatches,
        "samples": s.samples,
        "panic": r.err().map(|p| crate::prog::payload_to_string(&p)),
    })
}
