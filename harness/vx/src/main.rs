mod stackcache;
use vx::common::Tier;
use vx::{checks, drive};

fn main() {
    let args: Vec<String> = std::env::args().collect();
    match args.get(1).map(|s| s.as_str()) {
        Some("check") => {
            let id = args.get(2).cloned().unwrap_or_default();
            match args.get(3).map(|s| s.as_str()) {
                Some("--replay") => checks::replay_file(&id, args.get(4).expect("replay path")),
                Some("thorough") => checks::run_check(&id, Tier::Thorough),
                Some("quick") | None => {
                    let tier = match std::env::var("VERIF_TIER").as_deref() {
                        Ok("thorough") => Tier::Thorough,
                        _ => Tier::Quick,
                    };
                    checks::run_check(&id, tier)
                }
                Some(x) => {
                    eprintln!("unknown tier {}", x);
                    std::process::exit(2)
                }
            }
        }
        Some("wrappers") => {
            // wrappers <programs per family> <shard> <nshards>
            let _orig = vx::common::mute_stderr();
            if std::env::var("VX_NO_STACK_CACHE").is_err() {
                stackcache::enable();
            }
            let n = |i: usize, d: usize| args.get(i).and_then(|a| a.parse::<usize>().ok()).unwrap_or(d);
            println!("{}", vx::wrappers::run(n(2, 3), n(3, 0), n(4, 1).max(1)));
        }
        Some("atomic-diff") => {
            let _orig = vx::common::mute_stderr();
            let i: usize = args[2].parse().unwrap();
            let full = args[3] == "full";
            println!("{}", vx::atomic_diff::run_type(i, full));
        }
        Some("bench") => {
            if std::env::var("VX_LOUD").is_err() {
                let _orig = vx::common::mute_stderr();
                std::mem::forget(_orig);
                vx::common::silence_panics();
            }
            let fam = checks::family(&args[2]);
            let i: usize = args[4].parse().unwrap();
            let t0 = std::time::Instant::now();
            let mut mode = drive::Mode::default();
            if let Ok(pb) = std::env::var("VX_PB") {
                mode.preemption_bound = pb.parse().ok();
                mode.complete = false;
            }
            stackcache::enable();
            let r = fam.check_idx(&args[3], i, &mode);
            for v in r.violations.iter().take(3) {
                println!("VIOL {:?} {} :: {}", v.kind, v.culprit, v.what.chars().take(300).collect::<String>());
            }
            println!("execs {} decisions {} in {:?}; cosim time {:?}", r.executions, r.decisions, t0.elapsed(), vx::drive::COSIM_NANOS.with(|c| std::time::Duration::from_nanos(c.get())));
        }
        Some("describe") => {
            // describe <family> <set> <idx>...
            let fam = checks::family(&args[2]);
            println!("{} programs", fam.len(&args[3]));
            for a in &args[4..] {
                let i: usize = a.parse().unwrap();
                println!("#{} {}", i, fam.describe(&args[3], i));
            }
        }
        Some("worker") => {
            // worker <family> <set> <mode-json> <shard> <nshards> <from> <only|-> <deadline>
            if std::env::var("VX_NO_STACK_CACHE").is_err() {
                stackcache::enable();
            }
            let fam = checks::family(&args[2]);
            let mode = drive::mode_from_json(&serde_json::from_str(&args[4]).expect("mode json"));
            let shard: usize = args[5].parse().unwrap();
            let nshards: usize = args[6].parse().unwrap();
            let from: usize = args[7].parse().unwrap();
            let only: Option<usize> = args[8].parse().ok();
            let deadline: f64 = args[9].parse().unwrap();
            drive::worker_main(fam.as_ref(), &args[3], &mode, shard, nshards, from, only, deadline);
        }
        _ => {
            eprintln!("usage: vx check <id> quick|thorough|--replay <file>");
            std::process::exit(2);
        }
    }
}
