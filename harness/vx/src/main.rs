fn main() { println!("vx"); }
