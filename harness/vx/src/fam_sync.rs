//! Family `sync`: Condvar (+Mutex), Barrier, Once, park/unpark against the models of Appendix A.

use crate::prog::*;
use shuttle::sync::{Barrier, Condvar, Mutex, MutexGuard, Once};
use std::cell::RefCell;

#[derive(Clone, Debug, PartialEq, Eq, Hash)]
pub enum SOp {
    Lock(usize),
    Unlock(usize),
    Set(usize, u32),
    /// cv.wait(guard of mutex m)
    Wait(usize, usize),
    /// cv.wait_while(guard, |d| *d == 0)
    WaitWhile0(usize, usize),
    NotifyOne(usize),
    NotifyAll(usize),
    BarrierWait(usize),
    /// once.call_once(|| mark); result: did my closure run
    OnceCall(usize),
    /// once a.call_once(|| { b.call_once(|| mark) }); result: (outer ran, inner ran)
    OnceNested(usize, usize),
    OnceIsCompleted(usize),
    /// catch_unwind(once.call_once(|| panic!())): Ran(did my closure run) / Poisoned
    OncePanic(usize),
    /// once.call_once_force(|st| ..): Ran2(did my closure run, st.is_poisoned())
    OnceForce(usize),
    /// catch_unwind(once.call_once(|| mark)): Ran(..) / Poisoned (a poisoned Once makes call_once panic)
    OnceCallP(usize),
    Park,
    /// unpark thread index
    Unpark(usize),
    Yield,
}

#[derive(Clone, Debug, PartialEq, Eq, Hash, PartialOrd, Ord)]
pub enum SRes {
    Unit,
    Locked(u32),
    Leader(bool),
    Ran(bool),
    Ran2(bool, bool),
    Poisoned,
    Bool(bool),
}

#[derive(Clone, Debug)]
pub struct SCfg {
    pub mutexes: usize,
    pub condvars: usize,
    /// bound of each barrier
    pub barriers: Vec<usize>,
    pub onces: usize,
}

pub struct SObjs {
    m: Vec<Mutex<u32>>,
    cv: Vec<Condvar>,
    b: Vec<Barrier>,
    o: Vec<Once>,
    threads: RefCell<Vec<Option<shuttle::thread::Thread>>>,
}

pub struct SLocals {
    mg: Vec<Option<MutexGuard<'static, u32>>>,
}

#[derive(Clone, Debug, PartialEq, Eq, Hash)]
pub enum OnceSt {
    New,
    Running(usize),
    Done,
}

#[derive(Clone, Debug, PartialEq, Eq, Hash)]
pub struct MBarrier {
    n: usize,
    arrived: Vec<usize>,
    /// threads released but not yet returned, with their leader flag
    released: Vec<(usize, bool)>,
}

#[derive(Clone, Debug, PartialEq, Eq, Hash)]
pub struct SM {
    m: Vec<(Option<usize>, u32)>,
    /// waiters of each condvar: (thread, signalled)
    cv: Vec<Vec<(usize, bool)>>,
    b: Vec<MBarrier>,
    o: Vec<OnceSt>,
    /// holder of each Once's internal lock
    olock: Vec<Option<usize>>,
    /// an initialiser of this Once panicked (the internal lock is poisoned for good)
    opoison: Vec<bool>,
    /// per thread: (token, parked, woken)
    park: Vec<(bool, bool, bool)>,
    /// scratch per thread for multi-phase ops (inner result of OnceNested)
    tmp: Vec<u8>,
}

pub struct SyncFam;

unsafe fn ext<'a, T>(r: &'a T) -> &'static T {
    std::mem::transmute(r)
}

impl Family for SyncFam {
    type Op = SOp;
    type Res = SRes;
    type Cfg = SCfg;
    type Objs = SObjs;
    type Locals = SLocals;
    type M = SM;
    const NAME: &'static str = "sync";

    fn make_objs(cfg: &SCfg, n: usize) -> SObjs {
        let objs = SObjs {
            m: (0..cfg.mutexes).map(|_| Mutex::new(0)).collect(),
            cv: (0..cfg.condvars).map(|_| Condvar::new()).collect(),
            b: cfg.barriers.iter().map(|n| Barrier::new(*n)).collect(),
            o: (0..cfg.onces).map(|_| Once::new()).collect(),
            threads: RefCell::new(vec![None; n]),
        };
        objs.threads.borrow_mut()[0] = Some(shuttle::thread::current());
        objs
    }
    fn new_locals(cfg: &SCfg, _t: usize) -> SLocals {
        SLocals {
            mg: (0..cfg.mutexes).map(|_| None).collect(),
        }
    }
    fn on_spawn(objs: &SObjs, child: usize, th: &shuttle::thread::Thread) {
        objs.threads.borrow_mut()[child] = Some(th.clone());
    }
    fn end_thread(_o: &SObjs, l: SLocals, _t: usize) {
        for g in l.mg {
            std::mem::forget(g);
        }
    }

    fn exec(o: &SObjs, l: &mut SLocals, _t: usize, op: &SOp) -> SRes {
        unsafe {
            match op {
                SOp::Lock(i) => {
                    let g = match ext(&o.m[*i]).lock() {
                        Ok(g) => g,
                        Err(p) => p.into_inner(),
                    };
                    let v = *g;
                    l.mg[*i] = Some(g);
                    SRes::Locked(v)
                }
                SOp::Unlock(i) => {
                    drop(l.mg[*i].take().expect("Unlock without guard"));
                    SRes::Unit
                }
                SOp::Set(i, v) => {
                    **l.mg[*i].as_mut().expect("Set without guard") = *v;
                    SRes::Unit
                }
                SOp::Wait(c, m) => {
                    let g = l.mg[*m].take().expect("Wait without guard");
                    let g = if alt_api() {
                        let (g, to) = match o.cv[*c].wait_timeout(g, std::time::Duration::from_millis(1)) {
                            Ok(x) => x,
                            Err(p) => p.into_inner(),
                        };
                        // Shuttle does not model time: the alias never reports a timeout
                        assert!(!to.timed_out(), "wait_timeout reported a timeout");
                        g
                    } else {
                        match o.cv[*c].wait(g) {
                            Ok(g) => g,
                            Err(p) => p.into_inner(),
                        }
                    };
                    let v = *g;
                    l.mg[*m] = Some(g);
                    SRes::Locked(v)
                }
                SOp::WaitWhile0(c, m) => {
                    let g = l.mg[*m].take().expect("WaitWhile0 without guard");
                    let g = if alt_api() {
                        let (g, to) = match o.cv[*c].wait_timeout_while(g, std::time::Duration::from_millis(1), |d| *d == 0) {
                            Ok(x) => x,
                            Err(p) => p.into_inner(),
                        };
                        assert!(!to.timed_out(), "wait_timeout_while reported a timeout");
                        g
                    } else {
                        match o.cv[*c].wait_while(g, |d| *d == 0) {
                            Ok(g) => g,
                            Err(p) => p.into_inner(),
                        }
                    };
                    let v = *g;
                    l.mg[*m] = Some(g);
                    SRes::Locked(v)
                }
                SOp::NotifyOne(c) => {
                    o.cv[*c].notify_one();
                    SRes::Unit
                }
                SOp::NotifyAll(c) => {
                    o.cv[*c].notify_all();
                    SRes::Unit
                }
                SOp::BarrierWait(b) => SRes::Leader(o.b[*b].wait().is_leader()),
                SOp::OnceCall(i) => {
                    let mut ran = false;
                    if alt_api() {
                        o.o[*i].call_once_force(|st| {
                            assert!(!st.is_poisoned(), "call_once_force saw a poisoned Once nobody poisoned");
                            ran = true
                        });
                    } else {
                        o.o[*i].call_once(|| ran = true);
                    }
                    SRes::Ran(ran)
                }
                SOp::OnceNested(a, b) => {
                    let mut ran = false;
                    let mut ran2 = false;
                    o.o[*a].call_once(|| {
                        ran = true;
                        o.o[*b].call_once(|| ran2 = true);
                    });
                    SRes::Ran2(ran, ran2)
                }
                SOp::OnceIsCompleted(i) => SRes::Bool(o.o[*i].is_completed()),
                SOp::OncePanic(i) | SOp::OnceCallP(i) => {
                    let boom = matches!(op, SOp::OncePanic(_));
                    let mut ran = false;
                    let r = std::panic::catch_unwind(std::panic::AssertUnwindSafe(|| {
                        o.o[*i].call_once(|| {
                            ran = true;
                            if boom {
                                std::panic::resume_unwind(Box::new("vx: initialiser panics"));
                            }
                        })
                    }));
                    match r {
                        Ok(()) => SRes::Ran(ran),
                        Err(_) if ran => SRes::Ran(true),
                        Err(p) => {
                            if payload_to_string(&p).contains("previously been poisoned") {
                                SRes::Poisoned
                            } else {
                                std::panic::resume_unwind(p)
                            }
                        }
                    }
                }
                SOp::OnceForce(i) => {
                    let mut ran = false;
                    let mut saw = false;
                    o.o[*i].call_once_force(|st| {
                        ran = true;
                        saw = st.is_poisoned();
                    });
                    SRes::Ran2(ran, saw)
                }
                SOp::Park => {
                    if alt_api() {
                        shuttle::thread::park_timeout(std::time::Duration::from_millis(1));
                    } else {
                        shuttle::thread::park();
                    }
                    SRes::Unit
                }
                SOp::Unpark(t) => {
                    let th = o.threads.borrow()[*t].clone().expect("unpark target not spawned yet");
                    th.unpark();
                    SRes::Unit
                }
                SOp::Yield => {
                    shuttle::thread::yield_now();
                    SRes::Unit
                }
            }
        }
    }

    /// F12 seen through Once: its internal lock is a Shuttle Mutex, and a poisoned Mutex no longer
    /// makes a second locker wait
    fn weakening(cfg: &SCfg) -> Option<&'static str> {
        if cfg.onces > 0 {
            Some("poisoned-once-lock-does-not-exclude")
        } else {
            None
        }
    }
    fn yields(op: &SOp) -> Option<bool> {
        match op {
            SOp::Yield => Some(true),
            SOp::Park => None,
            _ => Some(false),
        }
    }
    fn m_no_sched_point(op: &GOp<SOp>) -> Option<&'static str> {
        match op {
            GOp::Op(SOp::OnceIsCompleted(_)) => Some("no-scheduling-point-before:Once::is_completed"),
            // call_once looks at the completion state before its first scheduling point (which is
            // inside the internal lock): the check is one step with the thread's previous operation
            GOp::Op(SOp::OnceCall(_) | SOp::OnceNested(..)) => Some("no-scheduling-point-before:Once::call_once-completion-check"),
            GOp::Op(SOp::Park) => Some("no-scheduling-point-before:thread::park"),
            GOp::Op(SOp::BarrierWait(_)) => Some("no-scheduling-point-before:blocking-Barrier::wait"),
            _ => None,
        }
    }
    fn m_fused_continue(m: &SM, t: usize, op: &SOp) -> bool {
        match op {
            // the arrival that releases the barrier returns in the same step
            SOp::BarrierWait(b) => m.b[*b].released.contains(&(t, true)),
            _ => false,
        }
    }
    /// a plain `wait` returns only after a notification issued while it was waiting: its clock must
    /// dominate the clock of at least one notify (one or all) on that condvar returned between the
    /// wait's call and its return
    fn hb_must_any(p: &Program<SyncFam>, log: &[Entry<SRes>]) -> Vec<(Vec<usize>, usize)> {
        let mut out = Vec::new();
        for (j, w) in log.iter().enumerate() {
            if !matches!(w.kind, EKind::Ret(_)) {
                continue;
            }
            let GOp::Op(SOp::Wait(c, _)) = &p.threads[w.thread][w.op] else { continue };
            let Some(call) = call_of(log, w.thread, w.op) else { continue };
            let srcs: Vec<usize> = (call..j)
                .filter(|&i| matches!(log[i].kind, EKind::Ret(_)) && matches!(&p.threads[log[i].thread][log[i].op], GOp::Op(SOp::NotifyOne(c2)) | GOp::Op(SOp::NotifyAll(c2)) if c2 == c))
                .collect();
            out.push((srcs, j));
        }
        out
    }
    fn m_fuse_applies(m: &SM, _t: usize, op: &SOp) -> bool {
        match op {
            // the scheduling point is omitted only when the wait will block
            SOp::BarrierWait(b) => m.b[*b].arrived.len() + 1 < m.b[*b].n,
            _ => true,
        }
    }
    fn objects_of(op: &SOp) -> Vec<u32> {
        match op {
            SOp::Lock(m) | SOp::Unlock(m) | SOp::Set(m, _) => vec![0x100 + *m as u32],
            SOp::Wait(c, m) | SOp::WaitWhile0(c, m) => vec![0x500 + *c as u32, 0x100 + *m as u32],
            SOp::NotifyOne(c) | SOp::NotifyAll(c) => vec![0x500 + *c as u32],
            SOp::BarrierWait(b) => vec![0x600 + *b as u32],
            SOp::OnceCall(o) | SOp::OnceIsCompleted(o) | SOp::OncePanic(o) | SOp::OnceForce(o) | SOp::OnceCallP(o) => vec![0x700 + *o as u32],
            SOp::OnceNested(a, b) => vec![0x700 + *a as u32, 0x700 + *b as u32],
            // park tokens: anybody's unpark can reach anybody's park
            SOp::Park | SOp::Unpark(_) => vec![0x800],
            SOp::Yield => vec![],
        }
    }
    /// unlock -> later acquisition (lock, or return from wait) of the same mutex; notify_all -> waits
    /// that were called before it and return after it; winning call_once -> later losing call_once;
    /// barrier (as many waiting threads as the bound, same number of waits each): what a thread did
    /// before its j-th wait -> every other thread's return from its j-th wait
    fn hb_must(p: &Program<SyncFam>, log: &[Entry<SRes>]) -> Vec<(usize, usize)> {
        let mut out = Vec::new();
        let mut last_unlock: std::collections::HashMap<usize, usize> = Default::default();
        let mut once_done: std::collections::HashMap<usize, usize> = Default::default();
        for (i, e) in log.iter().enumerate() {
            let EKind::Ret(GRes::R(r)) = &e.kind else { continue };
            let GOp::Op(op) = &p.threads[e.thread][e.op] else { continue };
            match op {
                SOp::Unlock(m) => {
                    last_unlock.insert(*m, i);
                }
                SOp::Lock(m) | SOp::Wait(_, m) | SOp::WaitWhile0(_, m) => {
                    if let Some(u) = last_unlock.get(m) {
                        out.push((*u, i));
                    }
                }
                SOp::OnceCall(o) => match r {
                    SRes::Ran(true) => {
                        // what the winner did up to the start of its call (the initialiser's
                        // completion is published before call_once returns)
                        if let Some(b) = call_of(log, e.thread, e.op).and_then(|c| prev_clocked(log, c, e.thread)) {
                            once_done.insert(*o, b);
                        }
                    }
                    _ => {
                        if let Some(w) = once_done.get(o) {
                            out.push((*w, i));
                        }
                    }
                },
                _ => {}
            }
        }
        // barriers
        for (b, bound) in p.cfg.barriers.iter().enumerate() {
            let waits_of = |t: usize| p.threads[t].iter().filter(|o| matches!(o, GOp::Op(SOp::BarrierWait(x)) if *x == b)).count();
            let users: Vec<usize> = (0..p.threads.len()).filter(|&t| waits_of(t) > 0).collect();
            if users.is_empty() || users.len() != (*bound).max(1) || !users.iter().all(|&t| waits_of(t) == waits_of(users[0])) {
                continue;
            }
            // j-th wait Ret of each user, and the event just before it in that thread
            let ret_of = |t: usize, j: usize| -> Option<usize> {
                log.iter()
                    .enumerate()
                    .filter(|(_, e)| e.thread == t && matches!(e.kind, EKind::Ret(_)) && matches!(&p.threads[t][e.op], GOp::Op(SOp::BarrierWait(x)) if *x == b))
                    .map(|(i, _)| i)
                    .nth(j)
            };
            for j in 0..waits_of(users[0]) {
                for &t1 in &users {
                    let Some(r1) = ret_of(t1, j) else { continue };
                    // the clocked event of t1 preceding its j-th wait
                    let before = log[..r1].iter().enumerate().rev().find(|(_, e)| e.thread == t1 && matches!(e.kind, EKind::Ret(_) | EKind::Start)).map(|(i, _)| i);
                    for &t2 in &users {
                        if t1 == t2 {
                            continue;
                        }
                        if let (Some(a), Some(r2)) = (before, ret_of(t2, j)) {
                            out.push((a, r2));
                        }
                    }
                }
            }
        }
        out
    }
    fn m_init(cfg: &SCfg, n: usize) -> SM {
        SM {
            m: vec![(None, 0); cfg.mutexes],
            cv: vec![vec![]; cfg.condvars],
            b: cfg
                .barriers
                .iter()
                .map(|n| MBarrier {
                    n: *n,
                    arrived: vec![],
                    released: vec![],
                })
                .collect(),
            o: vec![OnceSt::New; cfg.onces],
            olock: vec![None; cfg.onces],
            opoison: vec![false; cfg.onces],
            park: vec![(false, false, false); n],
            tmp: vec![0; n],
        }
    }

    fn m_step(m: &SM, t: usize, op: &SOp, phase: u8, strict: bool) -> Vec<MStep<SM, SRes>> {
        let steps = Self::m_step_fine(m, t, op, phase, strict);
        if !strict || !matches!(op, SOp::OnceCall(_) | SOp::OnceNested(..)) {
            return steps;
        }
        // Strict discipline = the implementation's step boundaries: `call_once` has a scheduling
        // point when it takes the internal lock and one when it gives it back (both *before* the
        // action); taking the lock, deciding, running a closure without scheduling points of its own
        // and publishing completion are ONE step.  The fine-grained phases 2 (decide) and 3
        // (publish) — 12 / 13 for the inner Once of a nested call — are therefore passed through
        // at once.  (With them as separate steps the outcome BFS demanded interleavings between the
        // inner release and the outer completion that no schedule can produce: a false alarm of C02
        // in the thorough tier.)
        let mut out = Vec::new();
        let mut work = steps;
        while let Some(st) = work.pop() {
            match st {
                MStep::Cont(n2, ph) if matches!(ph, 2 | 3 | 12 | 13) => work.extend(Self::m_step_fine(&n2, t, op, ph, strict)),
                other => out.push(other),
            }
        }
        out
    }
}

impl SyncFam {
    fn m_step_fine(m: &SM, t: usize, op: &SOp, phase: u8, strict: bool) -> Vec<MStep<SM, SRes>> {
        let _ = strict;
        let mut n = m.clone();
        match op {
            SOp::Lock(i) => {
                if n.m[*i].0 == Some(t) {
                    return vec![MStep::Panic("tried to acquire a Mutex it already holds".into())];
                }
                if n.m[*i].0.is_none() {
                    n.m[*i].0 = Some(t);
                    let v = n.m[*i].1;
                    vec![MStep::Done(n, SRes::Locked(v))]
                } else {
                    vec![]
                }
            }
            SOp::Unlock(i) => {
                assert_eq!(n.m[*i].0, Some(t), "ill-formed program");
                n.m[*i].0 = None;
                vec![MStep::Done(n, SRes::Unit)]
            }
            SOp::Set(i, v) => {
                assert_eq!(n.m[*i].0, Some(t), "ill-formed program");
                n.m[*i].1 = *v;
                vec![MStep::Done(n, SRes::Unit)]
            }
            SOp::Wait(c, mi) | SOp::WaitWhile0(c, mi) => {
                let looping = matches!(op, SOp::WaitWhile0(..));
                match phase {
                    0 => {
                        assert_eq!(n.m[*mi].0, Some(t), "ill-formed program");
                        if looping && n.m[*mi].1 != 0 {
                            let v = n.m[*mi].1;
                            return vec![MStep::Done(n, SRes::Locked(v))];
                        }
                        // release the mutex and join the waiters, atomically
                        n.m[*mi].0 = None;
                        n.cv[*c].push((t, false));
                        vec![MStep::Cont(n, 1)]
                    }
                    1 => {
                        // leave the waiter set once signalled
                        if let Some(pos) = n.cv[*c].iter().position(|w| w.0 == t && w.1) {
                            n.cv[*c].remove(pos);
                            vec![MStep::Cont(n, 2)]
                        } else {
                            vec![]
                        }
                    }
                    _ => {
                        // re-acquire the mutex
                        if n.m[*mi].0.is_none() {
                            n.m[*mi].0 = Some(t);
                            if looping {
                                vec![MStep::Cont(n, 0)]
                            } else {
                                let v = n.m[*mi].1;
                                vec![MStep::Done(n, SRes::Locked(v))]
                            }
                        } else {
                            vec![]
                        }
                    }
                }
            }
            SOp::NotifyOne(c) => {
                let cands: Vec<usize> = (0..n.cv[*c].len()).filter(|i| !n.cv[*c][*i].1).collect();
                if cands.is_empty() {
                    vec![MStep::Done(n, SRes::Unit)]
                } else {
                    cands
                        .into_iter()
                        .map(|i| {
                            let mut k = n.clone();
                            k.cv[*c][i].1 = true;
                            MStep::Done(k, SRes::Unit)
                        })
                        .collect()
                }
            }
            SOp::NotifyAll(c) => {
                for w in n.cv[*c].iter_mut() {
                    w.1 = true;
                }
                vec![MStep::Done(n, SRes::Unit)]
            }
            SOp::BarrierWait(b) => match phase {
                0 => {
                    let bar = &mut n.b[*b];
                    bar.arrived.push(t);
                    bar.arrived.sort();
                    if bar.arrived.len() >= bar.n.max(1) {
                        let group = std::mem::take(&mut bar.arrived);
                        if strict {
                            for g in &group {
                                bar.released.push((*g, *g == t));
                            }
                            bar.released.sort();
                            vec![MStep::Cont(n, 1)]
                        } else {
                            // contract: exactly one member of the group, any of them
                            group
                                .iter()
                                .map(|leader| {
                                    let mut k = n.clone();
                                    for g in &group {
                                        k.b[*b].released.push((*g, g == leader));
                                    }
                                    k.b[*b].released.sort();
                                    MStep::Cont(k, 1)
                                })
                                .collect()
                        }
                    } else {
                        vec![MStep::Cont(n, 1)]
                    }
                }
                _ => {
                    if let Some(pos) = n.b[*b].released.iter().position(|r| r.0 == t) {
                        let (_, leader) = n.b[*b].released.remove(pos);
                        vec![MStep::Done(n, SRes::Leader(leader))]
                    } else {
                        vec![]
                    }
                }
            },
            // A Once is {state, internal lock}.  call_once = check "complete?" (return at once if so),
            // otherwise queue for the lock; the lock winner runs its initialiser while holding it.
            // The initialiser's completion is visible (is_completed, later call_once) before the
            // winner has returned; losers return only after the winner has let go of the lock, so
            // the model blocks exactly as long as the contract demands ("returns only after the
            // initialiser has completed").  Sub-machine phases (base = 0 for the outer Once):
            //   +0 check, +1 want lock, +2 holding: decide, +3 initialiser done, +4 release
            SOp::OnceCall(i) => match once_machine(&mut n, t, *i, phase) {
                OnceStep::Blocked => vec![],
                OnceStep::Panic(p) => vec![MStep::Panic(p)],
                OnceStep::Next(ph) => vec![MStep::Cont(n, ph)],
                OnceStep::RunInit => vec![MStep::Cont(n, 3)],
                OnceStep::Finished(ran) => vec![MStep::Done(n, SRes::Ran(ran))],
            },
            SOp::OnceNested(a, b) => {
                if phase < 10 {
                    // outer Once
                    match once_machine(&mut n, t, *a, phase) {
                        OnceStep::Blocked => vec![],
                        OnceStep::Panic(p) => vec![MStep::Panic(p)],
                        OnceStep::Next(ph) => vec![MStep::Cont(n, ph)],
                        // the outer initialiser is: b.call_once(..)
                        OnceStep::RunInit => vec![MStep::Cont(n, 10)],
                        OnceStep::Finished(ran) => {
                            let inner = n.tmp[t] == 1;
                            n.tmp[t] = 0;
                            vec![MStep::Done(n, SRes::Ran2(ran, ran && inner))]
                        }
                    }
                } else {
                    match once_machine(&mut n, t, *b, phase - 10) {
                        OnceStep::Blocked => vec![],
                        OnceStep::Panic(p) => vec![MStep::Panic(p)],
                        OnceStep::Next(ph) => vec![MStep::Cont(n, ph + 10)],
                        OnceStep::RunInit => vec![MStep::Cont(n, 13)],
                        OnceStep::Finished(ran) => {
                            n.tmp[t] = if ran { 1 } else { 0 };
                            // back in the outer machine: its initialiser has finished
                            vec![MStep::Cont(n, 3)]
                        }
                    }
                }
            }
            SOp::OnceIsCompleted(i) => {
                let d = n.o[*i] == OnceSt::Done;
                vec![MStep::Done(n, SRes::Bool(d))]
            }
            // call_once / call_once_force with poisoning.  Phases: 0 check, 1 take the internal lock,
            // 2 decide (and, for the winner, run the closure), 4 give the lock back and return.
            SOp::OncePanic(i) | SOp::OnceForce(i) | SOp::OnceCallP(i) => {
                let i = *i;
                let force = matches!(op, SOp::OnceForce(_));
                let boom = matches!(op, SOp::OncePanic(_));
                let not_ran = if force { SRes::Ran2(false, false) } else { SRes::Ran(false) };
                match phase {
                    0 => {
                        if n.o[i] == OnceSt::Done {
                            vec![MStep::Done(n, not_ran)]
                        } else {
                            vec![MStep::Cont(n, 1)]
                        }
                    }
                    1 => {
                        if n.olock[i].is_none() {
                            n.olock[i] = Some(t);
                            vec![MStep::Cont(n, 2)]
                        } else if weak() && n.opoison[i] {
                            // recorded finding (F12 through Once): the poisoned internal lock no
                            // longer makes a second caller wait
                            vec![MStep::Panic("state.holder.is_none()".into())]
                        } else {
                            vec![]
                        }
                    }
                    2 => {
                        if n.o[i] == OnceSt::Done {
                            n.tmp[t] = 0; // result: did not run
                            vec![MStep::Cont(n, 4)]
                        } else if n.opoison[i] && !force {
                            n.tmp[t] = 2; // result: Poisoned
                            vec![MStep::Cont(n, 4)]
                        } else if boom {
                            n.opoison[i] = true;
                            n.tmp[t] = 1; // my closure ran (and panicked)
                            vec![MStep::Cont(n, 4)]
                        } else {
                            n.tmp[t] = if n.opoison[i] { 3 } else { 1 }; // ran (3: saw the poison)
                            n.o[i] = OnceSt::Done;
                            vec![MStep::Cont(n, 4)]
                        }
                    }
                    _ => {
                        n.olock[i] = None;
                        let code = n.tmp[t];
                        n.tmp[t] = 0;
                        let r = match (code, force) {
                            (2, _) => SRes::Poisoned,
                            (0, true) => SRes::Ran2(false, false),
                            (0, false) => SRes::Ran(false),
                            (c, true) => SRes::Ran2(true, c == 3),
                            (_, false) => SRes::Ran(true),
                        };
                        vec![MStep::Done(n, r)]
                    }
                }
            }
            SOp::Park => match phase {
                0 => {
                    if n.park[t].0 {
                        n.park[t].0 = false;
                        vec![MStep::Done(n, SRes::Unit)]
                    } else {
                        n.park[t].1 = true;
                        n.park[t].2 = false;
                        vec![MStep::Cont(n, 1)]
                    }
                }
                _ => {
                    if n.park[t].2 {
                        n.park[t].1 = false;
                        n.park[t].2 = false;
                        vec![MStep::Done(n, SRes::Unit)]
                    } else {
                        // spurious return: does not consume anything
                        n.park[t].1 = false;
                        vec![MStep::Spurious(n, SRes::Unit)]
                    }
                }
            },
            SOp::Unpark(u) => {
                if n.park[*u].1 {
                    // blocked in park (and not yet woken): release it
                    if !n.park[*u].2 {
                        n.park[*u].2 = true;
                    } else {
                        // already woken but has not run yet: the token becomes available
                        n.park[*u].0 = true;
                    }
                } else {
                    n.park[*u].0 = true;
                }
                vec![MStep::Done(n, SRes::Unit)]
            }
            SOp::Yield => vec![MStep::Done(n, SRes::Unit)],
        }
    }
}

enum OnceStep {
    Blocked,
    Panic(String),
    Next(u8),
    /// lock won and not complete: the initialiser runs now (caller decides what that means)
    RunInit,
    Finished(bool),
}

/// One micro-transition of `call_once` on Once `i` by thread `t` in sub-phase `ph`.
fn once_machine(n: &mut SM, t: usize, i: usize, ph: u8) -> OnceStep {
    match ph {
        0 => {
            if n.o[i] == OnceSt::Done {
                OnceStep::Finished(false)
            } else {
                OnceStep::Next(1)
            }
        }
        1 => {
            if n.olock[i] == Some(t) {
                OnceStep::Panic("tried to acquire a Mutex it already holds".into())
            } else if n.olock[i].is_none() {
                n.olock[i] = Some(t);
                OnceStep::Next(2)
            } else {
                OnceStep::Blocked
            }
        }
        2 => {
            if n.o[i] == OnceSt::Done {
                n.olock[i] = None;
                OnceStep::Finished(false)
            } else {
                n.o[i] = OnceSt::Running(t);
                OnceStep::RunInit
            }
        }
        3 => {
            n.o[i] = OnceSt::Done;
            OnceStep::Next(4)
        }
        _ => {
            n.olock[i] = None;
            OnceStep::Finished(true)
        }
    }
}

// ---------------------------------------------------------------------------------------------
// Program generation
// ---------------------------------------------------------------------------------------------

/// Thread fragments (well-formed building blocks); programs are built from ≤ k fragments per thread.
fn cv_fragments() -> Vec<Vec<SOp>> {
    vec![
        vec![SOp::Lock(0), SOp::Wait(0, 0), SOp::Unlock(0)],
        vec![SOp::Lock(0), SOp::WaitWhile0(0, 0), SOp::Unlock(0)],
        vec![SOp::NotifyOne(0)],
        vec![SOp::NotifyAll(0)],
        vec![SOp::Lock(0), SOp::Set(0, 1), SOp::Unlock(0)],
        vec![SOp::Lock(0), SOp::Set(0, 1), SOp::Unlock(0), SOp::NotifyOne(0)],
        vec![SOp::Lock(0), SOp::Set(0, 1), SOp::NotifyAll(0), SOp::Unlock(0)],
    ]
}

fn concat_choices(frags: &[Vec<SOp>], k: usize) -> Vec<Vec<SOp>> {
    // all sequences of 1..=k fragments
    let mut out: Vec<Vec<SOp>> = Vec::new();
    let mut cur: Vec<Vec<SOp>> = vec![vec![]];
    for _ in 0..k {
        let mut next = Vec::new();
        for s in &cur {
            for f in frags {
                let mut s2 = s.clone();
                s2.extend(f.iter().cloned());
                next.push(s2);
            }
        }
        out.extend(next.iter().cloned());
        cur = next;
    }
    out
}

fn build(cfg: &SCfg, main_pool: &[Vec<SOp>], child_pool: &[Vec<SOp>], children: usize, max_size: usize) -> Vec<Program<SyncFam>> {
    let mut out = Vec::new();
    for idx in nondecreasing_tuples(child_pool.len(), children) {
        for ms in main_pool {
            let ch: Vec<Vec<SOp>> = idx.iter().map(|&i| child_pool[i].clone()).collect();
            let size: usize = ms.len() + ch.iter().map(|c| c.len()).sum::<usize>();
            if size > max_size {
                continue;
            }
            out.push(Program::fork_join(cfg.clone(), ms.clone(), ch));
        }
    }
    out
}

/// Programs whose complete trees are too large (>= 3 waiters with racing notifiers, ...): explored
/// with a preemption bound (all schedules with <= b preemptions), soundness direction only.
fn bounded_set(big: bool) -> Vec<Program<SyncFam>> {
    let cvcfg = SCfg {
        mutexes: 1,
        condvars: 1,
        barriers: vec![],
        onces: 0,
    };
    let w = vec![SOp::Lock(0), SOp::Wait(0, 0), SOp::Unlock(0)];
    let ww = vec![SOp::Lock(0), SOp::WaitWhile0(0, 0), SOp::Unlock(0)];
    let setter = vec![SOp::Lock(0), SOp::Set(0, 1), SOp::Unlock(0), SOp::NotifyOne(0)];
    let mut out = Vec::new();
    // the epoch bookkeeping needs >= 3 waiters: two present at the first signal, a third arriving
    // before the second
    for mn in [
        vec![SOp::NotifyOne(0), SOp::NotifyOne(0)],
        vec![SOp::NotifyOne(0), SOp::NotifyOne(0), SOp::NotifyAll(0)],
        vec![SOp::NotifyOne(0), SOp::NotifyOne(0), SOp::NotifyOne(0)],
        vec![SOp::NotifyAll(0), SOp::NotifyOne(0)],
    ] {
        out.push(Program::fork_join(cvcfg.clone(), mn.clone(), vec![w.clone(), w.clone(), w.clone()]));
        if big {
            out.push(Program::fork_join(cvcfg.clone(), mn.clone(), vec![w.clone(), w.clone(), w.clone(), w.clone()]));
        }
        out.push(Program::fork_join(cvcfg.clone(), mn.clone(), vec![w.clone(), w.clone(), ww.clone()]));
    }
    // notifiers in different threads
    if big {
        out.push(Program::fork_join(cvcfg.clone(), vec![], vec![w.clone(), w.clone(), w.clone(), vec![SOp::NotifyOne(0)], vec![SOp::NotifyOne(0)]]));
    }
    out.push(Program::fork_join(cvcfg.clone(), vec![], vec![ww.clone(), ww.clone(), setter.clone(), setter.clone()]));
    out.push(Program::fork_join(cvcfg.clone(), vec![SOp::NotifyOne(0)], vec![w.clone(), w.clone(), vec![SOp::NotifyOne(0)], vec![SOp::NotifyAll(0)]]));
    // reused barrier with 3 and 4 parties
    for (bound, parties) in if big { vec![(3usize, 3usize), (2, 4), (3, 4), (4, 4)] } else { vec![(3usize, 3usize), (2, 4)] } {
        let bcfg = SCfg {
            mutexes: 0,
            condvars: 0,
            barriers: vec![bound],
            onces: 0,
        };
        let b2 = vec![SOp::BarrierWait(0), SOp::BarrierWait(0)];
        out.push(Program::fork_join(bcfg.clone(), b2.clone(), (0..parties - 1).map(|_| b2.clone()).collect()));
    }
    // racing call_once with 4 callers, nested in both orders
    let ocfg = SCfg {
        mutexes: 0,
        condvars: 0,
        barriers: vec![],
        onces: 2,
    };
    out.push(Program::fork_join(
        ocfg.clone(),
        vec![SOp::OnceIsCompleted(0)],
        vec![vec![SOp::OnceNested(0, 1)], vec![SOp::OnceCall(1), SOp::OnceCall(0)], vec![SOp::OnceCall(0), SOp::OnceIsCompleted(1)], vec![SOp::OnceCall(1)]],
    ));
    out
}

/// "Gated" park programs: main holds a gate mutex while it spawns the children and performs its own
/// unparks, then opens the gate and blocks in `join`.  While the children interact nobody else can
/// run, so a parked child cannot be released by a spurious wake-up: the outcome really depends on
/// the order of park / unpark and of the data accesses around them (seed
/// C02-unpark-skips-switch-when-token-present was masked by spurious wake-ups in every ungated
/// program).  Mutex 0 = data, mutex 1 = gate; thread 1 parks, thread 2 (and main) unpark it.
fn gated_programs() -> Vec<Program<SyncFam>> {
    let cfg = SCfg {
        mutexes: 2,
        condvars: 0,
        barriers: vec![],
        onces: 0,
    };
    let g = |ops: &[SOp]| -> Vec<GOp<SOp>> { ops.iter().cloned().map(GOp::Op).collect() };
    let gate = [SOp::Lock(1), SOp::Unlock(1)];
    let read = [SOp::Lock(0), SOp::Unlock(0)];
    let write = [SOp::Lock(0), SOp::Set(0, 1), SOp::Unlock(0)];
    let cat = |parts: &[&[SOp]]| -> Vec<SOp> { parts.iter().flat_map(|p| p.iter().cloned()).collect() };
    let parkers = [
        cat(&[&gate, &read, &[SOp::Park, SOp::Park]]),
        cat(&[&gate, &read, &[SOp::Park]]),
        cat(&[&gate, &[SOp::Park], &read, &[SOp::Park]]),
    ];
    let wakers = [
        cat(&[&gate, &write, &[SOp::Unpark(1)]]),
        cat(&[&gate, &[SOp::Unpark(1)], &write]),
        cat(&[&gate, &write, &[SOp::Unpark(1), SOp::Unpark(1)]]),
    ];
    let mut out = Vec::new();
    for pre in [vec![], vec![SOp::Unpark(1)], vec![SOp::Unpark(1), SOp::Unpark(1)]] {
        for pk in &parkers {
            for wk in &wakers {
                let mut main = vec![GOp::Op(SOp::Lock(1)), GOp::Spawn(1), GOp::Spawn(2)];
                main.extend(g(&pre));
                main.extend([GOp::Op(SOp::Unlock(1)), GOp::Join(1), GOp::Join(2)]);
                out.push(Program {
                    cfg: cfg.clone(),
                    threads: vec![main, g(pk), g(wk)],
                });
            }
        }
    }
    out
}

/// A Once whose first initialiser panicked (in main, before anybody else exists), then callers of
/// call_once / call_once_force / is_completed racing on it.
fn once_poison_programs() -> Vec<Program<SyncFam>> {
    let cfg = SCfg {
        mutexes: 0,
        condvars: 0,
        barriers: vec![],
        onces: 1,
    };
    let g = |ops: &[SOp]| -> Vec<GOp<SOp>> { ops.iter().cloned().map(GOp::Op).collect() };
    // children never panic (a caught panic unwinding in one green thread while others run confuses
    // `std::thread::panicking()`, Appendix B): `call_once` on a poisoned Once is left to main
    let bodies: Vec<Vec<SOp>> = vec![
        vec![SOp::OnceForce(0)],
        vec![SOp::OnceIsCompleted(0), SOp::OnceForce(0)],
        vec![SOp::OnceForce(0), SOp::OnceIsCompleted(0)],
        vec![SOp::OnceIsCompleted(0)],
    ];
    let mut out = Vec::new();
    for pre in [vec![SOp::OncePanic(0)], vec![SOp::OncePanic(0), SOp::OnceCallP(0)], vec![]] {
        for idx in nondecreasing_tuples(bodies.len(), 2) {
            let mut main = g(&pre);
            main.extend([GOp::Spawn(1), GOp::Spawn(2), GOp::Join(1), GOp::Join(2), GOp::Op(SOp::OnceCallP(0)), GOp::Op(SOp::OnceIsCompleted(0))]);
            out.push(Program {
                cfg: cfg.clone(),
                threads: vec![main, g(&bodies[idx[0]]), g(&bodies[idx[1]])],
            });
        }
        // sequential use by main alone
        let mut main = g(&pre);
        main.extend(g(&[SOp::OnceCallP(0), SOp::OnceForce(0), SOp::OnceCallP(0), SOp::OnceIsCompleted(0)]));
        out.push(Program { cfg: cfg.clone(), threads: vec![main] });
    }
    out
}

pub fn program_set(set: &str) -> Vec<Program<SyncFam>> {
    if set == "once-poison" {
        return once_poison_programs();
    }
    if set == "gated" {
        return gated_programs();
    }
    if let Some(base) = set.strip_suffix("-alt") {
        // the same programs through the alias entry points (see prog::alt_api)
        return program_set(base)
            .into_iter()
            .filter(|p| p.threads.iter().flatten().any(|o| matches!(o, GOp::Op(SOp::Wait(..) | SOp::WaitWhile0(..) | SOp::Park | SOp::OnceCall(_)))))
            .collect();
    }
    if set == "bounded" {
        return bounded_set(false);
    }
    if set == "bounded-big" {
        return bounded_set(true);
    }
    let thorough = set == "thorough";
    let mut out: Vec<Program<SyncFam>> = Vec::new();
    let none: Vec<Vec<SOp>> = vec![vec![]];

    // --- condvar -----------------------------------------------------------------------------
    let cvcfg = SCfg {
        mutexes: 1,
        condvars: 1,
        barriers: vec![],
        onces: 0,
    };
    let frs = cv_fragments();
    let one = concat_choices(&frs, 1);
    let two = concat_choices(&frs, 2);
    // 2 children, up to 2 fragments each
    out.extend(build(&cvcfg, &none, &two, 2, if thorough { 12 } else { 9 }));
    // 3 children, 1 fragment each (2 waiters + notifier, racing notify_ones, ...)
    out.extend(build(&cvcfg, &none, &one, 3, 11));
    // main notifies while 2 children wait
    let main_notify: Vec<Vec<SOp>> = vec![
        vec![SOp::NotifyOne(0)],
        vec![SOp::NotifyOne(0), SOp::NotifyOne(0)],
        vec![SOp::NotifyAll(0)],
        vec![SOp::NotifyOne(0), SOp::NotifyAll(0)],
    ];
    out.extend(build(&cvcfg, &main_notify, &one[..2].to_vec(), 2, 12));
    if thorough {
        out.extend(build(&cvcfg, &none, &one, 4, 11));
        out.extend(build(&cvcfg, &main_notify, &one, 3, 12));
        // the five-thread epoch scenario of the source comment: 4 waiters, two notify_one by main
        out.push(Program::fork_join(
            cvcfg.clone(),
            vec![SOp::NotifyOne(0), SOp::NotifyOne(0)],
            vec![one[0].clone(), one[0].clone(), one[0].clone(), one[0].clone()],
        ));
    }

    // --- barrier -----------------------------------------------------------------------------
    for bound in if thorough { vec![0, 1, 2, 3] } else { vec![1, 2, 3] } {
        let bcfg = SCfg {
            mutexes: 0,
            condvars: 0,
            barriers: vec![bound],
            onces: 0,
        };
        let w1 = vec![SOp::BarrierWait(0)];
        let w2 = vec![SOp::BarrierWait(0), SOp::BarrierWait(0)];
        let pool = vec![w1.clone(), w2.clone()];
        let mainp = vec![vec![], w1.clone(), w2.clone()];
        for c in 1..=(if thorough { 4 } else { 3 }) {
            // a barrier of bound 1 never blocks: 4 threads x 2 waits is a 10^5-leaf tree
            let max_size = if !thorough && bound == 1 && c == 3 { 5 } else { 8 };
            out.extend(build(&bcfg, &mainp, &pool, c, max_size));
        }
    }
    // two barriers, crossing order
    let b2 = SCfg {
        mutexes: 0,
        condvars: 0,
        barriers: vec![2, 2],
        onces: 0,
    };
    let pool = vec![
        vec![SOp::BarrierWait(0), SOp::BarrierWait(1)],
        vec![SOp::BarrierWait(1), SOp::BarrierWait(0)],
        vec![SOp::BarrierWait(0)],
        vec![SOp::BarrierWait(1)],
    ];
    out.extend(build(&b2, &none, &pool, 2, 8));
    if thorough {
        out.extend(build(&b2, &none, &pool, 3, 8));
    }

    // --- once --------------------------------------------------------------------------------
    let ocfg = SCfg {
        mutexes: 0,
        condvars: 0,
        barriers: vec![],
        onces: 2,
    };
    let ofr = vec![
        vec![SOp::OnceCall(0)],
        vec![SOp::OnceCall(1)],
        vec![SOp::OnceNested(0, 1)],
        vec![SOp::OnceNested(1, 0)],
        vec![SOp::OnceIsCompleted(0)],
        vec![SOp::OnceIsCompleted(1)],
    ];
    let o2 = concat_choices(&ofr, 2);
    out.extend(build(&ocfg, &none, &o2, 2, 6));
    out.extend(build(&ocfg, &none, &concat_choices(&ofr, 1), 3, 6));
    if thorough {
        out.extend(build(&ocfg, &none, &concat_choices(&ofr, 3), 2, 6));
    }

    // --- park / unpark -----------------------------------------------------------------------
    let pcfg = SCfg {
        mutexes: 0,
        condvars: 0,
        barriers: vec![],
        onces: 0,
    };
    // main parks, children unpark main
    let mainp: Vec<Vec<SOp>> = vec![vec![SOp::Park], vec![SOp::Park, SOp::Park], vec![SOp::Yield, SOp::Park]];
    let cp: Vec<Vec<SOp>> = vec![vec![SOp::Unpark(0)], vec![SOp::Unpark(0), SOp::Unpark(0)], vec![SOp::Yield], vec![SOp::Yield, SOp::Unpark(0)]];
    out.extend(build(&pcfg, &mainp, &cp, 1, 6));
    out.extend(build(&pcfg, &mainp, &cp, 2, 7));
    // child 1 parks, main and child 2 unpark it
    let c1: Vec<Vec<SOp>> = vec![vec![SOp::Park], vec![SOp::Park, SOp::Park]];
    for a in &c1 {
        for mu in [vec![], vec![SOp::Unpark(1)], vec![SOp::Unpark(1), SOp::Unpark(1)]] {
            for c2 in [vec![SOp::Unpark(1)], vec![SOp::Yield], vec![SOp::Unpark(1), SOp::Unpark(1)]] {
                out.push(Program::fork_join(pcfg.clone(), mu.clone(), vec![a.clone(), c2.clone()]));
            }
        }
    }
    // park together with a mutex: a parked task blocked on something else afterwards
    let pm = SCfg {
        mutexes: 1,
        condvars: 0,
        barriers: vec![],
        onces: 0,
    };
    out.push(Program::fork_join(
        pm.clone(),
        vec![SOp::Park, SOp::Lock(0), SOp::Unlock(0)],
        vec![vec![SOp::Lock(0), SOp::Unpark(0), SOp::Unlock(0)], vec![SOp::Unpark(0)]],
    ));

    // --- a scope owner blocked on something else inside the scope body --------------------------
    let g = |ops: &[SOp]| -> Vec<GOp<SOp>> { ops.iter().cloned().map(GOp::Op).collect() };
    for scoped in [vec![], vec![SOp::Yield]] {
        // owner waits on a condvar inside the scope; thread 2 (not scoped) notifies or not
        for notifier in [vec![], vec![SOp::NotifyOne(0)], vec![SOp::Lock(0), SOp::Set(0, 1), SOp::Unlock(0), SOp::NotifyAll(0)]] {
            let mut main = vec![GOp::Spawn(2), GOp::ScopeBegin(vec![1])];
            main.extend(g(&[SOp::Lock(0), SOp::Wait(0, 0), SOp::Unlock(0)]));
            main.push(GOp::ScopeEnd);
            main.push(GOp::Join(2));
            out.push(Program {
                cfg: cvcfg.clone(),
                threads: vec![main, g(&scoped), g(&notifier)],
            });
        }
        // owner waits on a barrier inside the scope
        let bcfg2 = SCfg {
            mutexes: 0,
            condvars: 0,
            barriers: vec![2],
            onces: 0,
        };
        for other in [vec![], vec![SOp::BarrierWait(0)]] {
            let mut main = vec![GOp::Spawn(2), GOp::ScopeBegin(vec![1])];
            main.extend(g(&[SOp::BarrierWait(0)]));
            main.push(GOp::ScopeEnd);
            main.push(GOp::Join(2));
            out.push(Program {
                cfg: bcfg2.clone(),
                threads: vec![main, g(&scoped), g(&other)],
            });
        }
        // owner blocked on a mutex / parked inside the scope
        let mut main = vec![GOp::Spawn(2), GOp::ScopeBegin(vec![1])];
        main.extend(g(&[SOp::Lock(0), SOp::Unlock(0)]));
        main.push(GOp::ScopeEnd);
        main.push(GOp::Join(2));
        out.push(Program {
            cfg: pm.clone(),
            threads: vec![main, g(&scoped), g(&[SOp::Lock(0), SOp::Yield, SOp::Unlock(0)])],
        });
    }

    // --- unpark of a task that is blocked in ANOTHER primitive, which then parks ------------------
    // (the token must survive: seed C05-unpark-of-blocked-task-drops-token was invisible without
    // programs mixing park with barrier / condvar / join / scope end)
    let mix = SCfg {
        mutexes: 1,
        condvars: 1,
        barriers: vec![2],
        onces: 0,
    };
    for parks in [vec![SOp::Park], vec![SOp::Park, SOp::Park]] {
        // barrier: T1 waits at the barrier, is unparked meanwhile, then parks
        for t2 in [vec![SOp::Unpark(1), SOp::BarrierWait(0)], vec![SOp::BarrierWait(0), SOp::Unpark(1)], vec![SOp::Unpark(1), SOp::Unpark(1), SOp::BarrierWait(0)]] {
            let mut t1 = vec![SOp::BarrierWait(0)];
            t1.extend(parks.clone());
            out.push(Program::fork_join(mix.clone(), vec![], vec![t1, t2]));
        }
        // condvar: T1 waits, T2 unparks it and then notifies (or notifies first)
        for t2 in [
            vec![SOp::Unpark(1), SOp::Lock(0), SOp::Set(0, 1), SOp::NotifyOne(0), SOp::Unlock(0)],
            vec![SOp::Lock(0), SOp::Set(0, 1), SOp::NotifyOne(0), SOp::Unlock(0), SOp::Unpark(1)],
            vec![SOp::Lock(0), SOp::Set(0, 1), SOp::Unpark(1), SOp::NotifyAll(0), SOp::Unlock(0)],
        ] {
            let mut t1 = vec![SOp::Lock(0), SOp::WaitWhile0(0, 0), SOp::Unlock(0)];
            t1.extend(parks.clone());
            out.push(Program::fork_join(mix.clone(), vec![], vec![t1, t2]));
        }
        // join: main joins T1 (blocked in join), T1 unparks main before finishing; main parks afterwards
        {
            let mut main = vec![GOp::Spawn(1), GOp::Join(1)];
            main.extend(g(&parks));
            out.push(Program {
                cfg: mix.clone(),
                threads: vec![main, g(&[SOp::Yield, SOp::Unpark(0)])],
            });
            let mut main = vec![GOp::Spawn(1), GOp::Spawn(2), GOp::Join(1)];
            main.extend(g(&parks));
            main.push(GOp::Join(2));
            out.push(Program {
                cfg: mix.clone(),
                threads: vec![main, g(&[SOp::Yield]), g(&[SOp::Unpark(0)])],
            });
        }
        // scope end: the owner waits for its scoped thread, which unparks it; the owner parks afterwards
        {
            let mut main = vec![GOp::ScopeBegin(vec![1]), GOp::ScopeEnd];
            main.extend(g(&parks));
            out.push(Program {
                cfg: mix.clone(),
                threads: vec![main, g(&[SOp::Yield, SOp::Unpark(0)])],
            });
        }
        // mutex (the task sleeps instead of being blocked): T1 queues for the lock, is unparked, parks
        for t2 in [vec![SOp::Lock(0), SOp::Unpark(1), SOp::Unlock(0)], vec![SOp::Lock(0), SOp::Unpark(1), SOp::Yield, SOp::Unlock(0)]] {
            let mut t1 = vec![SOp::Lock(0), SOp::Unlock(0)];
            t1.extend(parks.clone());
            out.push(Program::fork_join(mix.clone(), vec![], vec![t1, t2]));
        }
    }

    out.sort_by_key(|p| p.size());
    out
}
