//! E2 — program IR, implementation interpreter, generic reference-model layer, explicit-state
//! checker of the model and NFA-style co-simulation of implementation executions against it.

use crate::explore::{Alt, Explorer, Node, NodeKind, Options};
use shuttle_engine::{Config, FailurePersistence, MaxSteps, Runner};
use std::cell::RefCell;
use std::collections::{BTreeSet, HashMap, HashSet, VecDeque};
use std::fmt::Debug;
use std::hash::Hash;
use std::panic::{catch_unwind, AssertUnwindSafe};
use std::rc::Rc;
use std::sync::Arc;

/// Wrapper asserting Send+Sync for values only ever touched on the single OS thread of a Shuttle
/// execution.
pub struct SS<T>(pub T);
unsafe impl<T> Send for SS<T> {}
unsafe impl<T> Sync for SS<T> {}
impl<T> SS<T> {
    pub fn get(&self) -> &T {
        &self.0
    }
}
impl<T: Clone> Clone for SS<T> {
    fn clone(&self) -> Self {
        SS(self.0.clone())
    }
}

thread_local! {
    static WEAK: std::cell::Cell<bool> = const { std::cell::Cell::new(false) };
}

/// True while the *weakened* model (reference model + the recorded, still unfixed defect) is being
/// evaluated. Families consult it inside `m_step`.
pub fn weak() -> bool {
    WEAK.with(|w| w.get())
}

pub fn with_weak<T>(on: bool, f: impl FnOnce() -> T) -> T {
    let old = WEAK.with(|w| w.replace(on));
    let r = f();
    WEAK.with(|w| w.set(old));
    r
}

/// Result of one model micro-transition of an operation.
#[derive(Clone, Debug)]
pub enum MStep<M, R> {
    /// The operation completes with this result.
    Done(M, R),
    /// Hidden micro-transition (e.g. enqueue / arrive); the op continues in the given phase.
    Cont(M, u8),
    /// The operation is diagnosed with a panic whose message contains this text.
    Panic(String),
    /// Completion that is only permitted as a *spurious* wake-up: allowed iff some other thread has
    /// an ordinary transition; never counts as "able to progress".
    Spurious(M, R),
}

pub trait Family: 'static + Sized {
    type Op: Clone + Debug + PartialEq + Eq + Hash + 'static;
    type Res: Clone + Debug + PartialEq + Eq + Hash + Ord + 'static;
    type Cfg: Clone + Debug + 'static;
    type Objs: 'static;
    type Locals: 'static;
    type M: Clone + Debug + Eq + Hash;
    const NAME: &'static str;

    fn make_objs(cfg: &Self::Cfg, nthreads: usize) -> Self::Objs;
    fn new_locals(cfg: &Self::Cfg, t: usize) -> Self::Locals;
    /// Called by the spawning thread right after `thread::spawn` returned the child's handle.
    fn on_spawn(_objs: &Self::Objs, _child: usize, _thread: &shuttle::thread::Thread) {}
    /// A value moved into the closure / future of child `child` at spawn time (dropped when the
    /// child's closure returns — or when a closure that never ran is destroyed).  C14 uses it to
    /// see whether the closure of a never-scheduled task of an abandoned execution is destroyed.
    fn capture(_objs: &Self::Objs, _child: usize) -> Option<Box<dyn std::any::Any + Send>> {
        None
    }
    /// Called by every thread when it starts running (inside the Shuttle task).
    fn on_start(_objs: &Self::Objs, _t: usize) {}
    /// Async family: every program thread is a task (`future::spawn`), main runs under `block_on`.
    const ASYNC: bool = false;
    /// Async execution of an operation (default: the synchronous `exec`).
    fn exec_async<'a>(
        objs: &'a Self::Objs,
        l: &'a mut Self::Locals,
        t: usize,
        op: &'a Self::Op,
    ) -> std::pin::Pin<Box<dyn std::future::Future<Output = Self::Res> + 'a>> {
        Box::pin(async move { Self::exec(objs, l, t, op) })
    }
    /// C15: happens-before edges the property *requires* (entry index of the earlier Ret, entry index
    /// of the later Ret), derived from the log by API-level rules.
    fn hb_must(_p: &Program<Self>, _log: &[Entry<Self::Res>]) -> Vec<(usize, usize)> {
        Vec::new()
    }
    /// C15: "at least one of" edges: the target's clock must dominate the clock of at least one of
    /// the sources (e.g. a wait woken by one of several notifications).
    fn hb_must_any(_p: &Program<Self>, _log: &[Entry<Self::Res>]) -> Vec<(Vec<usize>, usize)> {
        Vec::new()
    }
    /// C15: "reaches at least one of" edges: the source's clock must be dominated by the clock of
    /// at least one of the targets (e.g. every release of a semaphore whose permits were all taken
    /// again must be in the past of at least one of the acquisitions).
    fn hb_must_reach(_p: &Program<Self>, _log: &[Entry<Self::Res>]) -> Vec<(usize, Vec<usize>)> {
        Vec::new()
    }
    /// C15: the shared objects an operation touches (any two operations on a common object may
    /// exchange causality).
    fn objects_of(_op: &Self::Op) -> Vec<u32> {
        Vec::new()
    }
    /// Reset harness-side global ledgers before a fresh `Runner::run` (C14).
    fn reset_globals() {}
    /// Name to give thread `t` through `thread::Builder` (None = plain `thread::spawn`).
    fn thread_name(_cfg: &Self::Cfg, _t: usize) -> Option<String> {
        None
    }
    /// Execute the real operation (inside a Shuttle task).
    fn exec(objs: &Self::Objs, l: &mut Self::Locals, t: usize, op: &Self::Op) -> Self::Res;
    /// Called when a thread's program is finished. Implementations must *leak* guards the thread
    /// still holds (a thread that never releases), so that leftover guards perform no hidden
    /// operation; plain containers are dropped normally.
    fn end_thread(_objs: &Self::Objs, l: Self::Locals, _t: usize) {
        drop(l);
    }
    /// Family-specific monitor over one finished execution (log + auxiliary events such as
    /// destructor runs): returns (culprit, description) of a violation.
    fn monitor(_p: &Program<Self>, _rec: &ExecRecord<Self::Res>) -> Option<(String, String)> {
        None
    }
    /// Name of the *known finding* that this family's weakened model encodes (see `weak()`), if any.
    /// An execution the normal model rejects but the weakened model accepts is attributed to that
    /// finding; one that both reject is a new violation.
    fn weakening(_cfg: &Self::Cfg) -> Option<&'static str> {
        None
    }
    /// Can a task be cancelled (by abort) while it is in this operation?  False for operations that
    /// block synchronously inside the task's poll (nested block_on): they never return Pending to
    /// the executor, so an abort cannot take effect before they complete.
    fn m_abortable(_op: &Self::Op, _phase: u8) -> bool {
        true
    }
    /// Operations recorded as having *no scheduling point in front of them* (known findings F4/F5):
    /// returns the finding's name. Used only to attribute missing outcomes (C02): the completeness
    /// check is repeated against a model in which such an operation is fused with the end of the
    /// same thread's previous operation.
    fn m_no_sched_point(_op: &GOp<Self::Op>) -> Option<&'static str> {
        None
    }
    /// Fused model only: thread `t`, in the middle of `op`, completes it in the same atomic step as
    /// its previous micro-transition (e.g. the arrival that releases a barrier returns at once).
    fn m_fused_continue(_m: &Self::M, _t: usize, _op: &Self::Op) -> bool {
        false
    }
    /// Does the omission apply in this model state (e.g. Barrier::wait omits its scheduling point
    /// only when the wait will block)?
    fn m_fuse_applies(_m: &Self::M, _t: usize, _op: &Self::Op) -> bool {
        true
    }
    /// Does this operation always ask the scheduler to yield (yield_now and friends)?  Some(true) =
    /// the decision that follows its call must carry is_yielding, Some(false) = must not,
    /// None = not judged (e.g. park, which yields only when it blocks).
    fn yields(_op: &Self::Op) -> Option<bool> {
        Some(false)
    }
    /// Called on the model state when thread `t` finishes.
    fn m_on_finish(_m: &mut Self::M, _t: usize) {}
    /// Cancellation whose destructors take scheduling steps of their own (async families).  Called
    /// when an aborted task that has been polled is cancelled while suspended in `op` at `phase`.
    /// `None` (the default) = the cancellation is ONE atomic `Finish` step with `m_on_finish`.
    /// `Some(alts)`: the task's future is being dropped; every alternative is the model state after
    /// the first atomic part of its destructors: `Done` = nothing further (the task is finished as
    /// cancelled in the same step), `Cont(m, cphase)` = the task stays alive in *cancelling* mode and
    /// goes on with `m_cancel_step` transitions, in its own scheduling steps, until one is `Done`.
    /// `m_on_finish` is called when the task finishes, as always.
    fn m_cancel_begin(_m: &Self::M, _t: usize, _op: &Self::Op, _phase: u8) -> Option<Vec<MStep<Self::M, ()>>> {
        None
    }
    /// Micro-transitions of a task in cancelling mode (see `m_cancel_begin`). Empty = blocked.
    fn m_cancel_step(m: &Self::M, _t: usize, _op: &Self::Op, _cphase: u8, _strict: bool) -> Vec<MStep<Self::M, ()>> {
        vec![MStep::Done(m.clone(), ())]
    }
    /// Weakened model only: thread `t` is held blocked by the modelled defect.
    fn m_forced_blocked(_m: &Self::M, _t: usize) -> bool {
        false
    }
    fn m_init(cfg: &Self::Cfg, nthreads: usize) -> Self::M;
    /// All micro-transitions thread `t` can take for `op` in `phase`. Empty = blocked.
    fn m_step(m: &Self::M, t: usize, op: &Self::Op, phase: u8, strict: bool) -> Vec<MStep<Self::M, Self::Res>>;
}

#[derive(Clone, Debug, PartialEq, Eq, Hash)]
pub enum GOp<O> {
    Spawn(usize),
    Join(usize),
    /// `thread::scope(|s| { spawn these scoped threads; <ops up to the matching ScopeEnd> })`
    ScopeBegin(Vec<usize>),
    /// end of the scope body: returns once every scoped thread has finished
    ScopeEnd,
    /// async families: JoinHandle::abort / drop of the JoinHandle / JoinHandle::is_finished
    Abort(usize),
    Detach(usize),
    IsFinished(usize),
    /// async families: poll the JoinHandle of task `c` once (registering this task's waker) and put
    /// it back: Bool(false) while the task is unfinished, Joined(..) if it had finished (the handle
    /// is then used up).  Another task may await the handle afterwards ("futures moved between tasks").
    PollJoin(usize),
    Op(O),
}

#[derive(Clone, Debug, PartialEq, Eq, Hash, PartialOrd, Ord)]
pub enum GRes<R> {
    Unit,
    /// child's task id is logged but not part of the compared value
    Spawned,
    /// thread join: closure value as expected; async join: true = output, false = Cancelled
    Joined(bool),
    Bool(bool),
    R(R),
}

pub struct Program<F: Family> {
    pub cfg: F::Cfg,
    pub threads: Vec<Vec<GOp<F::Op>>>,
}

impl<F: Family> Clone for Program<F> {
    fn clone(&self) -> Self {
        Program {
            cfg: self.cfg.clone(),
            threads: self.threads.clone(),
        }
    }
}

impl<F: Family> Program<F> {
    pub fn describe(&self) -> String {
        format!("{} cfg={:?} threads={:?}", F::NAME, self.cfg, self.threads)
    }
    pub fn size(&self) -> usize {
        self.threads.iter().map(|t| t.len()).sum()
    }
    /// Standard shape: main spawns threads 1..n, runs its own ops, joins them in order.
    pub fn fork_join(cfg: F::Cfg, main_ops: Vec<F::Op>, children: Vec<Vec<F::Op>>) -> Self {
        let n = children.len();
        let mut main: Vec<GOp<F::Op>> = (1..=n).map(GOp::Spawn).collect();
        main.extend(main_ops.into_iter().map(GOp::Op));
        main.extend((1..=n).map(GOp::Join));
        let mut threads = vec![main];
        for c in children {
            threads.push(c.into_iter().map(GOp::Op).collect());
        }
        Program { cfg, threads }
    }
}

/// The same program preceded by `k` empty threads that main spawns and joins one after the other
/// (no branching: main is blocked while each of them runs): the program's own threads get task ids
/// above `k`.  With k = 16 they lie beyond the inline capacity of the runtime's per-task tables
/// (`DEFAULT_INLINE_TASKS`: task list, vector clocks, the RwLock reader set).  Only for families
/// whose operations and configuration do not mention thread indices.
pub fn with_high_ids<F: Family>(p: &Program<F>, k: usize) -> Program<F> {
    let shift = |c: usize| if c == 0 { 0 } else { c + k };
    let map = |o: &GOp<F::Op>| -> GOp<F::Op> {
        match o {
            GOp::Spawn(c) => GOp::Spawn(shift(*c)),
            GOp::Join(c) => GOp::Join(shift(*c)),
            GOp::Abort(c) => GOp::Abort(shift(*c)),
            GOp::Detach(c) => GOp::Detach(shift(*c)),
            GOp::IsFinished(c) => GOp::IsFinished(shift(*c)),
            GOp::PollJoin(c) => GOp::PollJoin(shift(*c)),
            GOp::ScopeBegin(cs) => GOp::ScopeBegin(cs.iter().map(|c| shift(*c)).collect()),
            other => other.clone(),
        }
    };
    let mut main: Vec<GOp<F::Op>> = Vec::new();
    for i in 1..=k {
        main.push(GOp::Spawn(i));
        main.push(GOp::Join(i));
    }
    main.extend(p.threads[0].iter().map(map));
    let mut threads = vec![main];
    threads.extend((0..k).map(|_| Vec::new()));
    threads.extend(p.threads[1..].iter().map(|t| t.iter().map(map).collect::<Vec<_>>()));
    Program { cfg: p.cfg.clone(), threads }
}

// ---------------------------------------------------------------------------------------------
// Implementation interpreter
// ---------------------------------------------------------------------------------------------

thread_local! {
    /// "-alt" program sets: the interpreters call the alias entry points of the same operations
    /// (`wait_timeout` for `wait`, `recv_timeout` / `iter().next()` for `recv`, `park_timeout`,
    /// `call_once_force`), the programs and models are unchanged.  Set by `FamRunner::progs`.
    static ALT_API: std::cell::Cell<bool> = const { std::cell::Cell::new(false) };
}
pub fn set_alt_api(on: bool) {
    ALT_API.with(|a| a.set(on));
}
pub fn alt_api() -> bool {
    ALT_API.with(|a| a.get())
}

thread_local! {
    /// Auxiliary events of the current execution (destructors, drop counters, ...), in real-time
    /// order, each with the decision stamp and the length of the main log at that moment.
    pub static AUX: RefCell<Vec<AuxEntry>> = const { RefCell::new(Vec::new()) };
    static MAIN_LOG_LEN: std::cell::Cell<usize> = const { std::cell::Cell::new(0) };
}

#[derive(Clone, Debug, PartialEq, Eq)]
pub struct AuxEntry {
    pub stamp: usize,
    /// number of main-log entries written before this event
    pub after: usize,
    pub task: usize,
    pub what: String,
}

/// Record an auxiliary event (callable from destructors; no scheduling point).
pub fn log_aux(what: String) {
    let task: usize = shuttle::current::get_current_task().map(|t| t.into()).unwrap_or(usize::MAX);
    AUX.with(|a| {
        a.borrow_mut().push(AuxEntry {
            stamp: crate::explore::decision_stamp(),
            after: MAIN_LOG_LEN.with(|l| l.get()),
            task,
            what,
        })
    });
}

#[derive(Clone, Debug, PartialEq, Eq)]
pub enum EKind<R> {
    Start,
    Call,
    Ret(GRes<R>),
    /// value attached to a Spawn return: the child's task id as reported by the JoinHandle
    ChildTask(usize),
    /// scoped spawn: (child thread index, task id)
    ChildTask2(usize, usize),
    End,
}

#[derive(Clone, Debug, PartialEq, Eq)]
pub struct Entry<R> {
    pub stamp: usize,
    pub thread: usize,
    pub task: usize,
    pub op: usize,
    /// the task's vector clock when the entry was written (Ret / End entries; empty otherwise)
    pub clock: Vec<u32>,
    pub kind: EKind<R>,
}


struct Ctx<F: Family> {
    prog: Arc<SS<Program<F>>>,
    objs: F::Objs,
    handles: RefCell<Vec<Option<shuttle::thread::JoinHandle<u32>>>>,
    /// handles of scoped threads while their scope is open (lifetime erased; emptied before the
    /// scope closure returns)
    scoped: RefCell<Vec<Option<shuttle::thread::ScopedJoinHandle<'static, u32>>>>,
    ahandles: RefCell<Vec<Option<shuttle::future::JoinHandle<u32>>>>,
    /// one Vec per execution; the current execution's is the last
    log: Logs<F::Res>,
}

/// Value returned by thread `t`'s closure (checked by the joiner).
pub fn thread_ret(t: usize) -> u32 {
    1000 + t as u32
}

fn run_thread<F: Family>(ctx: Arc<SS<Ctx<F>>>, t: usize) -> u32 {
    let c = &ctx.0;
    let me: usize = shuttle::current::me().into();
    let push = |op: usize, kind: EKind<F::Res>| {
        let mut l = c.log.borrow_mut();
        let cur = l.last_mut().expect("log of current execution");
        let clock = if matches!(kind, EKind::Ret(_) | EKind::End | EKind::Start) {
            shuttle::current::clock().iter().cloned().collect()
        } else {
            Vec::new()
        };
        cur.push(Entry {
            stamp: crate::explore::decision_stamp(),
            thread: t,
            task: me,
            op,
            clock,
            kind,
        });
        MAIN_LOG_LEN.with(|n| n.set(cur.len()));
    };
    push(0, EKind::Start);
    F::on_start(&c.objs, t);
    let mut locals = F::new_locals(&c.prog.0.cfg, t);
    let ops = &c.prog.0.threads[t];
    run_ops::<F>(&ctx, t, &mut locals, 0, ops.len(), &push);
    push(ops.len(), EKind::End);
    F::end_thread(&c.objs, locals, t);
    thread_ret(t)
}

/// A future asserted Send (everything runs on the one OS thread of the Shuttle execution).
pub struct SendFut<Fu>(pub Fu);
unsafe impl<Fu> Send for SendFut<Fu> {}
impl<Fu: std::future::Future> std::future::Future for SendFut<Fu> {
    type Output = Fu::Output;
    fn poll(self: std::pin::Pin<&mut Self>, cx: &mut std::task::Context<'_>) -> std::task::Poll<Fu::Output> {
        // Safety: structural pinning of the only field
        unsafe { self.map_unchecked_mut(|s| &mut s.0) }.poll(cx)
    }
}

/// Logs an auxiliary event when the task's future is dropped (completion, cancellation, cut-off).
struct FutureDropLog(usize);
impl Drop for FutureDropLog {
    fn drop(&mut self) {
        log_aux(format!("future-dropped t{}", self.0));
    }
}

/// A future paired with a drop logger created at *spawn* time (a task aborted before its first
/// poll never runs the body of its async fn).
pub struct Logged<Fu> {
    fut: Fu,
    _g: FutureDropLog,
    _cap: Option<Box<dyn std::any::Any + Send>>,
}
impl<Fu: std::future::Future> std::future::Future for Logged<Fu> {
    type Output = Fu::Output;
    fn poll(self: std::pin::Pin<&mut Self>, cx: &mut std::task::Context<'_>) -> std::task::Poll<Fu::Output> {
        unsafe { self.map_unchecked_mut(|s| &mut s.fut) }.poll(cx)
    }
}

/// The async interpreter: program thread `t` as a task.
async fn run_task<F: Family>(ctx: Arc<SS<Ctx<F>>>, t: usize) -> u32 {
    let c = &ctx.0;
    let me: usize = shuttle::current::me().into();
    let push = |op: usize, kind: EKind<F::Res>| {
        let mut l = c.log.borrow_mut();
        let cur = l.last_mut().expect("log of current execution");
        let clock = if matches!(kind, EKind::Ret(_) | EKind::End | EKind::Start) {
            shuttle::current::clock().iter().cloned().collect()
        } else {
            Vec::new()
        };
        cur.push(Entry {
            stamp: crate::explore::decision_stamp(),
            thread: t,
            task: me,
            op,
            clock,
            kind,
        });
        MAIN_LOG_LEN.with(|n| n.set(cur.len()));
    };
    push(0, EKind::Start);
    F::on_start(&c.objs, t);
    let mut locals = F::new_locals(&c.prog.0.cfg, t);
    let ops = &c.prog.0.threads[t];
    for (i, op) in ops.iter().enumerate() {
        push(i, EKind::Call);
        let r = match op {
            GOp::Spawn(ch) => {
                let ctx2 = ctx.clone();
                let ch = *ch;
                let fut = SendFut(Logged {
                    fut: run_task::<F>(ctx2, ch),
                    _g: FutureDropLog(ch),
                    _cap: F::capture(&c.objs, ch),
                });
                // "-alt" sets: the sibling entry points (spawn_local, AbortHandle)
                let h = if alt_api() { shuttle::future::spawn_local(fut) } else { shuttle::future::spawn(fut) };
                c.ahandles.borrow_mut()[ch] = Some(h);
                GRes::Spawned
            }
            GOp::Join(ch) => {
                let h = c.ahandles.borrow_mut()[*ch].take().expect("await without handle");
                match h.await {
                    Ok(v) => {
                        assert_eq!(v, thread_ret(*ch), "joined value");
                        GRes::Joined(true)
                    }
                    Err(_) => GRes::Joined(false),
                }
            }
            GOp::Abort(ch) => {
                // take the handle out while aborting (abort has a scheduling point)
                let h = c.ahandles.borrow_mut()[*ch].take().expect("abort without handle");
                if alt_api() {
                    h.abort_handle().abort();
                } else {
                    h.abort();
                }
                c.ahandles.borrow_mut()[*ch] = Some(h);
                GRes::Unit
            }
            GOp::Detach(ch) => {
                let h = c.ahandles.borrow_mut()[*ch].take().expect("detach without handle");
                drop(h);
                GRes::Unit
            }
            GOp::IsFinished(ch) => {
                let hs = c.ahandles.borrow();
                let h = hs[*ch].as_ref().expect("is_finished without handle");
                let b = if alt_api() { h.abort_handle().is_finished() } else { h.is_finished() };
                GRes::Bool(b)
            }
            GOp::PollJoin(ch) => {
                let mut h = c.ahandles.borrow_mut()[*ch].take().expect("poll without handle");
                let r = std::future::poll_fn(|cx| std::task::Poll::Ready(std::future::Future::poll(std::pin::Pin::new(&mut h), cx))).await;
                match r {
                    std::task::Poll::Ready(Ok(v)) => {
                        assert_eq!(v, thread_ret(*ch), "joined value");
                        GRes::Joined(true)
                    }
                    std::task::Poll::Ready(Err(_)) => GRes::Joined(false),
                    std::task::Poll::Pending => {
                        c.ahandles.borrow_mut()[*ch] = Some(h);
                        GRes::Bool(false)
                    }
                }
            }
            GOp::Op(o) => GRes::R(F::exec_async(&c.objs, &mut locals, t, o).await),
            GOp::ScopeBegin(_) | GOp::ScopeEnd => unreachable!("scope in an async program"),
        };
        push(i, EKind::Ret(r));
    }
    push(ops.len(), EKind::End);
    F::end_thread(&c.objs, locals, t);
    thread_ret(t)
}

/// Run ops[from..to) of thread `t`; returns the index after the last op executed.
fn run_ops<F: Family>(
    ctx: &Arc<SS<Ctx<F>>>,
    t: usize,
    locals: &mut F::Locals,
    from: usize,
    to: usize,
    push: &dyn Fn(usize, EKind<F::Res>),
) {
    let c = &ctx.0;
    let ops = &c.prog.0.threads[t];
    let mut i = from;
    while i < to {
        let op = &ops[i];
        push(i, EKind::Call);
        match op {
            GOp::Spawn(ch) => {
                let ctx2 = ctx.clone();
                let ch = *ch;
                let cap = F::capture(&c.objs, ch);
                let body = move || {
                    let _cap = cap;
                    let ctx2 = ctx2;
                    run_thread::<F>(ctx2, ch)
                };
                let h = match F::thread_name(&c.prog.0.cfg, ch) {
                    Some(name) => shuttle::thread::Builder::new().name(name).spawn(body).expect("Builder::spawn"),
                    None => shuttle::thread::spawn(body),
                };
                let tid: usize = h.thread().id().into();
                F::on_spawn(&c.objs, ch, h.thread());
                c.handles.borrow_mut()[ch] = Some(h);
                push(i, EKind::ChildTask(tid));
                push(i, EKind::Ret(GRes::Spawned));
                i += 1;
            }
            GOp::Join(ch) => {
                let scoped = c.scoped.borrow_mut()[*ch].take();
                let r = match scoped {
                    // join of a scoped thread inside its scope
                    Some(h) => GRes::Joined(h.join().ok() == Some(thread_ret(*ch))),
                    None => {
                        let h = c.handles.borrow_mut()[*ch].take().expect("join without handle");
                        GRes::Joined(h.join().ok() == Some(thread_ret(*ch)))
                    }
                };
                push(i, EKind::Ret(r));
                i += 1;
            }
            GOp::Op(o) => {
                let r = GRes::R(F::exec(&c.objs, locals, t, o));
                push(i, EKind::Ret(r));
                i += 1;
            }
            GOp::ScopeBegin(children) => {
                // find the matching ScopeEnd
                let mut depth = 0usize;
                let mut end = i + 1;
                while end < to {
                    match &ops[end] {
                        GOp::ScopeBegin(_) => depth += 1,
                        GOp::ScopeEnd => {
                            if depth == 0 {
                                break;
                            }
                            depth -= 1;
                        }
                        _ => {}
                    }
                    end += 1;
                }
                assert!(end < to, "ScopeBegin without ScopeEnd");
                let begin = i;
                shuttle::thread::scope(|s| {
                    for ch in children {
                        let ctx2 = ctx.clone();
                        let ch = *ch;
                        let h = s.spawn(move || {
                            let ctx2 = ctx2;
                            run_thread::<F>(ctx2, ch)
                        });
                        let tid: usize = h.thread().id().into();
                        F::on_spawn(&c.objs, ch, h.thread());
                        push(begin, EKind::ChildTask2(ch, tid));
                        // SAFETY: the handle is dropped (or joined) before this closure returns
                        c.scoped.borrow_mut()[ch] = Some(unsafe { std::mem::transmute::<shuttle::thread::ScopedJoinHandle<'_, u32>, shuttle::thread::ScopedJoinHandle<'static, u32>>(h) });
                    }
                    push(begin, EKind::Ret(GRes::Unit));
                    run_ops::<F>(ctx, t, locals, begin + 1, end, push);
                    push(end, EKind::Call);
                    for ch in children {
                        c.scoped.borrow_mut()[*ch] = None;
                    }
                });
                push(end, EKind::Ret(GRes::Unit));
                i = end + 1;
            }
            GOp::ScopeEnd => unreachable!("ScopeEnd is consumed by its ScopeBegin"),
            GOp::Abort(_) | GOp::Detach(_) | GOp::IsFinished(_) | GOp::PollJoin(_) => unreachable!("async-only operation in a thread program"),
        }
    }
}

#[derive(Clone, Debug, PartialEq, Eq, Hash, PartialOrd, Ord)]
pub enum Ending {
    Ok,
    /// sorted *thread* indices (mapped from task ids) of unfinished tasks
    Deadlock(Vec<usize>),
    Panic(String),
    Stopped,
}

pub struct ExecRecord<R> {
    pub aux: Vec<AuxEntry>,
    pub log: Vec<Entry<R>>,
    pub path: Vec<Node>,
    pub raw_ending: RawEnding,
}

#[derive(Clone, Debug, PartialEq, Eq)]
pub enum RawEnding {
    Ok,
    Deadlock { tasks: Vec<usize>, msg: String },
    Panic(String),
    Stopped,
}

pub fn payload_to_string(p: &Box<dyn std::any::Any + Send>) -> String {
    if let Some(s) = p.downcast_ref::<&'static str>() {
        s.to_string()
    } else if let Some(s) = p.downcast_ref::<String>() {
        s.clone()
    } else {
        "<non-string payload>".to_string()
    }
}

/// Parse "deadlock! blocked tasks: [name (task X(3), detached), ...]" into task ids.
pub fn parse_deadlock(msg: &str) -> Option<Vec<usize>> {
    let rest = msg.strip_prefix("deadlock! blocked tasks: [")?;
    let mut out = Vec::new();
    for seg in rest.split("(task ").skip(1) {
        // seg looks like `TaskId(3))` or `main-thread(0), detached)`
        let open = seg.find('(')?;
        let digits: String = seg[open + 1..].chars().take_while(|c| c.is_ascii_digit()).collect();
        out.push(digits.parse().ok()?);
    }
    out.sort();
    Some(out)
}

pub fn base_config() -> Config {
    let mut c = Config::new();
    c.failure_persistence = FailurePersistence::None;
    c.max_steps = MaxSteps::FailAfter(20_000);
    c.silence_warnings = true;
    c
}

pub type Logs<R> = Rc<RefCell<Vec<Vec<Entry<R>>>>>;
pub type AuxLogs = Rc<RefCell<Vec<Vec<AuxEntry>>>>;

pub fn make_body<F: Family>(prog: &Arc<SS<Program<F>>>, logs: &Logs<F::Res>, auxs: &AuxLogs) -> impl Fn() + Send + Sync + 'static {
    let prog = prog.clone();
    let logs = SS(logs.clone());
    let auxs = SS(auxs.clone());
    move || {
        let n = prog.get().threads.len();
        // auxiliary events recorded since the previous body started belong to the previous execution
        // (thread-local destructors of its main thread run after the body returns)
        let prev = AUX.with(|a| std::mem::take(&mut *a.borrow_mut()));
        if !logs.get().borrow().is_empty() {
            auxs.get().borrow_mut().push(prev);
        }
        MAIN_LOG_LEN.with(|l| l.set(0));
        logs.get().borrow_mut().push(Vec::new());
        let ctx = Arc::new(SS(Ctx::<F> {
            prog: prog.clone(),
            objs: F::make_objs(&prog.get().cfg, n),
            handles: RefCell::new((0..n).map(|_| None).collect()),
            scoped: RefCell::new((0..n).map(|_| None).collect()),
            ahandles: RefCell::new((0..n).map(|_| None).collect()),
            log: logs.get().clone(),
        }));
        if F::ASYNC {
            shuttle::future::block_on(run_task::<F>(ctx, 0));
        } else {
            run_thread::<F>(ctx, 0);
        }
    }
}

fn classify(r: std::thread::Result<()>) -> RawEnding {
    match r {
        Ok(()) => RawEnding::Ok,
        Err(p) => {
            let msg = payload_to_string(&p);
            match parse_deadlock(&msg) {
                Some(tasks) => RawEnding::Deadlock { tasks, msg },
                None => RawEnding::Panic(msg),
            }
        }
    }
}

/// Run one execution of `prog` under the given scheduler; returns the log and the raw ending.
pub fn run_once<F: Family, S: shuttle_engine::scheduler::Scheduler + 'static>(
    prog: &Arc<SS<Program<F>>>,
    sched: S,
    config: &Config,
) -> (Vec<Entry<F::Res>>, RawEnding) {
    let logs: Logs<F::Res> = Rc::new(RefCell::new(Vec::new()));
    let auxs: AuxLogs = Rc::new(RefCell::new(Vec::new()));
    AUX.with(|a| a.borrow_mut().clear());
    let body = make_body::<F>(prog, &logs, &auxs);
    let r = catch_unwind(AssertUnwindSafe(|| {
        Runner::new(sched, config.clone()).run(body);
    }));
    let ending = classify(r);
    let l = logs.borrow_mut().pop().unwrap_or_default();
    (l, ending)
}

#[derive(Default, Debug, Clone)]
pub struct TreeStats {
    pub executions: u64,
    pub decisions: u64,
    pub max_depth: usize,
    pub depth_cap_hits: u64,
    pub exec_cap_hit: bool,
    /// see `explore::State::after_stop`
    pub after_stop: Option<(String, Vec<crate::explore::Node>)>,
}

/// Explore the whole choice tree of `prog`, calling `visit` for every execution.
/// Several executions share one `Runner::run` (and therefore one continuation pool); a run ends
/// early when an execution fails (deadlock / panic), which is then the last record of the batch.
/// Returns Err on machinery errors (replay divergence).
pub fn explore_program<F: Family>(
    prog: &Arc<SS<Program<F>>>,
    opts: Options,
    max_execs: u64,
    mut visit: impl FnMut(&ExecRecord<F::Res>, &Explorer),
) -> Result<TreeStats, String> {
    let ex = Explorer::new(opts);
    ex.set_executions_per_run(128);
    let config = base_config();
    let mut capped = false;
    let logs: Logs<F::Res> = Rc::new(RefCell::new(Vec::new()));
    let auxs: AuxLogs = Rc::new(RefCell::new(Vec::new()));
    loop {
        AUX.with(|a| a.borrow_mut().clear());
        let body = make_body::<F>(prog, &logs, &auxs);
        let r = catch_unwind(AssertUnwindSafe(|| {
            Runner::new(ex.handle(), config.clone()).run(body);
        }));
        let last_ending = classify(r);
        ex.advance();
        if let Some(d) = ex.diverged() {
            return Err(format!("{} — program {}", d, prog.0.describe()));
        }
        let fin = ex.drain_finished();
        let ls: Vec<Vec<Entry<F::Res>>> = std::mem::take(&mut *logs.borrow_mut());
        let last_aux = AUX.with(|a| std::mem::take(&mut *a.borrow_mut()));
        let mut axs: Vec<Vec<AuxEntry>> = std::mem::take(&mut *auxs.borrow_mut());
        axs.push(last_aux);
        // an execution stopped by the scheduler at its very first decision never runs the body:
        // give it an empty log
        let mut ls_it = ls.into_iter();
        let mut ax_it = axs.into_iter();
        let mut ls2: Vec<Vec<Entry<F::Res>>> = Vec::new();
        let mut ax2: Vec<Vec<AuxEntry>> = Vec::new();
        for (path, _) in fin.iter() {
            let stopped_at_once = path.len() == 1 && matches!(path[0].chosen(), Alt::Stop);
            if stopped_at_once {
                ls2.push(Vec::new());
                ax2.push(Vec::new());
            } else {
                match (ls_it.next(), ax_it.next()) {
                    (Some(l), Some(a)) => {
                        ls2.push(l);
                        ax2.push(a);
                    }
                    (Some(l), None) => {
                        ls2.push(l);
                        ax2.push(Vec::new());
                    }
                    _ => {
                        return Err(format!("explorer finished {} executions but fewer bodies ran — program {}", fin.len(), prog.0.describe()));
                    }
                }
            }
        }
        if ls_it.next().is_some() {
            return Err(format!("more bodies ran than executions finished — program {}", prog.0.describe()));
        }
        let (ls, axs) = (ls2, ax2);
        let nfin = fin.len();
        for (i, (((path, stopped), log), aux)) in fin.into_iter().zip(ls.into_iter()).zip(axs.into_iter()).enumerate() {
            let raw = if i + 1 == nfin && last_ending != RawEnding::Ok {
                last_ending.clone()
            } else if stopped {
                RawEnding::Stopped
            } else {
                RawEnding::Ok
            };
            let rec = ExecRecord {
                aux,
                log,
                path,
                raw_ending: raw,
            };
            visit(&rec, &ex);
        }
        if ex.exhausted() {
            break;
        }
        if ex.stats().executions >= max_execs {
            capped = true;
            break;
        }
    }
    let s = ex.stats();
    Ok(TreeStats {
        executions: s.executions,
        decisions: s.decisions,
        max_depth: s.max_depth,
        depth_cap_hits: s.depth_cap_hits,
        exec_cap_hit: capped,
        after_stop: ex.after_stop(),
    })
}

// ---------------------------------------------------------------------------------------------
// Generic model layer
// ---------------------------------------------------------------------------------------------

#[derive(Clone, Copy, Debug, PartialEq, Eq, Hash)]
pub enum St {
    NotStarted,
    Active,
    Finished,
}

#[derive(Clone, Debug, PartialEq, Eq, Hash)]
pub struct Th {
    pub pc: u16,
    pub phase: u8,
    pub st: St,
    /// DETACHED | ABORTED | CANCELLED
    pub flags: u8,
}

pub const DETACHED: u8 = 1;
pub const ABORTED: u8 = 2;
pub const CANCELLED: u8 = 4;
/// async families: the task has been polled at least once
pub const STARTED: u8 = 8;
/// async families: the task's future is being dropped by a cancellation whose destructors take
/// scheduling steps (`Family::m_cancel_begin`); `phase` is then the cancel-phase
pub const CANCELLING: u8 = 16;

/// The execution is over once no attached task is unfinished (detached ones are cut off).
pub fn execution_over<F: Family>(s: &GState<F>) -> bool {
    let any_active = s.th.iter().any(|t| t.st == St::Active);
    let attached_active = s.th.iter().any(|t| t.st == St::Active && t.flags & DETACHED == 0);
    any_active && !attached_active
}

pub struct GState<F: Family> {
    pub th: Vec<Th>,
    pub m: F::M,
    pub res: Vec<Vec<GRes<F::Res>>>,
    pub panic: Option<String>,
}

impl<F: Family> Clone for GState<F> {
    fn clone(&self) -> Self {
        GState {
            th: self.th.clone(),
            m: self.m.clone(),
            res: self.res.clone(),
            panic: self.panic.clone(),
        }
    }
}
impl<F: Family> PartialEq for GState<F> {
    fn eq(&self, o: &Self) -> bool {
        self.th == o.th && self.m == o.m && self.res == o.res && self.panic == o.panic
    }
}
impl<F: Family> Eq for GState<F> {}
impl<F: Family> Hash for GState<F> {
    fn hash<H: std::hash::Hasher>(&self, h: &mut H) {
        self.th.hash(h);
        self.m.hash(h);
        self.res.hash(h);
        self.panic.hash(h);
    }
}
impl<F: Family> Debug for GState<F> {
    fn fmt(&self, f: &mut std::fmt::Formatter<'_>) -> std::fmt::Result {
        write!(f, "th={:?} m={:?} panic={:?}", self.th, self.m, self.panic)
    }
}

#[derive(Clone, Debug, PartialEq, Eq)]
pub enum Label<R> {
    Eps,
    /// first poll of an async task
    Start,
    Finish,
    Ret(usize, GRes<R>),
    Panic(String),
}

pub fn g_init<F: Family>(p: &Program<F>) -> GState<F> {
    let n = p.threads.len();
    let mut th: Vec<Th> = (0..n)
        .map(|_| Th {
            pc: 0,
            phase: 0,
            st: St::NotStarted,
            flags: 0,
        })
        .collect();
    th[0].st = St::Active;
    GState {
        th,
        m: F::m_init(&p.cfg, n),
        res: vec![Vec::new(); n],
        panic: None,
    }
}

/// All transitions of thread `t` from `s` (spurious completions only if another thread can move).
pub fn g_steps_of<F: Family>(p: &Program<F>, s: &GState<F>, t: usize, strict: bool) -> Vec<(Label<F::Res>, GState<F>)> {
    let raw = g_steps_raw(p, s, t, strict);
    if raw.iter().any(|(sp, _, _)| *sp) {
        // A spurious wake-up is only ever offered together with a task that can really run.  In the
        // implementation a thread whose last operation has returned finishes in that same step (there
        // is no scheduling point in between), so under the strict discipline a thread that has
        // nothing left but to finish does not count (false alarm of C02 on the gated park programs:
        // a second park "completed spuriously" while the only other thread was already past its
        // last operation).
        let at_end = |u: usize| s.th[u].pc as usize == p.threads[u].len();
        let other = (0..p.threads.len()).any(|u| u != t && !(strict && at_end(u)) && g_steps_raw(p, s, u, strict).iter().any(|(sp, _, _)| !*sp));
        raw.into_iter().filter(|(sp, _, _)| !*sp || other).map(|(_, l, n)| (l, n)).collect()
    } else {
        raw.into_iter().map(|(_, l, n)| (l, n)).collect()
    }
}

/// Ordinary (non-spurious) transitions only: what counts as "able to progress".
pub fn g_steps_ordinary<F: Family>(p: &Program<F>, s: &GState<F>, t: usize, strict: bool) -> Vec<(Label<F::Res>, GState<F>)> {
    g_steps_raw(p, s, t, strict).into_iter().filter(|(sp, _, _)| !*sp).map(|(_, l, n)| (l, n)).collect()
}

fn g_steps_raw<F: Family>(p: &Program<F>, s: &GState<F>, t: usize, strict: bool) -> Vec<(bool, Label<F::Res>, GState<F>)> {
    let mut out = Vec::new();
    if s.panic.is_some() || s.th[t].st != St::Active {
        return out;
    }
    if execution_over(s) {
        return out;
    }
    let in_unabortable_op = {
        let pc = s.th[t].pc as usize;
        (!F::ASYNC || s.th[t].flags & STARTED != 0) && pc < p.threads[t].len() && matches!(&p.threads[t][pc], GOp::Op(o) if !F::m_abortable(o, s.th[t].phase))
    };
    let cancelled = |m: F::M| {
        let mut n = s.clone();
        n.m = m;
        n.th[t].st = St::Finished;
        n.th[t].flags |= CANCELLED;
        n.th[t].flags &= !CANCELLING;
        F::m_on_finish(&mut n.m, t);
        n
    };
    if s.th[t].flags & CANCELLING != 0 {
        // the destructors of a cancelled task's future, step by step (`Family::m_cancel_begin`)
        if let GOp::Op(o) = &p.threads[t][s.th[t].pc as usize] {
            for st in F::m_cancel_step(&s.m, t, o, s.th[t].phase, strict) {
                match st {
                    MStep::Done(m, ()) | MStep::Spurious(m, ()) => out.push((false, Label::Finish, cancelled(m))),
                    MStep::Cont(m, ph) => {
                        let mut n = s.clone();
                        n.m = m;
                        n.th[t].phase = ph;
                        out.push((false, Label::Eps, n));
                    }
                    MStep::Panic(cls) => {
                        let mut n = s.clone();
                        n.panic = Some(cls.clone());
                        out.push((false, Label::Panic(cls), n));
                    }
                }
            }
        }
        return out;
    }
    if s.th[t].flags & ABORTED != 0 && !in_unabortable_op {
        // an aborted task may be cancelled whenever it is polled next: its future is dropped and it
        // performs no further step (loose: the poll boundary is not modelled) — unless the family
        // says the destructors take steps of their own
        let pc = s.th[t].pc as usize;
        let multi = match p.threads[t].get(pc) {
            Some(GOp::Op(o)) if F::ASYNC && s.th[t].flags & STARTED != 0 => F::m_cancel_begin(&s.m, t, o, s.th[t].phase),
            _ => None,
        };
        match multi {
            None => out.push((false, Label::Finish, cancelled(s.m.clone()))),
            Some(alts) => {
                for st in alts {
                    match st {
                        MStep::Done(m, ()) | MStep::Spurious(m, ()) => out.push((false, Label::Finish, cancelled(m))),
                        MStep::Cont(m, ph) => {
                            let mut n = s.clone();
                            n.m = m;
                            n.th[t].phase = ph;
                            n.th[t].flags |= CANCELLING;
                            out.push((false, Label::Eps, n));
                        }
                        MStep::Panic(cls) => {
                            let mut n = s.clone();
                            n.panic = Some(cls.clone());
                            out.push((false, Label::Panic(cls), n));
                        }
                    }
                }
            }
        }
    }
    if F::ASYNC && s.th[t].flags & STARTED == 0 {
        // first poll of the task (a task aborted before it can only be cancelled)
        let mut n = s.clone();
        n.th[t].flags |= STARTED;
        out.push((false, Label::Start, n));
        return out;
    }
    if weak()
        && F::m_forced_blocked(&s.m, t)
        && (s.th[t].pc as usize) < p.threads[t].len()
        // ... and an operation without a scheduling point of its own (recorded as such) still runs
        // in the same step as the previous one
        && F::m_no_sched_point(&p.threads[t][s.th[t].pc as usize]).is_none()
    {
        // held blocked by the modelled defect (takes effect at the thread's next scheduling point,
        // i.e. before its next operation; a thread with nothing left to do still finishes)
        return out;
    }
    let pc = s.th[t].pc as usize;
    let ops = &p.threads[t];
    if pc == ops.len() {
        let mut n = s.clone();
        n.th[t].st = St::Finished;
        F::m_on_finish(&mut n.m, t);
        out.push((false, Label::Finish, n));
        return out;
    }
    let done = |s: &GState<F>, r: GRes<F::Res>| {
        let mut n = s.clone();
        n.th[t].pc += 1;
        n.th[t].phase = 0;
        n.res[t].push(r);
        n
    };
    match &ops[pc] {
        GOp::Spawn(c) => {
            let mut n = done(s, GRes::Spawned);
            n.th[*c].st = St::Active;
            out.push((false, Label::Ret(pc, GRes::Spawned), n));
        }
        GOp::Join(c) => {
            if s.th[*c].st == St::Finished {
                let ok = s.th[*c].flags & CANCELLED == 0;
                out.push((false, Label::Ret(pc, GRes::Joined(ok)), done(s, GRes::Joined(ok))));
            }
        }
        GOp::Abort(c) => {
            let mut n = done(s, GRes::Unit);
            if n.th[*c].st != St::Finished {
                n.th[*c].flags |= ABORTED;
            }
            out.push((false, Label::Ret(pc, GRes::Unit), n));
        }
        GOp::Detach(c) => {
            let mut n = done(s, GRes::Unit);
            n.th[*c].flags |= DETACHED;
            out.push((false, Label::Ret(pc, GRes::Unit), n));
        }
        GOp::IsFinished(c) => {
            let f = s.th[*c].st == St::Finished;
            out.push((false, Label::Ret(pc, GRes::Bool(f)), done(s, GRes::Bool(f))));
        }
        GOp::PollJoin(c) => {
            let r = if s.th[*c].st == St::Finished { GRes::Joined(s.th[*c].flags & CANCELLED == 0) } else { GRes::Bool(false) };
            out.push((false, Label::Ret(pc, r.clone()), done(s, r)));
        }
        GOp::ScopeBegin(children) => {
            // scoped spawns happen one by one (each is a scheduling point), then the body starts
            let ph = s.th[t].phase as usize;
            if ph < children.len() {
                let mut n = s.clone();
                n.th[children[ph]].st = St::Active;
                n.th[t].phase += 1;
                out.push((false, Label::Eps, n));
            } else {
                out.push((false, Label::Ret(pc, GRes::Unit), done(s, GRes::Unit)));
            }
        }
        GOp::ScopeEnd => {
            if scope_children(ops, pc).iter().all(|c| s.th[*c].st == St::Finished) {
                out.push((false, Label::Ret(pc, GRes::Unit), done(s, GRes::Unit)));
            }
        }
        GOp::Op(o) => {
            for st in F::m_step(&s.m, t, o, s.th[t].phase, strict) {
                match st {
                    MStep::Done(m, r) => {
                        let mut n = done(s, GRes::R(r.clone()));
                        n.m = m;
                        out.push((false, Label::Ret(pc, GRes::R(r)), n));
                    }
                    MStep::Spurious(m, r) => {
                        let mut n = done(s, GRes::R(r.clone()));
                        n.m = m;
                        out.push((true, Label::Ret(pc, GRes::R(r)), n));
                    }
                    MStep::Cont(m, ph) => {
                        let mut n = s.clone();
                        n.m = m;
                        n.th[t].phase = ph;
                        out.push((false, Label::Eps, n));
                    }
                    MStep::Panic(cls) => {
                        let mut n = s.clone();
                        n.panic = Some(cls.clone());
                        out.push((false, Label::Panic(cls), n));
                    }
                }
            }
        }
    }
    out
}

/// Able to progress in the ordinary sense (spurious wake-ups do not count).
pub fn g_enabled<F: Family>(p: &Program<F>, s: &GState<F>, t: usize, strict: bool) -> bool {
    !g_steps_ordinary(p, s, t, strict).is_empty()
}

/// Children of the scope whose `ScopeEnd` is at index `end`.
pub fn scope_children<O>(ops: &[GOp<O>], end: usize) -> Vec<usize> {
    let mut depth = 0usize;
    let mut i = end;
    while i > 0 {
        i -= 1;
        match &ops[i] {
            GOp::ScopeEnd => depth += 1,
            GOp::ScopeBegin(ch) => {
                if depth == 0 {
                    return ch.clone();
                }
                depth -= 1;
            }
            _ => {}
        }
    }
    panic!("ScopeEnd without ScopeBegin")
}

#[derive(Clone, Debug, PartialEq, Eq, Hash, PartialOrd, Ord)]
pub struct Outcome<R: Ord> {
    pub res: Vec<Vec<GRes<R>>>,
    pub ending: Ending,
}

#[derive(Default, Debug, Clone)]
pub struct ModelStats {
    pub states: u64,
    pub transitions: u64,
    pub depth: usize,
    pub capped: bool,
}

/// Explicit-state breadth-first exploration of the model of `p`; returns the outcome set.
/// After thread `t` completed an operation: run its following no-scheduling-point operations in the
/// same atomic step (weakened completeness model for the recorded findings F4/F5).
fn fuse_follow<F: Family>(p: &Program<F>, mut s: GState<F>, t: usize, strict: bool) -> GState<F> {
    loop {
        if s.panic.is_some() || s.th[t].st != St::Active {
            return s;
        }
        let pc = s.th[t].pc as usize;
        if pc < p.threads[t].len() && s.th[t].phase != 0 {
            // mid-operation: does it complete in the same step?
            if let GOp::Op(o) = &p.threads[t][pc] {
                if F::m_fused_continue(&s.m, t, o) {
                    let steps = g_steps_raw(p, &s, t, strict);
                    if steps.len() == 1 && matches!(steps[0].1, Label::Ret(..)) {
                        s = steps[0].2.clone();
                        continue;
                    }
                }
            }
            return s;
        }
        if pc >= p.threads[t].len() || F::m_no_sched_point(&p.threads[t][pc]).is_none() || s.th[t].phase != 0 {
            return s;
        }
        if let GOp::Op(o) = &p.threads[t][pc] {
            if !F::m_fuse_applies(&s.m, t, o) {
                return s;
            }
        }
        // the first micro-transition of the operation (its whole effect, or its "arrive") happens in
        // the same atomic step as the end of the previous operation
        let steps = g_steps_raw(p, &s, t, strict);
        if steps.len() != 1 {
            return s;
        }
        let was_ret = matches!(steps[0].1, Label::Ret(..));
        if !was_ret && !matches!(steps[0].1, Label::Eps) {
            return s;
        }
        s = steps[0].2.clone();
        let _ = was_ret; // after an "arrive" the loop checks whether the operation completes at once
    }
}

/// Names of the known no-scheduling-point findings whose operations occur in `p` (not as the very
/// first operation of a thread, where being scheduled is itself a decision).
pub fn no_sched_findings<F: Family>(p: &Program<F>) -> Vec<&'static str> {
    let mut v = Vec::new();
    for th in &p.threads {
        for (i, op) in th.iter().enumerate() {
            if i > 0 {
                if let Some(n) = F::m_no_sched_point(op) {
                    if !v.contains(&n) {
                        v.push(n);
                    }
                }
            }
        }
    }
    v
}

pub fn model_outcomes<F: Family>(p: &Program<F>, strict: bool, max_states: usize) -> (BTreeSet<Outcome<F::Res>>, ModelStats) {
    model_outcomes_ex(p, strict, max_states, false)
}

pub fn model_outcomes_ex<F: Family>(p: &Program<F>, strict: bool, max_states: usize, fuse: bool) -> (BTreeSet<Outcome<F::Res>>, ModelStats) {
    let mut seen: HashSet<GState<F>> = HashSet::new();
    let mut q: VecDeque<(GState<F>, usize)> = VecDeque::new();
    let mut outs = BTreeSet::new();
    let mut stats = ModelStats::default();
    let init = g_init(p);
    seen.insert(init.clone());
    q.push_back((init, 0));
    while let Some((s, d)) = q.pop_front() {
        stats.depth = stats.depth.max(d);
        let mut any = false;
        // Strict discipline: a thread / task whose last operation has returned finishes in that same
        // step of the implementation (no scheduling point in between), so its `Finish` is taken
        // eagerly instead of being interleaved with the others' steps.  (Without this, outcomes that
        // depend on "has that thread finished yet" — recorded finding F14, spurious wake-ups — were
        // demanded although no schedule can separate the two.)  Threads with thread-local
        // destructors (family `thread`) do have scheduling points after their last operation.
        let eager: Option<usize> = if strict && s.panic.is_none() && F::NAME != "thread" {
            (0..p.threads.len()).find(|&t| {
                s.th[t].st == St::Active && s.th[t].pc as usize == p.threads[t].len() && (!F::ASYNC || s.th[t].flags & STARTED != 0)
            })
        } else {
            None
        };
        if s.panic.is_none() {
            for t in 0..p.threads.len() {
                if eager.is_some() && eager != Some(t) {
                    continue;
                }
                for (l, n) in g_steps_of(p, &s, t, strict) {
                    any = true;
                    stats.transitions += 1;
                    let n = if fuse && matches!(l, Label::Ret(..) | Label::Eps) { fuse_follow(p, n, t, strict) } else { n };
                    if seen.len() >= max_states {
                        stats.capped = true;
                        continue;
                    }
                    if seen.insert(n.clone()) {
                        q.push_back((n, d + 1));
                    }
                }
            }
        }
        if !any {
            let ending = if let Some(c) = &s.panic {
                Ending::Panic(c.clone())
            } else {
                let unfinished: Vec<usize> = (0..s.th.len()).filter(|&t| s.th[t].st == St::Active).collect();
                let attached_unfinished = (0..s.th.len()).any(|t| s.th[t].st == St::Active && s.th[t].flags & DETACHED == 0);
                if !attached_unfinished {
                    Ending::Ok
                } else {
                    Ending::Deadlock(unfinished)
                }
            };
            outs.insert(Outcome {
                res: s.res.clone(),
                ending,
            });
        }
    }
    stats.states = seen.len() as u64;
    (outs, stats)
}

// ---------------------------------------------------------------------------------------------
// Co-simulation of one implementation execution against the model
// ---------------------------------------------------------------------------------------------

#[derive(Debug, Clone, Copy, PartialEq, Eq)]
pub enum FailKind {
    Ret,
    Enabled,
    Ending,
    Contract,
}

#[derive(Debug, Clone)]
pub struct CosimFail {
    pub kind: FailKind,
    /// op kind implicated (for grouping findings)
    pub culprit: String,
    pub at_decision: usize,
    pub what: String,
}

pub struct CosimResult<R: Ord> {
    pub outcome: Outcome<R>,
    pub fail: Option<CosimFail>,
    /// threads → task ids observed
    pub task_of: Vec<Option<usize>>,
}


// ---- memoised model (per program) -----------------------------------------------------------

pub struct Tr<R> {
    pub spurious: bool,
    pub label: Label<R>,
    pub next: u32,
}

#[derive(Clone, PartialEq, Eq, Hash)]
enum Ev<R> {
    Closure(u8, bool, bool),
    Ret(u8, u16, GRes<R>),
    /// keep states in which every thread that is able to run (and whose gate is open) is offered
    Filter(u64, u64),
}

/// Interned model states, cached transitions, interned candidate sets and memoised NFA steps of
/// one program. States and candidate sets recur massively across the executions of a program, so
/// co-simulation of an execution is a few dozen hash look-ups.
pub struct MCache<F: Family> {
    pub strict: bool,
    pub states: Vec<GState<F>>,
    idx: HashMap<GState<F>, u32>,
    trans: HashMap<(u32, u8), Rc<Vec<Tr<F::Res>>>>,
    sets: Vec<Rc<Vec<u32>>>,
    set_idx: HashMap<Rc<Vec<u32>>, u32>,
    memo: HashMap<(u32, Ev<F::Res>), u32>,
    en: HashMap<(u32, u8), bool>,
    pub init_set: u32,
}

impl<F: Family> MCache<F> {
    pub fn new(p: &Program<F>, strict: bool) -> Self {
        let mut c = MCache {
            strict,
            states: Vec::new(),
            idx: HashMap::new(),
            trans: HashMap::new(),
            sets: Vec::new(),
            set_idx: HashMap::new(),
            memo: HashMap::new(),
            en: HashMap::new(),
            init_set: 0,
        };
        let i = c.intern(g_init(p));
        c.init_set = c.intern_set(vec![i]);
        c
    }

    pub fn intern(&mut self, s: GState<F>) -> u32 {
        if let Some(i) = self.idx.get(&s) {
            return *i;
        }
        let i = self.states.len() as u32;
        self.states.push(s.clone());
        self.idx.insert(s, i);
        i
    }

    fn intern_set(&mut self, mut v: Vec<u32>) -> u32 {
        v.sort_unstable();
        v.dedup();
        let rc = Rc::new(v);
        if let Some(i) = self.set_idx.get(&rc) {
            return *i;
        }
        let i = self.sets.len() as u32;
        self.sets.push(rc.clone());
        self.set_idx.insert(rc, i);
        i
    }

    pub fn set(&self, id: u32) -> Rc<Vec<u32>> {
        self.sets[id as usize].clone()
    }

    pub fn raw(&mut self, p: &Program<F>, s: u32, t: usize) -> Rc<Vec<Tr<F::Res>>> {
        if let Some(r) = self.trans.get(&(s, t as u8)) {
            return r.clone();
        }
        let st = self.states[s as usize].clone();
        let v: Vec<Tr<F::Res>> = g_steps_raw(p, &st, t, self.strict)
            .into_iter()
            .map(|(sp, l, n)| Tr {
                spurious: sp,
                label: l,
                next: self.intern(n),
            })
            .collect();
        let rc = Rc::new(v);
        self.trans.insert((s, t as u8), rc.clone());
        rc
    }

    /// Able to progress in the ordinary sense *under the discipline Shuttle documents* (strict
    /// model): return values are judged against the loose (contract-only) relation, but "which tasks
    /// can run now" must not assume freedoms the implementation documents it does not take (e.g.
    /// a blocked sender overtaking the head of the FIFO queue).
    pub fn enabled(&mut self, p: &Program<F>, s: u32, t: usize) -> bool {
        if let Some(b) = self.en.get(&(s, t as u8)) {
            return *b;
        }
        let b = g_steps_raw(p, &self.states[s as usize], t, true).iter().any(|(sp, _, _)| !*sp);
        self.en.insert((s, t as u8), b);
        b
    }

    /// may spurious completions of `t` be taken in `s`?
    fn spurious_ok(&mut self, p: &Program<F>, s: u32, t: usize) -> bool {
        (0..p.threads.len()).any(|u| u != t && self.enabled(p, s, u))
    }

    fn closure(&mut self, p: &Program<F>, set: u32, t: usize, open: bool, started: bool) -> u32 {
        let key = (set, Ev::Closure(t as u8, open, started));
        if let Some(r) = self.memo.get(&key) {
            return *r;
        }
        let mut all: HashSet<u32> = self.sets[set as usize].iter().cloned().collect();
        let mut work: Vec<u32> = all.iter().cloned().collect();
        while let Some(s) = work.pop() {
            let (active, at_end) = {
                let st = &self.states[s as usize];
                (st.th[t].st == St::Active, st.th[t].pc as usize == p.threads[t].len())
            };
            if !active {
                continue;
            }
            let may_eps = at_end || open;
            for tr in self.raw(p, s, t).iter() {
                let ok = match tr.label {
                    Label::Finish => true, // normal finish (at_end) or cancellation of an aborted task
                    Label::Eps => may_eps,
                    Label::Start => started,
                    _ => false,
                };
                if ok && all.insert(tr.next) {
                    work.push(tr.next);
                }
            }
        }
        let r = self.intern_set(all.into_iter().collect());
        self.memo.insert(key, r);
        r
    }

    fn ret(&mut self, p: &Program<F>, set: u32, t: usize, op: usize, r: &GRes<F::Res>) -> u32 {
        let key = (set, Ev::Ret(t as u8, op as u16, r.clone()));
        if let Some(x) = self.memo.get(&key) {
            return *x;
        }
        let mut next: Vec<u32> = Vec::new();
        for s in self.set(set).iter() {
            if self.states[*s as usize].th[t].pc as usize != op {
                continue;
            }
            let sp_ok = self.spurious_ok(p, *s, t);
            for tr in self.raw(p, *s, t).iter() {
                if tr.spurious && !sp_ok {
                    continue;
                }
                if let Label::Ret(i, rr) = &tr.label {
                    if *i == op && rr == r {
                        next.push(tr.next);
                    }
                }
            }
        }
        let x = self.intern_set(next);
        self.memo.insert(key, x);
        x
    }

    /// `offered`: bit t set iff thread t is offered; `gates`: bit t set iff t's hidden/visible
    /// transitions may be considered (its current op has been called, or its program is finished).
    fn filter(&mut self, p: &Program<F>, set: u32, offered: u64, gates: u64) -> u32 {
        let key = (set, Ev::Filter(offered, gates));
        if let Some(x) = self.memo.get(&key) {
            return *x;
        }
        let n = p.threads.len();
        let mut keep = Vec::new();
        for s in self.set(set).iter() {
            let mut ok = true;
            for t in 0..n {
                if offered & (1 << t) != 0 || gates & (1 << t) == 0 {
                    continue;
                }
                if self.states[*s as usize].th[t].st == St::Active && self.enabled(p, *s, t) {
                    ok = false;
                    break;
                }
            }
            if ok {
                keep.push(*s);
            }
        }
        let x = self.intern_set(keep);
        self.memo.insert(key, x);
        x
    }

    pub fn stats(&self) -> (usize, usize, usize) {
        (self.states.len(), self.sets.len(), self.memo.len())
    }
}

fn gates_mask<F: Family>(p: &Program<F>, pcs: &[usize], called: &[usize], announced: &[Option<usize>]) -> u64 {
    let mut g = 0u64;
    for t in 0..p.threads.len() {
        let pc = pcs[t];
        if (pc == p.threads[t].len() || called[t] > pc) && announced[t].is_some() {
            g |= 1 << t;
        }
    }
    g
}

/// Replay the log of one implementation execution on the model (NFA over candidate model states).
pub fn cosim<F: Family>(p: &Program<F>, mc: &mut MCache<F>, rec: &ExecRecord<F::Res>, check_enabled: bool) -> CosimResult<F::Res> {
    let n = p.threads.len();
    let mut task_of: Vec<Option<usize>> = vec![None; n];
    task_of[0] = Some(0);
    let mut thread_of: HashMap<usize, usize> = HashMap::new();
    thread_of.insert(0, 0);
    let mut res: Vec<Vec<GRes<F::Res>>> = vec![Vec::new(); n];
    let mut called = vec![0usize; n];
    let mut pcs = vec![0usize; n]; // ops returned so far per thread (uniform over candidates)
    let mut started = vec![false; n];
    let mut last_call_stamp: Vec<Option<usize>> = vec![None; n];
    let mut inferred = vec![false; n]; // task id inferred from spawn order (async spawns carry no id)
    let mut next_task_id = 1usize;
    let mut cands: u32 = mc.init_set;
    let mut fail: Option<CosimFail> = None;
    let mut li = 0usize;
    let log = &rec.log;
    let mut running: Option<usize> = None;
    let ndec = rec.path.len();

    macro_rules! sample_state {
        () => {
            mc.set(cands).first().map(|s| format!("{:?}", mc.states[*s as usize])).unwrap_or_default()
        };
    }

    for d in 1..=ndec + 1 {
        let stamp = d - 1;
        if stamp >= 1 && fail.is_none() {
            if let Some(t) = running {
                let open = pcs[t] < p.threads[t].len() && called[t] > pcs[t];
                cands = mc.closure(p, cands, t, open, started[t]);
            }
        }
        while li < log.len() && log[li].stamp == stamp {
            let e = &log[li];
            li += 1;
            if fail.is_some() {
                if let EKind::Ret(r) = &e.kind {
                    res[e.thread].push(r.clone());
                }
                continue;
            }
            if let Some(rt) = running {
                if rt != e.thread {
                    fail = Some(CosimFail {
                        kind: FailKind::Contract,
                        culprit: "step-boundary".into(),
                        at_decision: stamp,
                        what: format!(
                            "log entry by thread {} while the scheduler chose thread {} (code ran outside its step): {:?}",
                            e.thread, rt, e
                        ),
                    });
                    continue;
                }
            }
            match &e.kind {
                EKind::Start if started[e.thread] => {
                    fail = Some(CosimFail {
                        kind: FailKind::Contract,
                        culprit: "closure-ran-twice".into(),
                        at_decision: stamp,
                        what: format!("thread {}'s closure was started a second time", e.thread),
                    });
                }
                EKind::Start => {
                    started[e.thread] = true;
                    if inferred[e.thread] && task_of[e.thread] != Some(e.task) {
                        // the inference was wrong: trust what the task itself reports
                        if let Some(prev) = task_of[e.thread] {
                            thread_of.remove(&prev);
                        }
                        task_of[e.thread] = None;
                    }
                    if let Some(prev) = task_of[e.thread] {
                        if prev != e.task {
                            fail = Some(CosimFail {
                                kind: FailKind::Contract,
                                culprit: "task-id".into(),
                                at_decision: stamp,
                                what: format!("thread {} runs as task {} but was announced as task {}", e.thread, e.task, prev),
                            });
                        }
                    }
                    task_of[e.thread] = Some(e.task);
                    thread_of.insert(e.task, e.thread);
                    cands = mc.closure(p, cands, e.thread, false, true);
                }
                EKind::Call => {
                    called[e.thread] = e.op + 1;
                    last_call_stamp[e.thread] = Some(e.stamp);
                    cands = mc.closure(p, cands, e.thread, true, true);
                }
                EKind::ChildTask(tid) => {
                    if let GOp::Spawn(c) = &p.threads[e.thread][e.op] {
                        task_of[*c] = Some(*tid);
                        thread_of.insert(*tid, *c);
                        next_task_id = next_task_id.max(*tid + 1);
                    }
                }
                EKind::ChildTask2(c, tid) => {
                    task_of[*c] = Some(*tid);
                    thread_of.insert(*tid, *c);
                    next_task_id = next_task_id.max(*tid + 1);
                }
                EKind::Ret(_) if e.op != pcs[e.thread] => {
                    fail = Some(CosimFail {
                        kind: FailKind::Contract,
                        culprit: "program-order".into(),
                        at_decision: stamp,
                        what: format!("thread {} returned from op {} but its next op is {} (closure ran twice or out of order)", e.thread, e.op, pcs[e.thread]),
                    });
                }
                EKind::Ret(r) => {
                    if let GOp::Spawn(c) = &p.threads[e.thread][e.op] {
                        if task_of[*c].is_none() {
                            // async spawn: task ids are handed out sequentially
                            task_of[*c] = Some(next_task_id);
                            thread_of.insert(next_task_id, *c);
                            inferred[*c] = true;
                            next_task_id += 1;
                        }
                    }
                    res[e.thread].push(r.clone());
                    let next = mc.ret(p, cands, e.thread, e.op, r);
                    if mc.set(next).is_empty() {
                        let sample = sample_state!();
                        fail = Some(CosimFail {
                            kind: FailKind::Ret,
                            culprit: crate::drive::op_kind_name(&format!("{:?}", OpDbg(&p.threads[e.thread][e.op]))),
                            at_decision: stamp,
                            what: format!(
                                "thread {} op {} {:?} returned {:?}: no model state ({} candidates, e.g. {}) allows it",
                                e.thread,
                                e.op,
                                p.threads[e.thread][e.op],
                                r,
                                mc.set(cands).len(),
                                sample
                            ),
                        });
                    } else {
                        cands = next;
                        pcs[e.thread] = e.op + 1;
                        let open = pcs[e.thread] < p.threads[e.thread].len() && called[e.thread] > pcs[e.thread];
                        cands = mc.closure(p, cands, e.thread, open, true);
                    }
                }
                EKind::End => {
                    cands = mc.closure(p, cands, e.thread, false, true);
                }
            }
        }
        if d > ndec {
            break;
        }
        let node = &rec.path[d - 1];
        // ---- Scheduler-interface contract at this decision (C08)
        if fail.is_none() {
            if let NodeKind::Task { offered, current, yielding } = &node.kind {
                let mut bad: Option<String> = None;
                if offered.is_empty() {
                    bad = Some("empty list of runnable tasks".into());
                } else if !offered.windows(2).all(|w| w[0].id < w[1].id) {
                    bad = Some(format!("runnable list not in strictly ascending id order: {:?}", offered.iter().map(|o| o.id).collect::<Vec<_>>()));
                } else if offered.iter().any(|o| !o.runnable && !o.spurious) {
                    bad = Some("a task that is neither runnable nor spuriously wakeable was offered".into());
                }
                // `current` = the task chosen at the previous task decision (None before the first)
                let prev_chosen = rec.path[..d - 1].iter().rev().find_map(|n| match (&n.kind, n.chosen()) {
                    (NodeKind::Task { .. }, Alt::Task(t)) => Some(*t),
                    _ => None,
                });
                if bad.is_none() && *current != prev_chosen {
                    bad = Some(format!("current_task = {:?} but the task chosen at the previous decision was {:?}", current, prev_chosen));
                }
                // is_yielding: exactly for the decision following an explicit yield request
                if bad.is_none() {
                    if let Some(rt) = running {
                        let pending = pcs[rt] < p.threads[rt].len() && called[rt] > pcs[rt];
                        let first_after_call = last_call_stamp[rt] == Some(stamp);
                        let expect: Option<bool> = if pending && first_after_call {
                            match &p.threads[rt][pcs[rt]] {
                                GOp::Op(o) => F::yields(o),
                                _ => Some(false),
                            }
                        } else if pending {
                            // later decisions inside the same operation (e.g. re-polls): not judged
                            None
                        } else if pcs[rt] == p.threads[rt].len() {
                            // the program of this thread is over: thread-local destructors (arbitrary
                            // code, may yield) run now — not judged
                            None
                        } else {
                            Some(false)
                        };
                        if let Some(ex) = expect {
                            if ex != *yielding {
                                bad = Some(format!(
                                    "is_yielding = {} at the decision after thread {}'s {}",
                                    yielding,
                                    rt,
                                    if pending { format!("call of {:?}", OpDbg(&p.threads[rt][pcs[rt]])) } else { "last completed operation".to_string() }
                                ));
                            }
                        }
                    } else if *yielding {
                        bad = Some("is_yielding set at the first decision".into());
                    }
                }
                if let Some(b) = bad {
                    fail = Some(CosimFail {
                        kind: FailKind::Contract,
                        culprit: "scheduler-arguments".into(),
                        at_decision: d,
                        what: format!("at decision {}: {}", d, b),
                    });
                }
            }
        }
        match (&node.kind, node.chosen()) {
            (NodeKind::Task { offered, .. }, alt) => {
                if check_enabled && fail.is_none() {
                    let mut mask = 0u64;
                    for o in offered {
                        if let Some(t) = thread_of.get(&o.id) {
                            mask |= 1 << *t;
                        }
                    }
                    let gates = gates_mask(p, &pcs, &called, &task_of);
                    let next = mc.filter(p, cands, mask, gates);
                    if mc.set(next).is_empty() {
                        // diagnose
                        let mut example = (0usize, String::new());
                        'outer: for s in mc.set(cands).iter() {
                            for t in 0..n {
                                if mask & (1 << t) == 0 && gates & (1 << t) != 0 && mc.states[*s as usize].th[t].st == St::Active && mc.enabled(p, *s, t) {
                                    example = (t, format!("{:?}", mc.states[*s as usize]));
                                    break 'outer;
                                }
                            }
                        }
                        fail = Some(CosimFail {
                            kind: FailKind::Enabled,
                            culprit: pending_kind(p, example.0, &called),
                            at_decision: d,
                            what: format!(
                                "at decision {} the runtime offers tasks {:?} but in every model state consistent with the log some thread able to run is missing, e.g. thread {} in {} ({} candidates)",
                                d,
                                offered.iter().map(|o| o.id).collect::<Vec<_>>(),
                                example.0,
                                example.1,
                                mc.set(cands).len()
                            ),
                        });
                    } else {
                        cands = next;
                    }
                }
                running = match alt {
                    Alt::Task(id) => thread_of.get(id).cloned(),
                    _ => None,
                };
                if let Alt::Task(id) = alt {
                    if running.is_none() && fail.is_none() {
                        fail = Some(CosimFail {
                            kind: FailKind::Contract,
                            culprit: "unknown-task".into(),
                            at_decision: d,
                            what: format!("scheduler was offered / chose unknown task {}", id),
                        });
                    }
                }
            }
            (NodeKind::Rand, _) => {}
        }
    }

    let ending = match &rec.raw_ending {
        RawEnding::Ok => Ending::Ok,
        RawEnding::Stopped => Ending::Stopped,
        RawEnding::Panic(m) => Ending::Panic(m.clone()),
        RawEnding::Deadlock { tasks, .. } => {
            let mut ths: Vec<usize> = tasks.iter().map(|t| thread_of.get(t).cloned().unwrap_or(usize::MAX)).collect();
            ths.sort();
            Ending::Deadlock(ths)
        }
    };
    if fail.is_none() {
        let set = mc.set(cands);
        let ok = match &ending {
            Ending::Stopped => true,
            Ending::Ok => set.iter().any(|s| {
                let st = &mc.states[*s as usize];
                st.panic.is_none() && (0..n).all(|t| st.th[t].st != St::Active || st.th[t].flags & DETACHED != 0)
            }),
            Ending::Deadlock(dset) => {
                let mut found = false;
                for s in set.iter() {
                    let (nopanic, active, attached): (bool, Vec<usize>, bool) = {
                        let st = &mc.states[*s as usize];
                        (
                            st.panic.is_none(),
                            (0..n).filter(|&t| st.th[t].st == St::Active).collect(),
                            (0..n).any(|t| st.th[t].st == St::Active && st.th[t].flags & DETACHED == 0),
                        )
                    };
                    if nopanic && attached && active == *dset && (0..n).all(|t| !mc.enabled(p, *s, t)) {
                        found = true;
                        break;
                    }
                }
                found
            }
            Ending::Panic(msg) => {
                let mut found = false;
                for s in set.iter() {
                    for t in 0..n {
                        let pc = mc.states[*s as usize].th[t].pc as usize;
                        if pc == p.threads[t].len() || called[t] > pc {
                            if mc.raw(p, *s, t).iter().any(|tr| matches!(&tr.label, Label::Panic(c) if msg.contains(c.as_str()))) {
                                found = true;
                            }
                        }
                    }
                }
                found
            }
        };
        if !ok {
            let sample = sample_state!();
            let mut pend: Vec<String> = match &ending {
                Ending::Deadlock(set) => set.iter().filter(|t| **t < n).map(|t| pending_kind(p, *t, &called)).collect(),
                Ending::Panic(m) => vec![format!("panic:{}", m.chars().take(60).collect::<String>())],
                _ => vec!["ok".into()],
            };
            pend.sort();
            pend.dedup();
            fail = Some(CosimFail {
                kind: FailKind::Ending,
                culprit: pend.join("+"),
                at_decision: ndec + 1,
                what: format!(
                    "execution ended with {:?} but no model state consistent with the log ends that way ({} candidates, e.g. {})",
                    ending,
                    mc.set(cands).len(),
                    sample
                ),
            });
        }
    }
    CosimResult {
        outcome: Outcome { res, ending },
        fail,
        task_of,
    }
}

/// All non-decreasing k-tuples over 0..n (multisets), in lexicographic order.
pub fn nondecreasing_tuples(n: usize, k: usize) -> Vec<Vec<usize>> {
    fn rec(n: usize, k: usize, start: usize, cur: &mut Vec<usize>, out: &mut Vec<Vec<usize>>) {
        if cur.len() == k {
            out.push(cur.clone());
            return;
        }
        for i in start..n {
            cur.push(i);
            rec(n, k, i, cur, out);
            cur.pop();
        }
    }
    let mut out = Vec::new();
    rec(n, k, 0, &mut Vec::new(), &mut out);
    out
}


pub struct OpDbg<'a, O>(pub &'a GOp<O>);
impl<O: Debug> Debug for OpDbg<'_, O> {
    fn fmt(&self, f: &mut std::fmt::Formatter<'_>) -> std::fmt::Result {
        match self.0 {
            GOp::Op(o) => o.fmt(f),
            GOp::Spawn(_) => write!(f, "Spawn"),
            GOp::Join(_) => write!(f, "Join"),
            GOp::ScopeBegin(_) => write!(f, "ScopeBegin"),
            GOp::ScopeEnd => write!(f, "ScopeEnd"),
            GOp::Abort(_) => write!(f, "Abort"),
            GOp::Detach(_) => write!(f, "Detach"),
            GOp::IsFinished(_) => write!(f, "IsFinished"),
            GOp::PollJoin(_) => write!(f, "PollJoin"),
        }
    }
}

/// Kind name of the operation thread `t` is currently in (last called, not yet returned).
pub fn pending_kind<F: Family>(p: &Program<F>, t: usize, called: &[usize]) -> String {
    let i = called[t];
    if i == 0 || i > p.threads[t].len() {
        return "none".into();
    }
    crate::drive::op_kind_name(&format!("{:?}", OpDbg(&p.threads[t][i - 1])))
}


/// Index of the last clock-carrying entry (Start / Ret / End) of `thread` strictly before log
/// position `before`: "what that thread had done before the operation".
pub fn prev_clocked<R>(log: &[Entry<R>], before: usize, thread: usize) -> Option<usize> {
    (0..before).rev().find(|&i| log[i].thread == thread && matches!(log[i].kind, EKind::Start | EKind::Ret(_) | EKind::End))
}

/// Log position of the Call entry of (thread, op).
pub fn call_of<R: PartialEq>(log: &[Entry<R>], thread: usize, op: usize) -> Option<usize> {
    log.iter().position(|e| e.thread == thread && e.op == op && e.kind == EKind::Call)
}
