//! E2 — program IR, implementation interpreter, generic reference-model layer, explicit-state
//! checker of the model and NFA-style co-simulation of implementation executions against it.

use crate::explore::{Alt, Explorer, Node, NodeKind, Options};
use shuttle_engine::{Config, FailurePersistence, MaxSteps, Runner};
use std::cell::RefCell;
use std::collections::{BTreeSet, HashMap, HashSet, VecDeque};
use std::fmt::Debug;
use std::hash::Hash;
use std::panic::{catch_unwind, AssertUnwindSafe};
use std::rc::Rc;
use std::sync::Arc;

/// Wrapper asserting Send+Sync for values only ever touched on the single OS thread of a Shuttle
/// execution.
pub struct SS<T>(pub T);
unsafe impl<T> Send for SS<T> {}
unsafe impl<T> Sync for SS<T> {}
impl<T> SS<T> {
    pub fn get(&self) -> &T {
        &self.0
    }
}
impl<T: Clone> Clone for SS<T> {
    fn clone(&self) -> Self {
        SS(self.0.clone())
    }
}

/// Result of one model micro-transition of an operation.
#[derive(Clone, Debug)]
pub enum MStep<M, R> {
    /// The operation completes with this result.
    Done(M, R),
    /// Hidden micro-transition (e.g. enqueue / arrive); the op continues in the given phase.
    Cont(M, u8),
    /// The operation is diagnosed with a panic whose message contains this text.
    Panic(String),
}

pub trait Family: 'static + Sized {
    type Op: Clone + Debug + PartialEq + Eq + Hash + 'static;
    type Res: Clone + Debug + PartialEq + Eq + Hash + Ord + 'static;
    type Cfg: Clone + Debug + 'static;
    type Objs: 'static;
    type Locals: 'static;
    type M: Clone + Debug + Eq + Hash;
    const NAME: &'static str;

    fn make_objs(cfg: &Self::Cfg, nthreads: usize) -> Self::Objs;
    fn new_locals(cfg: &Self::Cfg, t: usize) -> Self::Locals;
    /// Execute the real operation (inside a Shuttle task).
    fn exec(objs: &Self::Objs, l: &mut Self::Locals, t: usize, op: &Self::Op) -> Self::Res;
    /// Called when a thread's program is finished. Implementations must *leak* guards the thread
    /// still holds (a thread that never releases), so that leftover guards perform no hidden
    /// operation; plain containers are dropped normally.
    fn end_thread(_objs: &Self::Objs, l: Self::Locals, _t: usize) {
        drop(l);
    }
    fn m_init(cfg: &Self::Cfg, nthreads: usize) -> Self::M;
    /// All micro-transitions thread `t` can take for `op` in `phase`. Empty = blocked.
    fn m_step(m: &Self::M, t: usize, op: &Self::Op, phase: u8, strict: bool) -> Vec<MStep<Self::M, Self::Res>>;
}

#[derive(Clone, Debug, PartialEq, Eq, Hash)]
pub enum GOp<O> {
    Spawn(usize),
    Join(usize),
    Op(O),
}

#[derive(Clone, Debug, PartialEq, Eq, Hash, PartialOrd, Ord)]
pub enum GRes<R> {
    Unit,
    /// child's task id is logged but not part of the compared value
    Spawned,
    Joined(bool),
    R(R),
}

pub struct Program<F: Family> {
    pub cfg: F::Cfg,
    pub threads: Vec<Vec<GOp<F::Op>>>,
}

impl<F: Family> Clone for Program<F> {
    fn clone(&self) -> Self {
        Program {
            cfg: self.cfg.clone(),
            threads: self.threads.clone(),
        }
    }
}

impl<F: Family> Program<F> {
    pub fn describe(&self) -> String {
        format!("{} cfg={:?} threads={:?}", F::NAME, self.cfg, self.threads)
    }
    pub fn size(&self) -> usize {
        self.threads.iter().map(|t| t.len()).sum()
    }
    /// Standard shape: main spawns threads 1..n, runs its own ops, joins them in order.
    pub fn fork_join(cfg: F::Cfg, main_ops: Vec<F::Op>, children: Vec<Vec<F::Op>>) -> Self {
        let n = children.len();
        let mut main: Vec<GOp<F::Op>> = (1..=n).map(GOp::Spawn).collect();
        main.extend(main_ops.into_iter().map(GOp::Op));
        main.extend((1..=n).map(GOp::Join));
        let mut threads = vec![main];
        for c in children {
            threads.push(c.into_iter().map(GOp::Op).collect());
        }
        Program { cfg, threads }
    }
}

// ---------------------------------------------------------------------------------------------
// Implementation interpreter
// ---------------------------------------------------------------------------------------------

#[derive(Clone, Debug, PartialEq, Eq)]
pub enum EKind<R> {
    Start,
    Call,
    Ret(GRes<R>),
    /// value attached to a Spawn return: the child's task id as reported by the JoinHandle
    ChildTask(usize),
    End,
}

#[derive(Clone, Debug, PartialEq, Eq)]
pub struct Entry<R> {
    pub stamp: usize,
    pub thread: usize,
    pub task: usize,
    pub op: usize,
    pub kind: EKind<R>,
}


struct Ctx<F: Family> {
    prog: Arc<SS<Program<F>>>,
    objs: F::Objs,
    handles: RefCell<Vec<Option<shuttle::thread::JoinHandle<()>>>>,
    /// one Vec per execution; the current execution's is the last
    log: Logs<F::Res>,
}

fn run_thread<F: Family>(ctx: Arc<SS<Ctx<F>>>, t: usize) {
    let c = &ctx.0;
    let me: usize = shuttle::current::me().into();
    let push = |op: usize, kind: EKind<F::Res>| {
        c.log.borrow_mut().last_mut().expect("log of current execution").push(Entry {
            stamp: crate::explore::decision_stamp(),
            thread: t,
            task: me,
            op,
            kind,
        })
    };
    push(0, EKind::Start);
    let mut locals = F::new_locals(&c.prog.0.cfg, t);
    let ops = &c.prog.0.threads[t];
    for (i, op) in ops.iter().enumerate() {
        push(i, EKind::Call);
        let r = match op {
            GOp::Spawn(ch) => {
                let ctx2 = ctx.clone();
                let ch = *ch;
                let h = shuttle::thread::spawn(move || {
                    let ctx2 = ctx2;
                    run_thread::<F>(ctx2, ch)
                });
                let tid: usize = h.thread().id().into();
                c.handles.borrow_mut()[ch] = Some(h);
                push(i, EKind::ChildTask(tid));
                GRes::Spawned
            }
            GOp::Join(ch) => {
                let h = c.handles.borrow_mut()[*ch].take().expect("join without handle");
                GRes::Joined(h.join().is_ok())
            }
            GOp::Op(o) => GRes::R(F::exec(&c.objs, &mut locals, t, o)),
        };
        push(i, EKind::Ret(r));
    }
    push(ops.len(), EKind::End);
    F::end_thread(&c.objs, locals, t);
}

#[derive(Clone, Debug, PartialEq, Eq, Hash, PartialOrd, Ord)]
pub enum Ending {
    Ok,
    /// sorted *thread* indices (mapped from task ids) of unfinished tasks
    Deadlock(Vec<usize>),
    Panic(String),
    Stopped,
}

pub struct ExecRecord<R> {
    pub log: Vec<Entry<R>>,
    pub path: Vec<Node>,
    pub raw_ending: RawEnding,
}

#[derive(Clone, Debug, PartialEq, Eq)]
pub enum RawEnding {
    Ok,
    Deadlock { tasks: Vec<usize>, msg: String },
    Panic(String),
    Stopped,
}

pub fn payload_to_string(p: &Box<dyn std::any::Any + Send>) -> String {
    if let Some(s) = p.downcast_ref::<&'static str>() {
        s.to_string()
    } else if let Some(s) = p.downcast_ref::<String>() {
        s.clone()
    } else {
        "<non-string payload>".to_string()
    }
}

/// Parse "deadlock! blocked tasks: [name (task X(3), detached), ...]" into task ids.
pub fn parse_deadlock(msg: &str) -> Option<Vec<usize>> {
    let rest = msg.strip_prefix("deadlock! blocked tasks: [")?;
    let mut out = Vec::new();
    for seg in rest.split("(task ").skip(1) {
        // seg looks like `TaskId(3))` or `main-thread(0), detached)`
        let open = seg.find('(')?;
        let digits: String = seg[open + 1..].chars().take_while(|c| c.is_ascii_digit()).collect();
        out.push(digits.parse().ok()?);
    }
    out.sort();
    Some(out)
}

pub fn base_config() -> Config {
    let mut c = Config::new();
    c.failure_persistence = FailurePersistence::None;
    c.max_steps = MaxSteps::FailAfter(20_000);
    c.silence_warnings = true;
    c
}

pub type Logs<R> = Rc<RefCell<Vec<Vec<Entry<R>>>>>;

fn make_body<F: Family>(prog: &Arc<SS<Program<F>>>, logs: &Logs<F::Res>) -> impl Fn() + Send + Sync + 'static {
    let prog = prog.clone();
    let logs = SS(logs.clone());
    move || {
        let n = prog.get().threads.len();
        logs.get().borrow_mut().push(Vec::new());
        let ctx = Arc::new(SS(Ctx::<F> {
            prog: prog.clone(),
            objs: F::make_objs(&prog.get().cfg, n),
            handles: RefCell::new((0..n).map(|_| None).collect()),
            log: logs.get().clone(),
        }));
        run_thread::<F>(ctx, 0);
    }
}

fn classify(r: std::thread::Result<()>) -> RawEnding {
    match r {
        Ok(()) => RawEnding::Ok,
        Err(p) => {
            let msg = payload_to_string(&p);
            match parse_deadlock(&msg) {
                Some(tasks) => RawEnding::Deadlock { tasks, msg },
                None => RawEnding::Panic(msg),
            }
        }
    }
}

/// Run one execution of `prog` under the given scheduler; returns the log and the raw ending.
pub fn run_once<F: Family, S: shuttle_engine::scheduler::Scheduler + 'static>(
    prog: &Arc<SS<Program<F>>>,
    sched: S,
    config: &Config,
) -> (Vec<Entry<F::Res>>, RawEnding) {
    let logs: Logs<F::Res> = Rc::new(RefCell::new(Vec::new()));
    let body = make_body::<F>(prog, &logs);
    let r = catch_unwind(AssertUnwindSafe(|| {
        Runner::new(sched, config.clone()).run(body);
    }));
    let ending = classify(r);
    let l = logs.borrow_mut().pop().unwrap_or_default();
    (l, ending)
}

#[derive(Default, Debug, Clone)]
pub struct TreeStats {
    pub executions: u64,
    pub decisions: u64,
    pub max_depth: usize,
    pub depth_cap_hits: u64,
    pub exec_cap_hit: bool,
}

/// Explore the whole choice tree of `prog`, calling `visit` for every execution.
/// Several executions share one `Runner::run` (and therefore one continuation pool); a run ends
/// early when an execution fails (deadlock / panic), which is then the last record of the batch.
/// Returns Err on machinery errors (replay divergence).
pub fn explore_program<F: Family>(
    prog: &Arc<SS<Program<F>>>,
    opts: Options,
    max_execs: u64,
    mut visit: impl FnMut(&ExecRecord<F::Res>, &Explorer),
) -> Result<TreeStats, String> {
    let ex = Explorer::new(opts);
    ex.set_executions_per_run(128);
    let config = base_config();
    let mut capped = false;
    let logs: Logs<F::Res> = Rc::new(RefCell::new(Vec::new()));
    loop {
        let body = make_body::<F>(prog, &logs);
        let r = catch_unwind(AssertUnwindSafe(|| {
            Runner::new(ex.handle(), config.clone()).run(body);
        }));
        let last_ending = classify(r);
        ex.advance();
        if let Some(d) = ex.diverged() {
            return Err(format!("{} — program {}", d, prog.0.describe()));
        }
        let fin = ex.drain_finished();
        let ls: Vec<Vec<Entry<F::Res>>> = std::mem::take(&mut *logs.borrow_mut());
        if fin.len() != ls.len() {
            return Err(format!(
                "explorer finished {} executions but {} bodies ran — program {}",
                fin.len(),
                ls.len(),
                prog.0.describe()
            ));
        }
        let nfin = fin.len();
        for (i, ((path, stopped), log)) in fin.into_iter().zip(ls.into_iter()).enumerate() {
            let raw = if i + 1 == nfin && last_ending != RawEnding::Ok {
                last_ending.clone()
            } else if stopped {
                RawEnding::Stopped
            } else {
                RawEnding::Ok
            };
            let rec = ExecRecord {
                log,
                path,
                raw_ending: raw,
            };
            visit(&rec, &ex);
        }
        if ex.exhausted() {
            break;
        }
        if ex.stats().executions >= max_execs {
            capped = true;
            break;
        }
    }
    let s = ex.stats();
    Ok(TreeStats {
        executions: s.executions,
        decisions: s.decisions,
        max_depth: s.max_depth,
        depth_cap_hits: s.depth_cap_hits,
        exec_cap_hit: capped,
    })
}

// ---------------------------------------------------------------------------------------------
// Generic model layer
// ---------------------------------------------------------------------------------------------

#[derive(Clone, Copy, Debug, PartialEq, Eq, Hash)]
pub enum St {
    NotStarted,
    Active,
    Finished,
}

#[derive(Clone, Debug, PartialEq, Eq, Hash)]
pub struct Th {
    pub pc: u16,
    pub phase: u8,
    pub st: St,
}

pub struct GState<F: Family> {
    pub th: Vec<Th>,
    pub m: F::M,
    pub res: Vec<Vec<GRes<F::Res>>>,
    pub panic: Option<String>,
}

impl<F: Family> Clone for GState<F> {
    fn clone(&self) -> Self {
        GState {
            th: self.th.clone(),
            m: self.m.clone(),
            res: self.res.clone(),
            panic: self.panic.clone(),
        }
    }
}
impl<F: Family> PartialEq for GState<F> {
    fn eq(&self, o: &Self) -> bool {
        self.th == o.th && self.m == o.m && self.res == o.res && self.panic == o.panic
    }
}
impl<F: Family> Eq for GState<F> {}
impl<F: Family> Hash for GState<F> {
    fn hash<H: std::hash::Hasher>(&self, h: &mut H) {
        self.th.hash(h);
        self.m.hash(h);
        self.res.hash(h);
        self.panic.hash(h);
    }
}
impl<F: Family> Debug for GState<F> {
    fn fmt(&self, f: &mut std::fmt::Formatter<'_>) -> std::fmt::Result {
        write!(f, "th={:?} m={:?} panic={:?}", self.th, self.m, self.panic)
    }
}

#[derive(Clone, Debug, PartialEq, Eq)]
pub enum Label<R> {
    Eps,
    Finish,
    Ret(usize, GRes<R>),
    Panic(String),
}

pub fn g_init<F: Family>(p: &Program<F>) -> GState<F> {
    let n = p.threads.len();
    let mut th: Vec<Th> = (0..n)
        .map(|_| Th {
            pc: 0,
            phase: 0,
            st: St::NotStarted,
        })
        .collect();
    th[0].st = St::Active;
    GState {
        th,
        m: F::m_init(&p.cfg, n),
        res: vec![Vec::new(); n],
        panic: None,
    }
}

/// All transitions of thread `t` from `s`.
pub fn g_steps_of<F: Family>(p: &Program<F>, s: &GState<F>, t: usize, strict: bool) -> Vec<(Label<F::Res>, GState<F>)> {
    let mut out = Vec::new();
    if s.panic.is_some() || s.th[t].st != St::Active {
        return out;
    }
    let pc = s.th[t].pc as usize;
    let ops = &p.threads[t];
    if pc == ops.len() {
        let mut n = s.clone();
        n.th[t].st = St::Finished;
        out.push((Label::Finish, n));
        return out;
    }
    let done = |s: &GState<F>, r: GRes<F::Res>| {
        let mut n = s.clone();
        n.th[t].pc += 1;
        n.th[t].phase = 0;
        n.res[t].push(r);
        n
    };
    match &ops[pc] {
        GOp::Spawn(c) => {
            let mut n = done(s, GRes::Spawned);
            n.th[*c].st = St::Active;
            out.push((Label::Ret(pc, GRes::Spawned), n));
        }
        GOp::Join(c) => {
            if s.th[*c].st == St::Finished {
                out.push((Label::Ret(pc, GRes::Joined(true)), done(s, GRes::Joined(true))));
            }
        }
        GOp::Op(o) => {
            for st in F::m_step(&s.m, t, o, s.th[t].phase, strict) {
                match st {
                    MStep::Done(m, r) => {
                        let mut n = done(s, GRes::R(r.clone()));
                        n.m = m;
                        out.push((Label::Ret(pc, GRes::R(r)), n));
                    }
                    MStep::Cont(m, ph) => {
                        let mut n = s.clone();
                        n.m = m;
                        n.th[t].phase = ph;
                        out.push((Label::Eps, n));
                    }
                    MStep::Panic(cls) => {
                        let mut n = s.clone();
                        n.panic = Some(cls.clone());
                        out.push((Label::Panic(cls), n));
                    }
                }
            }
        }
    }
    out
}

pub fn g_enabled<F: Family>(p: &Program<F>, s: &GState<F>, t: usize, strict: bool) -> bool {
    !g_steps_of(p, s, t, strict).is_empty()
}

#[derive(Clone, Debug, PartialEq, Eq, Hash, PartialOrd, Ord)]
pub struct Outcome<R: Ord> {
    pub res: Vec<Vec<GRes<R>>>,
    pub ending: Ending,
}

#[derive(Default, Debug, Clone)]
pub struct ModelStats {
    pub states: u64,
    pub transitions: u64,
    pub depth: usize,
    pub capped: bool,
}

/// Explicit-state breadth-first exploration of the model of `p`; returns the outcome set.
pub fn model_outcomes<F: Family>(p: &Program<F>, strict: bool, max_states: usize) -> (BTreeSet<Outcome<F::Res>>, ModelStats) {
    let mut seen: HashSet<GState<F>> = HashSet::new();
    let mut q: VecDeque<(GState<F>, usize)> = VecDeque::new();
    let mut outs = BTreeSet::new();
    let mut stats = ModelStats::default();
    let init = g_init(p);
    seen.insert(init.clone());
    q.push_back((init, 0));
    while let Some((s, d)) = q.pop_front() {
        stats.depth = stats.depth.max(d);
        let mut any = false;
        if s.panic.is_none() {
            for t in 0..p.threads.len() {
                for (_l, n) in g_steps_of(p, &s, t, strict) {
                    any = true;
                    stats.transitions += 1;
                    if seen.len() >= max_states {
                        stats.capped = true;
                        continue;
                    }
                    if seen.insert(n.clone()) {
                        q.push_back((n, d + 1));
                    }
                }
            }
        }
        if !any {
            let ending = if let Some(c) = &s.panic {
                Ending::Panic(c.clone())
            } else {
                let unfinished: Vec<usize> = (0..s.th.len()).filter(|&t| s.th[t].st == St::Active).collect();
                if unfinished.is_empty() {
                    Ending::Ok
                } else {
                    Ending::Deadlock(unfinished)
                }
            };
            outs.insert(Outcome {
                res: s.res.clone(),
                ending,
            });
        }
    }
    stats.states = seen.len() as u64;
    (outs, stats)
}

// ---------------------------------------------------------------------------------------------
// Co-simulation of one implementation execution against the model
// ---------------------------------------------------------------------------------------------

#[derive(Debug, Clone, Copy, PartialEq, Eq)]
pub enum FailKind {
    Ret,
    Enabled,
    Ending,
    Contract,
}

#[derive(Debug, Clone)]
pub struct CosimFail {
    pub kind: FailKind,
    /// op kind implicated (for grouping findings)
    pub culprit: String,
    pub at_decision: usize,
    pub what: String,
}

pub struct CosimResult<R: Ord> {
    pub outcome: Outcome<R>,
    pub fail: Option<CosimFail>,
    /// threads → task ids observed
    pub task_of: Vec<Option<usize>>,
}

fn eps_closure_of<F: Family>(
    p: &Program<F>,
    cands: &mut HashSet<GState<F>>,
    t: usize,
    called: &[usize],
    strict: bool,
) {
    let mut work: Vec<GState<F>> = cands.iter().cloned().collect();
    while let Some(s) = work.pop() {
        if s.th[t].st != St::Active {
            continue;
        }
        let pc = s.th[t].pc as usize;
        // an operation's hidden micro-transitions may only happen once it has been called
        if pc < p.threads[t].len() && called[t] <= pc {
            continue;
        }
        for (l, n) in g_steps_of(p, &s, t, strict) {
            match l {
                Label::Eps | Label::Finish => {
                    if cands.insert(n.clone()) {
                        work.push(n);
                    }
                }
                _ => {}
            }
        }
    }
}

/// Replay the log of one implementation execution on the model (NFA over candidate model states).
pub fn cosim<F: Family>(p: &Program<F>, rec: &ExecRecord<F::Res>, strict: bool, check_enabled: bool) -> CosimResult<F::Res> {
    let n = p.threads.len();
    let mut task_of: Vec<Option<usize>> = vec![None; n];
    task_of[0] = Some(0);
    let mut thread_of: HashMap<usize, usize> = HashMap::new();
    thread_of.insert(0, 0);
    let mut res: Vec<Vec<GRes<F::Res>>> = vec![Vec::new(); n];
    let mut called = vec![0usize; n];
    let mut cands: HashSet<GState<F>> = HashSet::new();
    cands.insert(g_init(p));
    let mut fail: Option<CosimFail> = None;
    let mut li = 0usize;
    let log = &rec.log;
    let mut running: Option<usize> = None; // thread index currently running

    // decisions are numbered from 1: stamp d means "after the d-th scheduler call"
    let ndec = rec.path.len();
    for d in 1..=ndec + 1 {
        // entries with stamp d-1 were produced after decision d-1 and before decision d
        let stamp = d - 1;
        if stamp >= 1 {
            if let Some(t) = running {
                if fail.is_none() {
                    eps_closure_of(p, &mut cands, t, &called, strict);
                }
            }
        }
        while li < log.len() && log[li].stamp == stamp {
            let e = &log[li];
            li += 1;
            if fail.is_some() {
                // keep collecting results for the outcome
                if let EKind::Ret(r) = &e.kind {
                    res[e.thread].push(r.clone());
                }
                continue;
            }
            if let Some(rt) = running {
                if rt != e.thread {
                    fail = Some(CosimFail {
                        kind: FailKind::Contract,
                        culprit: "step-boundary".into(),
                        at_decision: stamp,
                        what: format!(
                            "log entry by thread {} while the scheduler chose thread {} (code ran outside its step): {:?}",
                            e.thread, rt, e
                        ),
                    });
                    continue;
                }
            }
            match &e.kind {
                EKind::Start => {
                    if let Some(prev) = task_of[e.thread] {
                        if prev != e.task {
                            fail = Some(CosimFail {
                                kind: FailKind::Contract,
                                culprit: "task-id".into(),
                                at_decision: stamp,
                                what: format!("thread {} runs as task {} but was announced as task {}", e.thread, e.task, prev),
                            });
                        }
                    }
                    task_of[e.thread] = Some(e.task);
                    thread_of.insert(e.task, e.thread);
                }
                EKind::Call => {
                    called[e.thread] = e.op + 1;
                    eps_closure_of(p, &mut cands, e.thread, &called, strict);
                }
                EKind::ChildTask(tid) => {
                    if let GOp::Spawn(c) = &p.threads[e.thread][e.op] {
                        task_of[*c] = Some(*tid);
                        thread_of.insert(*tid, *c);
                    }
                }
                EKind::Ret(r) => {
                    res[e.thread].push(r.clone());
                    let mut next: HashSet<GState<F>> = HashSet::new();
                    for s in cands.iter() {
                        if s.th[e.thread].pc as usize != e.op {
                            continue;
                        }
                        for (l, n) in g_steps_of(p, s, e.thread, strict) {
                            if let Label::Ret(i, rr) = &l {
                                if *i == e.op && rr == r {
                                    next.insert(n);
                                }
                            }
                        }
                    }
                    if next.is_empty() {
                        let sample = cands.iter().next().map(|s| format!("{:?}", s)).unwrap_or_default();
                        fail = Some(CosimFail {
                            kind: FailKind::Ret,
                            culprit: crate::drive::op_kind_name(&format!("{:?}", OpDbg(&p.threads[e.thread][e.op]))),
                            at_decision: stamp,
                            what: format!(
                                "thread {} op {} {:?} returned {:?}: no model state ({} candidates, e.g. {}) allows it",
                                e.thread,
                                e.op,
                                p.threads[e.thread][e.op],
                                r,
                                cands.len(),
                                sample
                            ),
                        });
                    } else {
                        cands = next;
                        eps_closure_of(p, &mut cands, e.thread, &called, strict);
                    }
                }
                EKind::End => {
                    eps_closure_of(p, &mut cands, e.thread, &called, strict);
                }
            }
        }
        if d > ndec {
            break;
        }
        // decision d
        let node = &rec.path[d - 1];
        match (&node.kind, node.chosen()) {
            (NodeKind::Task { offered, .. }, alt) => {
                if check_enabled && fail.is_none() {
                    // every model-enabled thread must be offered
                    let offered_threads: HashSet<usize> =
                        offered.iter().filter_map(|o| thread_of.get(&o.id).cloned()).collect();
                    let before = cands.len();
                    let mut example = None;
                    cands.retain(|s| {
                        for t in 0..n {
                            if s.th[t].st == St::Active && !offered_threads.contains(&t) {
                                // is t enabled in s?  (hidden transitions only once the op is called)
                                let pc = s.th[t].pc as usize;
                                let may_move = pc == p.threads[t].len() || called[t] > pc;
                                if may_move && g_enabled(p, s, t, strict) {
                                    // a thread the model can run, but the runtime does not offer.
                                    // exception: a thread that has not started yet is identified
                                    // only through its spawn announcement.
                                    if task_of[t].is_some() {
                                        if example.is_none() {
                                            example = Some((t, format!("{:?}", s)));
                                        }
                                        return false;
                                    }
                                }
                            }
                        }
                        true
                    });
                    if cands.is_empty() {
                        let (t, s) = example.unwrap();
                        fail = Some(CosimFail {
                            kind: FailKind::Enabled,
                            culprit: pending_kind(p, t, &called),
                            at_decision: d,
                            what: format!(
                                "at decision {} the runtime offers tasks {:?} but in every model state consistent with the log some thread able to run is missing, e.g. thread {} in {} ({} candidates)",
                                d,
                                offered.iter().map(|o| o.id).collect::<Vec<_>>(),
                                t,
                                s,
                                before
                            ),
                        });
                    }
                }
                running = match alt {
                    Alt::Task(id) => thread_of.get(id).cloned(),
                    _ => None,
                };
                if let Alt::Task(id) = alt {
                    if running.is_none() && fail.is_none() {
                        // a task we cannot map to a thread: it must be a freshly spawned child whose
                        // announcement we have; otherwise the runtime invented a task
                        fail = Some(CosimFail {
                            kind: FailKind::Contract,
                            culprit: "unknown-task".into(),
                            at_decision: d,
                            what: format!("scheduler was offered / chose unknown task {}", id),
                        });
                    }
                }
            }
            (NodeKind::Rand, _) => { /* same task keeps running */ }
        }
    }

    // ending
    let ending = match &rec.raw_ending {
        RawEnding::Ok => Ending::Ok,
        RawEnding::Stopped => Ending::Stopped,
        RawEnding::Panic(m) => Ending::Panic(m.clone()),
        RawEnding::Deadlock { tasks, .. } => {
            let mut ths: Vec<usize> = tasks.iter().map(|t| thread_of.get(t).cloned().unwrap_or(usize::MAX)).collect();
            ths.sort();
            Ending::Deadlock(ths)
        }
    };
    if fail.is_none() {
        let ok = match &ending {
            Ending::Stopped => true,
            Ending::Ok => cands
                .iter()
                .any(|s| s.panic.is_none() && (0..n).all(|t| s.th[t].st != St::Active)),
            Ending::Deadlock(set) => cands.iter().any(|s| {
                s.panic.is_none()
                    && (0..n).all(|t| !g_enabled(p, s, t, strict))
                    && (0..n).filter(|&t| s.th[t].st == St::Active).collect::<Vec<_>>() == *set
            }),
            Ending::Panic(msg) => {
                // some candidate must be able to take a Panic transition whose class occurs in msg
                cands.iter().any(|s| {
                    (0..n).any(|t| {
                        let pc = s.th[t].pc as usize;
                        (pc == p.threads[t].len() || called[t] > pc)
                            && g_steps_of(p, s, t, strict)
                                .iter()
                                .any(|(l, _)| matches!(l, Label::Panic(c) if msg.contains(c.as_str())))
                    })
                })
            }
        };
        if !ok {
            let sample = cands.iter().next().map(|s| format!("{:?}", s)).unwrap_or_default();
            let mut pend: Vec<String> = match &ending {
                Ending::Deadlock(set) => set.iter().filter(|t| **t < n).map(|t| pending_kind(p, *t, &called)).collect(),
                Ending::Panic(m) => vec![format!("panic:{}", m.chars().take(60).collect::<String>())],
                _ => vec!["ok".into()],
            };
            pend.sort();
            pend.dedup();
            fail = Some(CosimFail {
                kind: FailKind::Ending,
                culprit: pend.join("+"),
                at_decision: ndec + 1,
                what: format!(
                    "execution ended with {:?} but no model state consistent with the log ends that way ({} candidates, e.g. {})",
                    ending,
                    cands.len(),
                    sample
                ),
            });
        }
    }
    CosimResult {
        outcome: Outcome { res, ending },
        fail,
        task_of,
    }
}


/// All non-decreasing k-tuples over 0..n (multisets), in lexicographic order.
pub fn nondecreasing_tuples(n: usize, k: usize) -> Vec<Vec<usize>> {
    fn rec(n: usize, k: usize, start: usize, cur: &mut Vec<usize>, out: &mut Vec<Vec<usize>>) {
        if cur.len() == k {
            out.push(cur.clone());
            return;
        }
        for i in start..n {
            cur.push(i);
            rec(n, k, i, cur, out);
            cur.pop();
        }
    }
    let mut out = Vec::new();
    rec(n, k, 0, &mut Vec::new(), &mut out);
    out
}


pub struct OpDbg<'a, O>(pub &'a GOp<O>);
impl<O: Debug> Debug for OpDbg<'_, O> {
    fn fmt(&self, f: &mut std::fmt::Formatter<'_>) -> std::fmt::Result {
        match self.0 {
            GOp::Op(o) => o.fmt(f),
            GOp::Spawn(_) => write!(f, "Spawn"),
            GOp::Join(_) => write!(f, "Join"),
        }
    }
}

/// Kind name of the operation thread `t` is currently in (last called, not yet returned).
pub fn pending_kind<F: Family>(p: &Program<F>, t: usize, called: &[usize]) -> String {
    let i = called[t];
    if i == 0 || i > p.threads[t].len() {
        return "none".into();
    }
    crate::drive::op_kind_name(&format!("{:?}", OpDbg(&p.threads[t][i - 1])))
}
