//! Shared check interface: tiers, findings, known-findings matching, evidence and replay files,
//! exit codes.  Every property check builds a `CheckResult` and hands it to `finish`.

use serde::{Deserialize, Serialize};
use serde_json::{json, Map, Value};
use std::time::Instant;

#[derive(Clone, Copy, Debug, PartialEq, Eq)]
pub enum Tier {
    Quick,
    Thorough,
}

impl Tier {
    pub fn name(&self) -> &'static str {
        match self {
            Tier::Quick => "quick",
            Tier::Thorough => "thorough",
        }
    }
    pub fn is_thorough(&self) -> bool {
        *self == Tier::Thorough
    }
}

pub struct CheckCtx {
    pub id: String,
    pub tier: Tier,
    pub seed: u64,
    pub start: Instant,
}

impl CheckCtx {
    pub fn new(id: &str, tier: Tier) -> Self {
        let seed = std::env::var("VERIF_SEED").ok().and_then(|s| s.parse::<u64>().ok()).unwrap_or(0);
        CheckCtx {
            id: id.to_string(),
            tier,
            seed,
            start: Instant::now(),
        }
    }
}

/// One violation of the property found by a check.
#[derive(Clone, Debug, Serialize, Deserialize)]
pub struct Finding {
    /// Stable identifier of the *specific failing case* (input / call site / operation kind). Known
    /// findings are matched on (property, key) exactly.
    pub key: String,
    pub what: String,
    /// Everything needed to re-execute the case without the explorer.
    pub replay: Value,
}

pub struct CheckResult {
    /// evidence level: "model_checking" | "exploration" | "fault_enumeration"
    pub level: &'static str,
    pub coverage: Map<String, Value>,
    pub assumptions: Vec<String>,
    pub findings: Vec<Finding>,
    pub machinery_errors: Vec<String>,
}

impl CheckResult {
    pub fn new(level: &'static str) -> Self {
        CheckResult {
            level,
            coverage: Map::new(),
            assumptions: Vec::new(),
            findings: Vec::new(),
            machinery_errors: Vec::new(),
        }
    }
    pub fn cov(&mut self, k: &str, v: impl Into<Value>) {
        self.coverage.insert(k.to_string(), v.into());
    }
    pub fn add_count(&mut self, k: &str, n: u64) {
        let cur = self.coverage.get(k).and_then(|v| v.as_u64()).unwrap_or(0);
        self.coverage.insert(k.to_string(), json!(cur + n));
    }
    pub fn sample(&mut self, v: Value) {
        let e = self.coverage.entry("samples".to_string()).or_insert_with(|| json!([]));
        if let Some(a) = e.as_array_mut() {
            if a.len() < 8 {
                a.push(v);
            }
        }
    }
    pub fn finding(&mut self, key: impl Into<String>, what: impl Into<String>, replay: Value) {
        self.findings.push(Finding {
            key: key.into(),
            what: what.into(),
            replay,
        });
    }
}

#[derive(Clone, Debug, Serialize, Deserialize)]
pub struct KnownEntry {
    pub property: String,
    pub key: String,
    pub what: String,
    /// "known" or "fixed"
    pub status: String,
    #[serde(default)]
    pub commit: Option<String>,
}

pub fn load_known() -> Vec<KnownEntry> {
    match std::fs::read_to_string("/verif/known_findings.json") {
        Ok(s) => serde_json::from_str(&s).unwrap_or_else(|e| {
            eprintln!("MACHINERY-ERROR: cannot parse /verif/known_findings.json: {}", e);
            std::process::exit(2)
        }),
        Err(_) => Vec::new(),
    }
}

/// Write evidence + replay files, print KNOWN-FINDING / VIOLATION lines, exit with the contract's code.
pub fn finish(ctx: &CheckCtx, mut res: CheckResult) -> ! {
    let known = load_known();
    let dir = format!("/verif/replays/{}", ctx.id);
    // replay files describe this run only
    let _ = std::fs::remove_dir_all(&dir);
    let _ = std::fs::create_dir_all(&dir);
    let _ = std::fs::create_dir_all("/verif/evidence");

    // group findings by key; one replay file + one line per distinct key
    let mut by_key: Vec<(String, Vec<Finding>)> = Vec::new();
    for f in res.findings.drain(..) {
        if let Some(e) = by_key.iter_mut().find(|(k, _)| *k == f.key) {
            e.1.push(f);
        } else {
            by_key.push((f.key.clone(), vec![f]));
        }
    }
    let mut n_viol = 0usize;
    let mut n_known = 0usize;
    let mut lines: Vec<String> = Vec::new();
    for (key, fs) in &by_key {
        let is_known = known
            .iter()
            .any(|k| k.property == ctx.id && k.key == *key && k.status == "known");
        let first = &fs[0];
        if is_known {
            n_known += 1;
            lines.push(format!(
                "KNOWN-FINDING: property={} {} — {} ({} occurrence(s) this run)",
                ctx.id,
                key,
                first.what.replace('\n', " "),
                fs.len()
            ));
        } else {
            n_viol += 1;
            let safe: String = key
                .chars()
                .map(|c| if c.is_ascii_alphanumeric() || c == '-' || c == '_' { c } else { '_' })
                .take(80)
                .collect();
            let path = format!("{}/{}.json", dir, safe);
            let doc = json!({
                "property": ctx.id,
                "key": key,
                "what": first.what,
                "occurrences": fs.len(),
                "replay": first.replay,
                "more": fs.iter().skip(1).take(4).map(|f| json!({"what": f.what, "replay": f.replay})).collect::<Vec<_>>(),
            });
            let _ = std::fs::write(&path, serde_json::to_string_pretty(&doc).unwrap());
            lines.push(format!("VIOLATION property={} replay={}", ctx.id, path));
            lines.push(format!("  key={} :: {}", key, first.what.replace('\n', " ")));
        }
    }

    let wall = ctx.start.elapsed().as_secs_f64();
    res.coverage.entry("samples".to_string()).or_insert_with(|| json!([]));
    res.coverage.insert("known_findings_reobserved".into(), json!(n_known));
    res.coverage.insert("machinery_errors".into(), json!(res.machinery_errors.len()));
    let ev = json!({
        "property_id": ctx.id,
        "tier": ctx.tier.name(),
        "seed": ctx.seed,
        "level": res.level,
        "coverage": Value::Object(res.coverage.clone()),
        "assumptions": res.assumptions,
        "wall_s": wall,
        "violations": n_viol,
    });
    let evp = format!("/verif/evidence/{}.json", ctx.id);
    if let Err(e) = std::fs::write(&evp, serde_json::to_string_pretty(&ev).unwrap()) {
        eprintln!("MACHINERY-ERROR: cannot write {}: {}", evp, e);
        std::process::exit(2);
    }
    for l in &lines {
        println!("{}", l);
    }
    for m in &res.machinery_errors {
        eprintln!("MACHINERY-ERROR: {}", m);
    }
    println!(
        "{} {} done in {:.1}s: violations={} known={} machinery_errors={} evidence={}",
        ctx.id,
        ctx.tier.name(),
        wall,
        n_viol,
        n_known,
        res.machinery_errors.len(),
        evp
    );
    // a violation is a verdict even if some other part of the run had a machinery problem
    if n_viol > 0 {
        std::process::exit(1);
    }
    if !res.machinery_errors.is_empty() {
        std::process::exit(2);
    }
    std::process::exit(0);
}

/// Silence Shuttle's process-wide panic hook (installed once, on the first execution) and the
/// default hook: workers provoke millions of expected panics (deadlocks in deadlocking programs).
pub fn silence_panics() {
    // make Shuttle install its hook first, so that ours replaces it for good
    let _ = std::panic::catch_unwind(|| {
        let mut c = shuttle_engine::Config::new();
        c.failure_persistence = shuttle_engine::FailurePersistence::None;
        shuttle_engine::Runner::new(shuttle_schedulers::RoundRobinScheduler::new(1), c).run(|| {});
    });
    std::panic::set_hook(Box::new(|_| {}));
}

/// Redirect fd 2 to /dev/null, returning a File for the original stderr (for our own diagnostics).
pub fn mute_stderr() -> std::fs::File {
    use std::os::fd::FromRawFd;
    unsafe {
        let saved = libc::dup(2);
        let devnull = libc::open(b"/dev/null\0".as_ptr() as *const libc::c_char, libc::O_WRONLY);
        libc::dup2(devnull, 2);
        libc::close(devnull);
        std::fs::File::from_raw_fd(saved)
    }
}
