//! Child side: execute ONE history (a sequence of configured Shuttle runs) or ONE replay, and report
//! what `catch_unwind` returned for each run as JSON on stdout. stderr is left to Shuttle; the child
//! only adds BEGIN/END marker lines around every run so that the parent can attribute output.

use crate::bodies;
use crate::spec::*;
use shuttle::scheduler::{DfsScheduler, RandomScheduler, ReplayScheduler, RoundRobinScheduler};
use shuttle::{Config, FailurePersistence, MaxSteps, PortfolioRunner, Runner};
use shuttle_engine::runtime::execution::CurrentSchedule;
use shuttle_engine::scheduler::serialization::serialize_schedule;
use std::any::Any;
use std::collections::BTreeMap;
use std::panic::{catch_unwind, AssertUnwindSafe};

pub fn classify(r: Result<usize, Box<dyn Any + Send>>) -> Outcome {
    match r {
        Ok(n) => Outcome::Ok(n),
        Err(p) => {
            if let Some(s) = p.downcast_ref::<String>() {
                Outcome::Panic {
                    ty: "String".into(),
                    text: s.clone(),
                }
            } else if let Some(s) = p.downcast_ref::<&'static str>() {
                Outcome::Panic {
                    ty: "&str".into(),
                    text: s.to_string(),
                }
            } else if let Some(m) = p.downcast_ref::<bodies::Marker>() {
                Outcome::Panic {
                    ty: "Marker".into(),
                    text: format!("{:?}", m),
                }
            } else {
                Outcome::Panic {
                    ty: "unknown".into(),
                    text: String::new(),
                }
            }
        }
    }
}

fn config_for(kind: Kind, pers: Pers, dirs: &[String]) -> Config {
    let mut c = Config::new();
    c.failure_persistence = match pers {
        Pers::None => FailurePersistence::None,
        Pers::Print => FailurePersistence::Print,
        Pers::File(i) => FailurePersistence::File(Some(std::path::PathBuf::from(&dirs[i]))),
    };
    if kind.uses_step_bound() {
        c.max_steps = MaxSteps::FailAfter(STEP_BOUND);
    }
    c
}

fn run_with(sched: &Sched, config: Config, kind: Kind) -> usize {
    let b = bodies::body(kind);
    let f = move || b();
    match sched {
        Sched::RR => Runner::new(RoundRobinScheduler::new(1), config).run(f),
        Sched::Dfs1 => Runner::new(DfsScheduler::new(Some(1), false), config).run(f),
        Sched::Random(seed) => Runner::new(RandomScheduler::new_from_seed(*seed, 1), config).run(f),
        Sched::Replay(s) => Runner::new(ReplayScheduler::new_from_encoded(s), config).run(f),
    }
}

fn add_member(p: &mut PortfolioRunner, s: &Sched) {
    match s {
        Sched::RR => p.add(RoundRobinScheduler::new(1)),
        Sched::Dfs1 => p.add(DfsScheduler::new(Some(1), false)),
        Sched::Random(seed) => p.add(RandomScheduler::new_from_seed(*seed, 1)),
        Sched::Replay(x) => p.add(ReplayScheduler::new_from_encoded(x)),
    }
}

fn snapshot(dirs: &[String]) -> Vec<BTreeMap<String, String>> {
    dirs.iter()
        .map(|d| {
            let mut m = BTreeMap::new();
            if let Ok(rd) = std::fs::read_dir(d) {
                for e in rd.flatten() {
                    let name = e.file_name().to_string_lossy().to_string();
                    let content = std::fs::read_to_string(e.path()).unwrap_or_else(|_| "<unreadable>".into());
                    m.insert(name, content);
                }
            }
            m
        })
        .collect()
}

fn one_run(spec: &RunSpec, dirs: &[String]) -> (Outcome, usize, String) {
    let spec = spec.clone();
    let dirs = dirs.to_vec();
    let f = move || -> (Outcome, usize, String) {
        let config = config_for(spec.kind, spec.pers, &dirs);
        if let Some(pf) = &spec.portfolio {
            let mut p = PortfolioRunner::new(pf.stop_on_first_failure, config);
            for m in &pf.members {
                add_member(&mut p, m);
            }
            let b = bodies::body(spec.kind);
            let r = catch_unwind(AssertUnwindSafe(move || {
                p.run(move || b());
                0usize
            }));
            (classify(r), 0, String::new())
        } else {
            let r = catch_unwind(AssertUnwindSafe(|| run_with(&spec.sched, config, spec.kind)));
            let len = CurrentSchedule::len();
            let ser = serialize_schedule(&CurrentSchedule::get_schedule());
            (classify(r), len, ser)
        }
    };
    f()
}

pub fn history(spec: &HistorySpec) -> HistoryObs {
    let mut runs = Vec::new();
    for (i, r) in spec.runs.iter().enumerate() {
        eprintln!("\n{} {}", BEGIN, i);
        let (outcome, sched_len, sched_ser) = if r.other_thread {
            let r2 = r.clone();
            let dirs = spec.dirs.clone();
            std::thread::spawn(move || one_run(&r2, &dirs))
                .join()
                .expect("history child: run thread itself panicked")
        } else {
            one_run(r, &spec.dirs)
        };
        eprintln!("\n{} {}", END, i);
        runs.push(RunObs {
            outcome,
            sched_len,
            sched_ser,
            dirs_after: snapshot(&spec.dirs),
        });
    }
    HistoryObs { runs }
}

/// Replay an emitted schedule the way the emitted message tells the user to: `shuttle::replay` /
/// `shuttle::replay_from_file` on the same body. For the step-bound body the bound is part of the
/// run's configuration, so the same `FailAfter` bound is configured on a Runner with the
/// ReplayScheduler built by the same constructor those functions use.
pub fn replay(spec: &ReplaySpec) -> Outcome {
    let b = bodies::body(spec.kind);
    let f = move || b();
    let r = catch_unwind(AssertUnwindSafe(|| {
        if spec.kind.uses_step_bound() {
            let sched = if spec.from_file {
                ReplayScheduler::new_from_file(&spec.value).expect("could not load schedule from file")
            } else {
                ReplayScheduler::new_from_encoded(&spec.value)
            };
            let mut c = Config::new();
            c.max_steps = MaxSteps::FailAfter(STEP_BOUND);
            Runner::new(sched, c).run(f)
        } else if spec.from_file {
            shuttle::replay_from_file(f, &spec.value);
            1
        } else {
            shuttle::replay(f, &spec.value);
            1
        }
    }));
    classify(r)
}

/// Fork server, see `parent::Zygote`. Never runs Shuttle code itself and never starts a thread, so
/// that every forked child starts from pristine process state.
pub fn zygote() -> ! {
    use std::io::{BufRead, Write};
    let stdin = std::io::stdin();
    let mut line = String::new();
    loop {
        line.clear();
        match stdin.lock().read_line(&mut line) {
            Ok(0) | Err(_) => std::process::exit(0),
            Ok(_) => {}
        }
        let req: serde_json::Value = match serde_json::from_str(line.trim()) {
            Ok(v) => v,
            Err(e) => {
                println!("{}", serde_json::json!({"error": format!("bad request: {}", e)}));
                let _ = std::io::stdout().flush();
                continue;
            }
        };
        let _ = std::io::stdout().flush();
        let pid = unsafe { libc::fork() };
        if pid < 0 {
            println!("{}", serde_json::json!({"error": "fork failed"}));
            let _ = std::io::stdout().flush();
            continue;
        }
        if pid == 0 {
            // ---- the child: one job, then _exit; must never fall back into the loop ----
            let code = match catch_unwind(AssertUnwindSafe(|| child_job(&req))) {
                Ok(c) => c,
                Err(_) => 101,
            };
            let _ = std::io::stdout().flush();
            unsafe { libc::_exit(code) }
        }
        let mut st: libc::c_int = 0;
        let r = unsafe { libc::waitpid(pid, &mut st, 0) };
        let resp = if r < 0 {
            serde_json::json!({"error": "waitpid failed"})
        } else if libc::WIFEXITED(st) {
            serde_json::json!({"code": libc::WEXITSTATUS(st)})
        } else if libc::WIFSIGNALED(st) {
            serde_json::json!({"signal": libc::WTERMSIG(st)})
        } else {
            serde_json::json!({"error": "unknown wait status"})
        };
        println!("{}", resp);
        let _ = std::io::stdout().flush();
    }
}

fn redirect(fd: i32, path: &str) -> bool {
    let c = match std::ffi::CString::new(path) {
        Ok(c) => c,
        Err(_) => return false,
    };
    unsafe {
        let f = libc::open(c.as_ptr(), libc::O_WRONLY | libc::O_CREAT | libc::O_TRUNC, 0o644);
        if f < 0 {
            return false;
        }
        let ok = libc::dup2(f, fd) >= 0;
        libc::close(f);
        ok
    }
}

fn child_job(req: &serde_json::Value) -> i32 {
    let out = req["out"].as_str().unwrap_or("");
    let err = req["err"].as_str().unwrap_or("");
    if !redirect(1, out) || !redirect(2, err) {
        return 4;
    }
    unsafe {
        libc::alarm(req["timeout_s"].as_u64().unwrap_or(60) as libc::c_uint);
    }
    let arg = req["arg"].as_str().unwrap_or("");
    match req["sub"].as_str() {
        Some("child-history") => match serde_json::from_str::<HistorySpec>(arg) {
            Ok(spec) => {
                let obs = history(&spec);
                println!("{}", serde_json::to_string(&obs).unwrap());
                0
            }
            Err(_) => 3,
        },
        Some("child-replay") => match serde_json::from_str::<ReplaySpec>(arg) {
            Ok(spec) => {
                let o = replay(&spec);
                println!("{}", serde_json::to_string(&o).unwrap());
                0
            }
            Err(_) => 3,
        },
        _ => 3,
    }
}
