//! Types shared by the parent (enumerator + oracle) and the children (one history / one replay each).

use serde::{Deserialize, Serialize};
use std::collections::BTreeMap;

/// Step bound used by the `StepBound` body (its body needs far more steps than this).
pub const STEP_BOUND: usize = 12;

#[derive(Clone, Copy, Debug, PartialEq, Eq, Hash, PartialOrd, Ord, Serialize, Deserialize)]
pub enum Kind {
    /// two threads incrementing a Mutex-protected counter; never fails
    Pass,
    /// task 0 panics with a custom struct payload
    PanicMain,
    /// a spawned thread panics with a formatted `String`
    PanicSpawned,
    /// a spawned future panics with a `&'static str`
    PanicFuture,
    /// a spawned thread panics while holding a MutexGuard that another task is blocked on
    PanicLocked,
    /// AB/BA lock cycle (deadlocks under round-robin; may pass under other schedulers)
    DeadlockCycle,
    /// lost notify: a waiter whose condition never becomes true; deadlocks on every schedule
    DeadlockNotify,
    /// two yield loops longer than `FailAfter(STEP_BOUND)`
    StepBound,
    /// portfolio body: outcome depends on whether the spawned thread runs before task 0's load
    Order,
}

impl Kind {
    pub const FAILING: [Kind; 7] = [
        Kind::PanicMain,
        Kind::PanicSpawned,
        Kind::PanicFuture,
        Kind::PanicLocked,
        Kind::DeadlockCycle,
        Kind::DeadlockNotify,
        Kind::StepBound,
    ];
    /// class used in finding keys
    pub fn class(&self) -> &'static str {
        match self {
            Kind::Pass => "pass",
            Kind::PanicMain | Kind::PanicSpawned | Kind::PanicFuture | Kind::PanicLocked | Kind::Order => "task-panic",
            Kind::DeadlockCycle | Kind::DeadlockNotify | Kind::StepBound => "condition",
        }
    }
    pub fn uses_step_bound(&self) -> bool {
        *self == Kind::StepBound
    }
}

/// Failure persistence of one run. `File(i)` = directory `dirs[i]` of the history.
#[derive(Clone, Copy, Debug, PartialEq, Eq, Hash, PartialOrd, Ord, Serialize, Deserialize)]
pub enum Pers {
    None,
    Print,
    File(usize),
}

impl Pers {
    pub fn mode(&self) -> &'static str {
        match self {
            Pers::None => "None",
            Pers::Print => "Print",
            Pers::File(_) => "File",
        }
    }
}

#[derive(Clone, Debug, PartialEq, Eq, Hash, PartialOrd, Ord, Serialize, Deserialize)]
pub enum Sched {
    /// RoundRobinScheduler::new(1)
    RR,
    /// DfsScheduler::new(Some(1), false)
    Dfs1,
    /// RandomScheduler::new_from_seed(seed, 1)
    Random(u64),
    /// ReplayScheduler::new_from_encoded(s)
    Replay(String),
}

impl Sched {
    pub fn name(&self) -> String {
        match self {
            Sched::RR => "rr".into(),
            Sched::Dfs1 => "dfs1".into(),
            Sched::Random(s) => format!("random({})", s),
            Sched::Replay(_) => "replay".into(),
        }
    }
}

#[derive(Clone, Debug, PartialEq, Eq, Hash, PartialOrd, Ord, Serialize, Deserialize)]
pub struct Portfolio {
    pub members: Vec<Sched>,
    pub stop_on_first_failure: bool,
}

#[derive(Clone, Debug, PartialEq, Eq, Hash, PartialOrd, Ord, Serialize, Deserialize)]
pub struct RunSpec {
    pub kind: Kind,
    pub pers: Pers,
    pub sched: Sched,
    /// run on a freshly spawned OS thread (joined before the next run starts)
    pub other_thread: bool,
    /// if set, `sched` is ignored and a PortfolioRunner with these members is used
    pub portfolio: Option<Portfolio>,
}

#[derive(Clone, Debug, Serialize, Deserialize)]
pub struct HistorySpec {
    pub runs: Vec<RunSpec>,
    /// persistence directories (created by the parent); `Pers::File(i)` refers to `dirs[i]`
    pub dirs: Vec<String>,
}

/// What `catch_unwind` around the run returned.
#[derive(Clone, Debug, PartialEq, Eq, Hash, PartialOrd, Ord, Serialize, Deserialize)]
pub enum Outcome {
    /// returned normally (iterations)
    Ok(usize),
    /// unwound with a payload of this type (`String`, `&str`, `Marker`, `unknown`) and text
    Panic { ty: String, text: String },
}

impl Outcome {
    pub fn short(&self) -> String {
        match self {
            Outcome::Ok(n) => format!("Ok({})", n),
            Outcome::Panic { ty, text } => {
                let t: String = text.chars().take(100).collect();
                format!("panic<{}>({:?})", ty, t)
            }
        }
    }
}

#[derive(Clone, Debug, Serialize, Deserialize)]
pub struct RunObs {
    pub outcome: Outcome,
    /// length / serialisation of the runtime's `CurrentSchedule` right after the run (informational;
    /// used for the same-length / different-length part of history shapes). 0 / "" for portfolios.
    pub sched_len: usize,
    pub sched_ser: String,
    /// content of every persistence directory of the history right after this run
    pub dirs_after: Vec<BTreeMap<String, String>>,
}

#[derive(Clone, Debug, Serialize, Deserialize)]
pub struct HistoryObs {
    pub runs: Vec<RunObs>,
}

#[derive(Clone, Debug, Serialize, Deserialize)]
pub struct ReplaySpec {
    pub kind: Kind,
    /// true: `value` is a path for `replay_from_file`; false: `value` is the string for `replay`
    pub from_file: bool,
    pub value: String,
}

pub const BEGIN: &str = "@@VX-C12-BEGIN";
pub const END: &str = "@@VX-C12-END";
