//! The test bodies (one per failure kind) and what each is expected to surface.

use crate::spec::{Kind, Outcome, STEP_BOUND};
use shuttle::sync::atomic::{AtomicBool, Ordering};
use shuttle::sync::{Condvar, Mutex};
use shuttle::{future, thread};
use std::sync::Arc;

/// Custom (non-string) panic payload: its type and value must come back unchanged.
#[derive(Debug, Clone, PartialEq, Eq)]
pub struct Marker {
    pub tag: u32,
    pub text: String,
}

pub const SPAWNED_TEXT_ARG: u32 = 42;
pub const LOCKED_TEXT_ARG: u32 = 7;
pub const FUTURE_TEXT: &str = "c12 payload: &'static str from a spawned future";
pub const ORDER_TEXT: &str = "c12 payload: order body lost the race";

pub fn marker() -> Marker {
    Marker {
        tag: 0xC12,
        text: "c12 payload: custom struct from task 0".to_string(),
    }
}
pub fn spawned_text() -> String {
    format!("c12 payload: String #{} from a spawned thread", SPAWNED_TEXT_ARG)
}
pub fn locked_text() -> String {
    format!("c12 payload: String #{} from a thread holding a MutexGuard", LOCKED_TEXT_ARG)
}

fn lock<T>(m: &Mutex<T>) -> shuttle::sync::MutexGuard<'_, T> {
    match m.lock() {
        Ok(g) => g,
        Err(p) => p.into_inner(),
    }
}

pub fn body(kind: Kind) -> Arc<dyn Fn() + Send + Sync + 'static> {
    match kind {
        Kind::Pass => Arc::new(|| {
            let m = Arc::new(Mutex::new(0u32));
            let m2 = m.clone();
            let t = thread::spawn(move || {
                *lock(&m2) += 1;
            });
            *lock(&m) += 1;
            t.join().unwrap();
            assert_eq!(*lock(&m), 2);
        }),
        Kind::PanicMain => Arc::new(|| {
            let m = Arc::new(Mutex::new(0u32));
            let m2 = m.clone();
            let _t = thread::spawn(move || {
                *lock(&m2) += 1;
                thread::yield_now();
                *lock(&m2) += 1;
            });
            *lock(&m) += 1;
            thread::yield_now();
            std::panic::panic_any(marker());
        }),
        Kind::PanicSpawned => Arc::new(|| {
            let m = Arc::new(Mutex::new(0u32));
            let m2 = m.clone();
            let t = thread::spawn(move || {
                *lock(&m2) += 1;
                thread::yield_now();
                panic!("c12 payload: String #{} from a spawned thread", std::hint::black_box(SPAWNED_TEXT_ARG));
            });
            *lock(&m) += 1;
            let _ = t.join();
        }),
        Kind::PanicFuture => Arc::new(|| {
            let h = future::spawn(async {
                future::yield_now().await;
                future::yield_now().await;
                panic!("c12 payload: &'static str from a spawned future");
            });
            let _ = future::block_on(h);
        }),
        Kind::PanicLocked => Arc::new(|| {
            let m = Arc::new(Mutex::new(0u32));
            let m2 = m.clone();
            let t = thread::spawn(move || {
                let mut g = lock(&m2);
                *g += 1;
                thread::yield_now();
                panic!("c12 payload: String #{} from a thread holding a MutexGuard", std::hint::black_box(LOCKED_TEXT_ARG));
            });
            thread::yield_now();
            *lock(&m) += 1;
            let _ = t.join();
        }),
        Kind::DeadlockCycle => Arc::new(|| {
            let a = Arc::new(Mutex::new(0u32));
            let b = Arc::new(Mutex::new(0u32));
            let (a2, b2) = (a.clone(), b.clone());
            let t = thread::spawn(move || {
                let _ga = lock(&a2);
                let _gb = lock(&b2);
            });
            {
                let _gb = lock(&b);
                let _ga = lock(&a);
            }
            t.join().unwrap();
        }),
        Kind::DeadlockNotify => Arc::new(|| {
            let pair = Arc::new((Mutex::new(false), Condvar::new()));
            let p2 = pair.clone();
            let t = thread::spawn(move || {
                let (m, cv) = &*p2;
                let mut g = lock(m);
                while !*g {
                    g = match cv.wait(g) {
                        Ok(g) => g,
                        Err(p) => p.into_inner(),
                    };
                }
            });
            // the notifier forgets to set the flag: whatever the order, the waiter sleeps for ever
            pair.1.notify_one();
            t.join().unwrap();
        }),
        Kind::StepBound => Arc::new(|| {
            let t = thread::spawn(|| {
                for _ in 0..(4 * STEP_BOUND) {
                    thread::yield_now();
                }
            });
            for _ in 0..(4 * STEP_BOUND) {
                thread::yield_now();
            }
            t.join().unwrap();
        }),
        Kind::Order => Arc::new(|| {
            let flag = Arc::new(AtomicBool::new(false));
            let f2 = flag.clone();
            let t = thread::spawn(move || {
                f2.store(true, Ordering::SeqCst);
            });
            // round-robin hands over to the spawned thread here, DFS's first schedule stays on task 0
            thread::yield_now();
            if !flag.load(Ordering::SeqCst) {
                panic!("c12 payload: order body lost the race");
            }
            t.join().unwrap();
        }),
    }
}

/// Does `o` satisfy the property's first sentence for a *failing* run of `kind`?
/// Task panics: the task's own payload, same type and value. Deadlock / step bound: a message naming
/// the condition. Returns a description of the mismatch.
pub fn payload_mismatch(kind: Kind, o: &Outcome) -> Option<String> {
    let (ty, text) = match o {
        Outcome::Ok(_) => return Some("run returned normally (failure not surfaced)".into()),
        Outcome::Panic { ty, text } => (ty.as_str(), text.as_str()),
    };
    let own = |ety: &str, etext: String| -> Option<String> {
        if ty != ety {
            Some(format!("payload type is {} instead of the task's own {}", ty, ety))
        } else if text != etext {
            Some("payload value differs from the task's own".to_string())
        } else {
            None
        }
    };
    let names = |needle: String| -> Option<String> {
        if (ty == "String" || ty == "&str") && text.contains(&needle) {
            None
        } else {
            Some(format!("failure message does not name the condition ({:?})", needle))
        }
    };
    match kind {
        Kind::Pass => Some("passing body failed".into()),
        Kind::PanicMain => own("Marker", format!("{:?}", marker())),
        Kind::PanicSpawned => own("String", spawned_text()),
        Kind::PanicFuture => own("&str", FUTURE_TEXT.to_string()),
        Kind::PanicLocked => own("String", locked_text()),
        Kind::Order => own("&str", ORDER_TEXT.to_string()),
        Kind::DeadlockCycle | Kind::DeadlockNotify => names("deadlock".to_string()),
        Kind::StepBound => names(format!("max_steps bound {}", STEP_BOUND)),
    }
}
