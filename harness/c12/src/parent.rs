//! Parent side: enumerate histories, run each in a fresh child, judge every failing run against the
//! property statement, minimise the violating histories to their shapes, report.

use crate::bodies;
use crate::spec::*;
use serde_json::{json, Value};
use std::collections::{BTreeMap, BTreeSet, HashMap};
use std::io::{BufRead, BufReader, Write};
use std::path::{Path, PathBuf};
use std::process::{Command, Stdio};
use std::sync::atomic::{AtomicBool, AtomicU64, AtomicUsize, Ordering};
use std::sync::{Arc, Mutex};
use std::time::{Duration, Instant};
use vx::common::{CheckCtx, CheckResult, Tier};

const WORKERS: usize = 16;
const CHILD_TIMEOUT_S: u64 = 60;
const RANDOM_SEED: u64 = 0xC12_5EED;
static CHILD_JOBS: AtomicU64 = AtomicU64::new(0);
static CHILD_BUSY_US: AtomicU64 = AtomicU64::new(0);

// ------------------------------------------------------------------------------------------------
// child processes
// ------------------------------------------------------------------------------------------------

/// A *zygote* is a re-exec of this binary (`zygote` sub-command) that never touches Shuttle and stays
/// single-threaded; for every job it `fork()`s a child that runs ONE history (or ONE replay) and
/// exits. The forked child is a fresh process as far as Shuttle's process-global state is concerned
/// (panic-hook `Once`, thread-locals, statics are all pristine in the zygote), without paying an
/// `exec` of a 20 MB binary per history (measured here: 1.3 s per exec'd child vs ~10 ms per fork).
struct Zygote {
    child: std::process::Child,
    stdin: Option<std::process::ChildStdin>,
    stdout: BufReader<std::process::ChildStdout>,
    base: PathBuf,
    seq: usize,
}

struct ChildOut {
    stdout: String,
    stderr: String,
    /// None = exited normally with code 0; Some(description) otherwise
    abnormal: Option<String>,
    timed_out: bool,
}

impl Zygote {
    fn spawn(scratch: &Path, id: usize) -> Result<Zygote, String> {
        let exe = Ok::<std::path::PathBuf, std::io::Error>(std::path::PathBuf::from("/proc/self/exe")).map_err(|e| format!("current_exe: {}", e))?;
        let base = scratch.join(format!("z{}", id));
        std::fs::create_dir_all(&base).map_err(|e| format!("cannot create {}: {}", base.display(), e))?;
        let mut cmd = Command::new(exe);
        cmd.arg("zygote")
            .stdin(Stdio::piped())
            .stdout(Stdio::piped())
            .stderr(Stdio::null())
            .env_remove("RUST_BACKTRACE")
            .env_remove("RUST_LIB_BACKTRACE")
            .env_remove("SHUTTLE_RANDOM_SEED")
            .env_remove("SHUTTLE_CAPTURE_BACKTRACE")
            .env_remove("SHUTTLE_ALWAYS_PERSIST_SEED")
            .env_remove("SHUTTLE_ANNOTATION_FILE")
            .env_remove("SHUTTLE_SILENCE_WARNINGS")
            .env_remove("RUST_LOG");
        let mut child = cmd.spawn().map_err(|e| format!("cannot spawn zygote: {}", e))?;
        let stdin = child.stdin.take();
        let stdout = BufReader::new(child.stdout.take().unwrap());
        Ok(Zygote {
            child,
            stdin,
            stdout,
            base,
            seq: 0,
        })
    }

    fn run(&mut self, sub: &str, arg: &str) -> Result<ChildOut, String> {
        self.seq += 1;
        let t0 = Instant::now();
        let out = self.base.join(format!("{}.out", self.seq));
        let err = self.base.join(format!("{}.err", self.seq));
        let req = json!({"sub": sub, "arg": arg, "out": out.to_string_lossy(), "err": err.to_string_lossy(), "timeout_s": CHILD_TIMEOUT_S});
        let stdin = self.stdin.as_mut().ok_or("zygote has no stdin")?;
        writeln!(stdin, "{}", req).map_err(|e| format!("zygote write: {}", e))?;
        stdin.flush().map_err(|e| format!("zygote flush: {}", e))?;
        let mut line = String::new();
        let n = self.stdout.read_line(&mut line).map_err(|e| format!("zygote read: {}", e))?;
        if n == 0 {
            return Err("zygote died".to_string());
        }
        let resp: Value = serde_json::from_str(line.trim()).map_err(|e| format!("zygote response {:?}: {}", line, e))?;
        if let Some(e) = resp["error"].as_str() {
            return Err(format!("zygote: {}", e));
        }
        let stdout = std::fs::read(&out).map(|v| String::from_utf8_lossy(&v).to_string()).unwrap_or_default();
        let stderr = std::fs::read(&err).map(|v| String::from_utf8_lossy(&v).to_string()).unwrap_or_default();
        let _ = std::fs::remove_file(&out);
        let _ = std::fs::remove_file(&err);
        CHILD_JOBS.fetch_add(1, Ordering::Relaxed);
        CHILD_BUSY_US.fetch_add(t0.elapsed().as_micros() as u64, Ordering::Relaxed);
        let code = resp["code"].as_i64();
        let signal = resp["signal"].as_i64();
        let abnormal = match (code, signal) {
            (Some(0), _) => None,
            (Some(c), _) => Some(format!("exit code {}", c)),
            (None, Some(s)) => Some(format!("killed by signal {}", s)),
            _ => Some("unknown exit".to_string()),
        };
        Ok(ChildOut {
            stdout,
            stderr,
            abnormal,
            timed_out: signal == Some(libc::SIGALRM as i64),
        })
    }
}

impl Drop for Zygote {
    fn drop(&mut self) {
        drop(self.stdin.take());
        let _ = self.child.wait();
    }
}

// ------------------------------------------------------------------------------------------------
// stderr parsing
// ------------------------------------------------------------------------------------------------

#[derive(Clone, Debug, Default)]
struct Segment {
    /// schedule strings found between the `failing schedule:` quote lines (Err = malformed block)
    schedules: Vec<Result<String, String>>,
    persisted_paths: Vec<String>,
    /// number of lines ending in `failing schedule:` (robust against interleaved output of OS threads)
    marker_lines: usize,
}

struct StderrParse {
    segs: Vec<Segment>,
    outside: Segment,
    /// run whose BEGIN marker has no END marker (the child died inside it)
    open_run: Option<usize>,
}

fn parse_stderr(stderr: &str, n_runs: usize) -> StderrParse {
    let lines: Vec<&str> = stderr.lines().collect();
    let mut segs = vec![Segment::default(); n_runs];
    let mut outside = Segment::default();
    let mut cur: Option<usize> = None;
    let mut i = 0;
    while i < lines.len() {
        let l = lines[i];
        if let Some(rest) = l.strip_prefix(BEGIN) {
            cur = rest.trim().parse::<usize>().ok().filter(|k| *k < n_runs);
        } else if l.starts_with(END) {
            cur = None;
        } else {
            let seg = match cur {
                Some(k) => &mut segs[k],
                None => &mut outside,
            };
            if l.ends_with("failing schedule:") {
                seg.marker_lines += 1;
            }
            if l == "failing schedule:" {
                if i + 3 < lines.len() && lines[i + 1] == "\"" && lines[i + 3] == "\"" {
                    seg.schedules.push(Ok(lines[i + 2].to_string()));
                    i += 3;
                } else {
                    seg.schedules.push(Err("malformed `failing schedule:` block".to_string()));
                }
            } else if let Some(p) = l.strip_prefix("failing schedule persisted to file: ") {
                seg.persisted_paths.push(p.to_string());
            }
        }
        i += 1;
    }
    StderrParse {
        segs,
        outside,
        open_run: cur,
    }
}

// ------------------------------------------------------------------------------------------------
// symptoms
// ------------------------------------------------------------------------------------------------

/// One way in which a failing run departs from the property statement. Directory references are run
/// indices of the history (every run owns directory `dirs[its index]`).
#[derive(Clone, Debug, PartialEq, Eq, Hash, PartialOrd, Ord)]
enum Sym {
    Aborted(String),
    NotSurfaced,
    Payload(String),
    NothingEmitted,
    PrintedAlthoughNone,
    FileAlthoughNone(usize),
    FileInsteadOfStderr(usize),
    AlsoFile(usize),
    StderrInsteadOfFile,
    AlsoStderr,
    WrongDir(usize),
    AlsoWrongDir(usize),
    BadFileName(String),
    Overwrote,
    Malformed,
    ReplayDiffers(&'static str),
}

impl Sym {
    /// index-free class, used to compare violations of different histories
    fn class(&self) -> String {
        match self {
            Sym::Aborted(_) => "aborted".into(),
            Sym::NotSurfaced => "not-surfaced".into(),
            Sym::Payload(s) => format!("payload:{}", s),
            Sym::NothingEmitted => "nothing-emitted".into(),
            Sym::PrintedAlthoughNone => "printed-although-none".into(),
            Sym::FileAlthoughNone(_) => "file-although-none".into(),
            Sym::FileInsteadOfStderr(_) => "file-instead-of-stderr".into(),
            Sym::AlsoFile(_) => "also-file".into(),
            Sym::StderrInsteadOfFile => "stderr-instead-of-file".into(),
            Sym::AlsoStderr => "also-stderr".into(),
            Sym::WrongDir(_) => "wrong-dir".into(),
            Sym::AlsoWrongDir(_) => "also-wrong-dir".into(),
            Sym::BadFileName(_) => "bad-file-name".into(),
            Sym::Overwrote => "overwrote".into(),
            Sym::Malformed => "malformed".into(),
            Sym::ReplayDiffers(c) => format!("replay-differs:{}", c),
        }
    }
    /// text for keys / reports; `dn` names a directory by its owner run index
    fn text(&self, dn: &dyn Fn(usize) -> String) -> String {
        match self {
            Sym::Aborted(s) => format!("the process died ({}) instead of the failure surfacing", s),
            Sym::NotSurfaced => "run returned normally, failure not surfaced".into(),
            Sym::Payload(s) => s.clone(),
            Sym::NothingEmitted => "nothing emitted".into(),
            Sym::PrintedAlthoughNone => "schedule printed to stderr although persistence is None".into(),
            Sym::FileAlthoughNone(d) => format!("schedule file written to {} although persistence is None", dn(*d)),
            Sym::FileInsteadOfStderr(d) => format!("written to a file in {} instead of stderr", dn(*d)),
            Sym::AlsoFile(d) => format!("printed, and also written to a file in {}", dn(*d)),
            Sym::StderrInsteadOfFile => "printed to stderr instead of a file in the run's directory".into(),
            Sym::AlsoStderr => "file written, and also printed to stderr".into(),
            Sym::WrongDir(d) => format!("written to {}", dn(*d)),
            Sym::AlsoWrongDir(d) => format!("file written, and also written to {}", dn(*d)),
            Sym::BadFileName(s) => format!("file name {:?} is not scheduleNNN.txt", s),
            Sym::Overwrote => "an existing schedule file was modified".into(),
            Sym::Malformed => "emitted block is not parseable".into(),
            Sym::ReplayDiffers(c) => format!("replaying the emitted schedule {}", c),
        }
    }
}

// ------------------------------------------------------------------------------------------------
// running and judging one history
// ------------------------------------------------------------------------------------------------

#[derive(Clone, Debug)]
struct Emitted {
    from_file: bool,
    /// owner run index of the directory the file is in (files only)
    dir: Option<usize>,
    /// path (files) or the string (stderr)
    value: String,
    content: String,
}

#[derive(Clone, Debug)]
struct RunJudgement {
    /// None = not a failing run (nothing to judge)
    judged: bool,
    syms: Vec<Sym>,
    emitted: Vec<Emitted>,
    replays: Vec<Outcome>,
    /// schedules emitted in the configured way / of those, how many replay to the same failure
    in_place: usize,
    in_place_ok: usize,
}

struct HistoryResult {
    runs: Vec<RunSpec>,
    obs: Option<HistoryObs>,
    judgements: Vec<RunJudgement>,
    stderr_schedules: Vec<usize>,
    stderr_marker_lines: Vec<usize>,
    machinery: Vec<String>,
    replay_children: usize,
    replay_memo_hits: usize,
}

fn must_fail(r: &RunSpec) -> bool {
    match r.kind {
        Kind::Pass | Kind::Order => false,
        Kind::DeadlockCycle => matches!(r.sched, Sched::RR | Sched::Replay(_)),
        _ => true,
    }
}

fn valid_name(name: &str) -> bool {
    name.len() >= 15
        && name.starts_with("schedule")
        && name.ends_with(".txt")
        && name["schedule".len()..name.len() - 4].chars().all(|c| c.is_ascii_digit())
}

type ReplayMemo = Mutex<HashMap<(Kind, bool, String), Outcome>>;

struct Env {
    scratch: PathBuf,
    memo: Option<ReplayMemo>,
}

fn do_replay(env: &Env, z: &mut Zygote, kind: Kind, e: &Emitted, hr: &mut HistoryResult) -> Option<Outcome> {
    let mk = (kind, e.from_file, e.content.clone());
    if let Some(m) = &env.memo {
        if let Some(o) = m.lock().unwrap().get(&mk) {
            hr.replay_memo_hits += 1;
            return Some(o.clone());
        }
    }
    let spec = ReplaySpec {
        kind,
        from_file: e.from_file,
        value: e.value.clone(),
    };
    hr.replay_children += 1;
    let out = match z.run("child-replay", &serde_json::to_string(&spec).unwrap()) {
        Ok(o) => o,
        Err(m) => {
            hr.machinery.push(m);
            return None;
        }
    };
    if out.timed_out {
        hr.machinery.push(format!("replay child timed out: {:?}", spec));
        return None;
    }
    let o = if let Some(ab) = &out.abnormal {
        Outcome::Panic {
            ty: "process-died".into(),
            text: ab.clone(),
        }
    } else {
        match serde_json::from_str::<Outcome>(out.stdout.trim()) {
            Ok(o) => o,
            Err(e) => {
                hr.machinery.push(format!("replay child: bad JSON ({}): {:?}", e, out.stdout));
                return None;
            }
        }
    };
    if let Some(m) = &env.memo {
        m.lock().unwrap().insert(mk, o.clone());
    }
    Some(o)
}

fn run_and_judge(env: &Env, z: &mut Zygote, job: usize, runs: &[RunSpec]) -> HistoryResult {
    let mut hr = HistoryResult {
        runs: runs.to_vec(),
        obs: None,
        judgements: Vec::new(),
        stderr_schedules: Vec::new(),
        stderr_marker_lines: Vec::new(),
        machinery: Vec::new(),
        replay_children: 0,
        replay_memo_hits: 0,
    };
    let hdir = env.scratch.join(format!("h{}", job));
    let mut dirs = Vec::new();
    for i in 0..runs.len() {
        let d = hdir.join(format!("d{}", i));
        if let Err(e) = std::fs::create_dir_all(&d) {
            hr.machinery.push(format!("cannot create {}: {}", d.display(), e));
            return hr;
        }
        dirs.push(d.to_string_lossy().to_string());
    }
    let spec = HistorySpec {
        runs: runs.to_vec(),
        dirs: dirs.clone(),
    };
    judge_history(env, z, &spec, &mut hr);
    let _ = std::fs::remove_dir_all(&hdir);
    hr
}

fn list_dir(d: &str) -> BTreeMap<String, String> {
    let mut m = BTreeMap::new();
    if let Ok(rd) = std::fs::read_dir(d) {
        for e in rd.flatten() {
            m.insert(
                e.file_name().to_string_lossy().to_string(),
                std::fs::read_to_string(e.path()).unwrap_or_else(|_| "<unreadable>".into()),
            );
        }
    }
    m
}

fn judge_history(env: &Env, z: &mut Zygote, spec: &HistorySpec, hr: &mut HistoryResult) {
    let n = spec.runs.len();
    let out = match z.run("child-history", &serde_json::to_string(spec).unwrap()) {
        Ok(o) => o,
        Err(m) => {
            hr.machinery.push(m);
            return;
        }
    };
    if out.timed_out {
        hr.machinery.push(format!("history child timed out: {}", shape_plain(&spec.runs)));
        return;
    }
    let parsed = parse_stderr(&out.stderr, n);
    hr.stderr_schedules = parsed.segs.iter().map(|s| s.schedules.len()).collect();
    hr.stderr_marker_lines = parsed.segs.iter().map(|s| s.marker_lines).collect();
    if !parsed.outside.schedules.is_empty() {
        hr.machinery.push(format!(
            "schedule printed outside any run's markers: {}",
            shape_plain(&spec.runs)
        ));
    }
    if let Some(ab) = &out.abnormal {
        // the child died: a property-relevant event only if it died by a signal inside a run
        match parsed.open_run {
            Some(k) if ab.starts_with("killed by signal") => {
                for i in 0..n {
                    hr.judgements.push(RunJudgement {
                        judged: i == k,
                        syms: if i == k { vec![Sym::Aborted(ab.clone())] } else { vec![] },
                        emitted: vec![],
                        replays: vec![],
                        in_place: 0,
                        in_place_ok: 0,
                    });
                }
            }
            _ => hr.machinery.push(format!(
                "history child failed ({}) outside a run: {} :: stderr tail: {:?}",
                ab,
                shape_plain(&spec.runs),
                out.stderr.chars().rev().take(400).collect::<String>().chars().rev().collect::<String>()
            )),
        }
        return;
    }
    let obs: HistoryObs = match serde_json::from_str(out.stdout.trim()) {
        Ok(o) => o,
        Err(e) => {
            hr.machinery.push(format!("history child: bad JSON ({})", e));
            return;
        }
    };
    if obs.runs.len() != n {
        hr.machinery.push("history child reported a different number of runs".into());
        return;
    }
    // cross-check the child's last snapshot with what the parent sees on disk
    let on_disk: Vec<BTreeMap<String, String>> = spec.dirs.iter().map(|d| list_dir(d)).collect();
    if n > 0 && on_disk != obs.runs[n - 1].dirs_after {
        hr.machinery.push(format!(
            "directories on disk differ from the child's last snapshot: {}",
            shape_plain(&spec.runs)
        ));
        return;
    }

    let empty: Vec<BTreeMap<String, String>> = vec![BTreeMap::new(); spec.dirs.len()];
    for i in 0..n {
        let r = &spec.runs[i];
        let o = &obs.runs[i];
        let before = if i == 0 { &empty } else { &obs.runs[i - 1].dirs_after };
        let mut new_files: Vec<(usize, String, String)> = Vec::new();
        let mut changed = false;
        for (d, m) in o.dirs_after.iter().enumerate() {
            for (name, content) in m {
                match before[d].get(name) {
                    None => new_files.push((d, name.clone(), content.clone())),
                    Some(c) if c != content => changed = true,
                    _ => {}
                }
            }
            for name in before[d].keys() {
                if !m.contains_key(name) {
                    changed = true;
                }
            }
        }
        let seg = &parsed.segs[i];
        let failed = matches!(o.outcome, Outcome::Panic { .. });
        let mut j = RunJudgement {
            judged: false,
            syms: vec![],
            emitted: vec![],
            replays: vec![],
            in_place: 0,
            in_place_ok: 0,
        };
        let is_pf = r.portfolio.is_some();
        if is_pf {
            // "fails iff a member fails" needs the members' solo verdicts and is decided in
            // `judge_portfolios`; emission and replay of a failing portfolio are judged right here,
            // exactly like a single run's.
            if !failed {
                hr.judgements.push(j);
                continue;
            }
        } else {
            if !failed && !must_fail(r) {
                hr.judgements.push(j);
                continue;
            }
            j.judged = true;
            if !failed {
                j.syms.push(Sym::NotSurfaced);
                hr.judgements.push(j);
                continue;
            }
            if let Some(m) = bodies::payload_mismatch(r.kind, &o.outcome) {
                j.syms.push(Sym::Payload(m));
            }
        }
        let n_err = seg.schedules.len();
        if seg.schedules.iter().any(|s| s.is_err()) {
            j.syms.push(Sym::Malformed);
        }
        let pers = r.pers;
        match pers {
            Pers::None => {
                if n_err > 0 {
                    j.syms.push(Sym::PrintedAlthoughNone);
                }
                if let Some((d, _, _)) = new_files.first() {
                    j.syms.push(Sym::FileAlthoughNone(*d));
                }
            }
            Pers::Print => {
                if n_err == 0 {
                    match new_files.first() {
                        None => j.syms.push(Sym::NothingEmitted),
                        Some((d, _, _)) => j.syms.push(Sym::FileInsteadOfStderr(*d)),
                    }
                } else {
                    if let Some((d, _, _)) = new_files.first() {
                        j.syms.push(Sym::AlsoFile(*d));
                    }
                }
            }
            Pers::File(own) => {
                let mine: Vec<&(usize, String, String)> = new_files.iter().filter(|f| f.0 == own).collect();
                let other = new_files.iter().find(|f| f.0 != own);
                if mine.is_empty() {
                    if let Some((d, _, _)) = other {
                        j.syms.push(Sym::WrongDir(*d));
                    } else if n_err > 0 {
                        j.syms.push(Sym::StderrInsteadOfFile);
                    } else {
                        j.syms.push(Sym::NothingEmitted);
                    }
                } else {
                    for f in &mine {
                        if !valid_name(&f.1) {
                            j.syms.push(Sym::BadFileName(f.1.clone()));
                        }
                    }
                    if let Some((d, _, _)) = other {
                        j.syms.push(Sym::AlsoWrongDir(*d));
                    }
                    if n_err > 0 {
                        j.syms.push(Sym::AlsoStderr);
                    }
                }
            }
        }
        if changed {
            j.syms.push(Sym::Overwrote);
        }
        // Replay everything this run emitted, wherever it went. The statement asks for "a schedule …
        // and replaying it reproduces the same failure": the run conforms if at least one schedule
        // emitted in the configured way does; several emissions for one failure are allowed (and counted).
        j.emitted = collect_emitted(spec, seg, &new_files);
        // a portfolio re-raises some member's payload (or trips its own assertion); what a replay must
        // reproduce is the member's failure, i.e. the body's own payload
        let expect = if is_pf {
            Outcome::Panic {
                ty: "&str".into(),
                text: bodies::ORDER_TEXT.to_string(),
            }
        } else {
            o.outcome.clone()
        };
        let mut in_place = 0usize;
        let mut in_place_ok = 0usize;
        let mut worst: Option<&'static str> = None;
        for e in j.emitted.clone() {
            let placed = match pers {
                Pers::None => false,
                Pers::Print => !e.from_file,
                Pers::File(own) => e.dir == Some(own),
            };
            match do_replay(env, z, r.kind, &e, hr) {
                Some(ro) => {
                    if placed {
                        in_place += 1;
                        if ro == expect {
                            in_place_ok += 1;
                        } else {
                            worst = Some(match &ro {
                                Outcome::Ok(_) => "passes instead of reproducing the failure",
                                Outcome::Panic { ty, .. } if ty == "process-died" => "kills the process",
                                Outcome::Panic { .. } => "fails differently",
                            });
                        }
                    }
                    j.replays.push(ro);
                }
                None => j.replays.push(Outcome::Panic {
                    ty: "replay-not-run".into(),
                    text: String::new(),
                }),
            }
        }
        if in_place > 0 && in_place_ok == 0 {
            j.syms.push(Sym::ReplayDiffers(worst.unwrap_or("fails differently")));
        }
        j.in_place = in_place;
        j.in_place_ok = in_place_ok;
        j.syms.sort();
        j.syms.dedup();
        hr.judgements.push(j);
    }
    hr.obs = Some(obs);
}

fn collect_emitted(spec: &HistorySpec, seg: &Segment, new_files: &[(usize, String, String)]) -> Vec<Emitted> {
    let mut v = Vec::new();
    for s in seg.schedules.iter().flatten() {
        v.push(Emitted {
            from_file: false,
            dir: None,
            value: s.clone(),
            content: s.clone(),
        });
    }
    for (d, name, content) in new_files {
        v.push(Emitted {
            from_file: true,
            dir: Some(*d),
            value: Path::new(&spec.dirs[*d]).join(name).to_string_lossy().to_string(),
            content: content.clone(),
        });
    }
    v
}

// ------------------------------------------------------------------------------------------------
// shapes and keys
// ------------------------------------------------------------------------------------------------

fn pers_plain(p: Pers) -> String {
    match p {
        Pers::None => "None".into(),
        Pers::Print => "Print".into(),
        Pers::File(i) => format!("File(dir{})", i),
    }
}

/// full description of a history (for messages and samples, not for keys)
fn shape_plain(runs: &[RunSpec]) -> String {
    runs.iter()
        .map(|r| {
            let mut s = match &r.portfolio {
                Some(p) => format!(
                    "portfolio[{};stop_on_first_failure={}]",
                    p.members.iter().map(|m| m.name()).collect::<Vec<_>>().join(","),
                    p.stop_on_first_failure
                ),
                None => format!("{:?}/{}", r.kind, r.sched.name()),
            };
            s.push_str(&format!("/{}", pers_plain(r.pers)));
            if r.other_thread {
                s.push_str("@other-thread");
            }
            s
        })
        .collect::<Vec<_>>()
        .join(" → ")
}

/// Directory names d1, d2, … in order of first use by the runs `0..=pos`.
fn dir_names(runs: &[RunSpec], pos: usize) -> BTreeMap<usize, String> {
    let mut m = BTreeMap::new();
    for r in &runs[..=pos] {
        if let Pers::File(d) = r.pers {
            let k = m.len() + 1;
            m.entry(d).or_insert_with(|| format!("d{}", k));
        }
    }
    m
}

fn pers_named(p: Pers, names: &BTreeMap<usize, String>) -> String {
    match p {
        Pers::None => "None".into(),
        Pers::Print => "Print".into(),
        Pers::File(d) => format!("File({})", names.get(&d).cloned().unwrap_or_else(|| "d?".into())),
    }
}

/// The shape of the history up to and including run `pos`, as used in finding keys: persistence of
/// every run, pass/fail of the earlier runs, whether an earlier failing run's schedule has the same
/// length as the judged run's, the failure class of the judged run, and the thread variant.
fn shape_key(runs: &[RunSpec], obs: Option<&HistoryObs>, pos: usize) -> String {
    let names = dir_names(runs, pos);
    let mut parts = Vec::new();
    for k in 0..pos {
        let r = &runs[k];
        let failed = obs
            .map(|o| matches!(o.runs[k].outcome, Outcome::Panic { .. }))
            .unwrap_or(r.kind != Kind::Pass);
        if failed {
            let rel = match obs {
                Some(o) if r.portfolio.is_none() && runs[pos].portfolio.is_none() => {
                    if o.runs[k].sched_len == o.runs[pos].sched_len {
                        ",same-len"
                    } else {
                        ",diff-len"
                    }
                }
                _ => "",
            };
            parts.push(format!("fail({}{})", pers_named(r.pers, &names), rel));
        } else {
            parts.push(format!("pass({})", pers_named(r.pers, &names)));
        }
    }
    let r = &runs[pos];
    let mut last = format!("{}[{}]", pers_named(r.pers, &names), r.kind.class());
    if r.other_thread {
        last.push_str("@other-thread");
    }
    parts.push(last);
    parts.join("→")
}

// ------------------------------------------------------------------------------------------------
// violations and their minimisation
// ------------------------------------------------------------------------------------------------

#[derive(Clone, Debug)]
struct Elem {
    failed: bool,
    mode: &'static str,
    kind: Kind,
    sched: Sched,
}

#[derive(Clone, Debug)]
struct Viol {
    job: usize,
    pos: usize,
    elems: Vec<Elem>,
    /// (kind, mode, sched) of the judged run
    fin: (Kind, &'static str, Sched),
    other: bool,
    sym: Sym,
    key: String,
    what: String,
}

fn elem_le(small: &Elem, big: &Elem) -> bool {
    if small.mode != big.mode {
        return false;
    }
    if small.failed == big.failed && small.kind == big.kind && small.sched == big.sched {
        return true;
    }
    // a passing run of the plain passing body is "simpler" than any failing run with the same persistence
    !small.failed && small.kind == Kind::Pass && big.failed
}

/// does `small` embed into `big` as a subsequence (element-wise `elem_le`)?
fn embeds(small: &[Elem], big: &[Elem]) -> bool {
    if small.is_empty() {
        return true;
    }
    if big.len() < small.len() {
        return false;
    }
    // try to match small[0] with big[k] for every k
    for k in 0..=(big.len() - small.len()) {
        if elem_le(&small[0], &big[k]) && embeds(&small[1..], &big[k + 1..]) {
            return true;
        }
    }
    false
}

fn size(v: &Viol) -> (usize, usize, usize) {
    (
        v.elems.len(),
        v.elems.iter().filter(|e| e.failed).count(),
        v.other as usize,
    )
}

/// `a` is strictly simpler than `b` and shows the same symptom for the same judged run.
fn subsumes(a: &Viol, b: &Viol) -> bool {
    if a.fin != b.fin || a.sym.class() != b.sym.class() {
        return false;
    }
    let (sa, sb) = (size(a), size(b));
    if !(sa.0 <= sb.0 && sa.1 <= sb.1 && sa.2 <= sb.2) || sa == sb {
        return false;
    }
    embeds(&a.elems, &b.elems)
}

// ------------------------------------------------------------------------------------------------
// enumeration
// ------------------------------------------------------------------------------------------------

fn run(kind: Kind, pers: Pers, sched: &Sched) -> RunSpec {
    RunSpec {
        kind,
        pers,
        sched: sched.clone(),
        other_thread: false,
        portfolio: None,
    }
}

const MODES: [&str; 3] = ["None", "Print", "File"];

fn mode_pers(mode: &str, own: usize) -> Pers {
    match mode {
        "None" => Pers::None,
        "Print" => Pers::Print,
        _ => Pers::File(own),
    }
}

/// All histories `earlier* ; final` with exactly `n_earlier` earlier runs drawn from `alphabet(final
/// kind)` × modes, final ∈ `finals` × modes, every run under scheduler `sched`; same-thread and
/// (if `other`) last-run-on-another-OS-thread variants.
fn family(
    jobs: &mut Vec<Vec<RunSpec>>,
    finals: &[Kind],
    alphabet: &dyn Fn(Kind) -> Vec<Kind>,
    n_earlier: usize,
    sched: &Sched,
    final_sched: Option<&dyn Fn(Kind) -> Option<Sched>>,
    other: bool,
) {
    for &fk in finals {
        let fsched = match final_sched {
            Some(f) => match f(fk) {
                Some(s) => s,
                None => continue,
            },
            None => sched.clone(),
        };
        let alpha: Vec<(Kind, &str)> = alphabet(fk)
            .into_iter()
            .flat_map(|k| MODES.iter().map(move |m| (k, *m)))
            .collect();
        let mut idx = vec![0usize; n_earlier];
        loop {
            for fm in MODES {
                for oth in [false, true] {
                    if oth && !other {
                        continue;
                    }
                    let mut h = Vec::new();
                    for (p, &a) in idx.iter().enumerate() {
                        let (k, m) = alpha[a];
                        h.push(run(k, mode_pers(m, p), sched));
                    }
                    let mut f = run(fk, mode_pers(fm, n_earlier), &fsched);
                    f.other_thread = oth;
                    h.push(f);
                    jobs.push(h);
                }
            }
            // next tuple
            let mut p = 0;
            loop {
                if p == n_earlier {
                    break;
                }
                idx[p] += 1;
                if idx[p] < alpha.len() {
                    break;
                }
                idx[p] = 0;
                p += 1;
            }
            if p == n_earlier {
                break;
            }
        }
    }
}

fn representative(fk: Kind) -> Vec<Kind> {
    let mut v = vec![Kind::Pass, Kind::PanicSpawned, Kind::DeadlockNotify];
    if !v.contains(&fk) {
        v.push(fk);
    }
    v
}

fn pass_or_same(fk: Kind) -> Vec<Kind> {
    vec![Kind::Pass, fk]
}

fn full_alphabet(_fk: Kind) -> Vec<Kind> {
    let mut v = vec![Kind::Pass];
    v.extend(Kind::FAILING);
    v
}

fn portfolio_jobs(jobs: &mut Vec<Vec<RunSpec>>, thorough: bool) {
    // Order body: fails under DFS (task 0 keeps running and loads `false`), passes under round-robin.
    // The members' solo verdicts are measured, not assumed (see `judge_portfolios`).
    let combos: [[Sched; 2]; 4] = [
        [Sched::RR, Sched::RR],
        [Sched::Dfs1, Sched::RR],
        [Sched::RR, Sched::Dfs1],
        [Sched::Dfs1, Sched::Dfs1],
    ];
    let mut earlier: Vec<Option<(Kind, &str)>> = vec![None];
    for m in MODES {
        earlier.push(Some((Kind::Pass, m)));
    }
    if thorough {
        for m in MODES {
            earlier.push(Some((Kind::PanicSpawned, m)));
            earlier.push(Some((Kind::DeadlockNotify, m)));
        }
    }
    for e in &earlier {
        for c in &combos {
            for stop in [true, false] {
                for fm in MODES {
                    let mut h = Vec::new();
                    if let Some((k, m)) = e {
                        h.push(run(*k, mode_pers(m, 0), &Sched::RR));
                    }
                    let pos = h.len();
                    let mut r = run(Kind::Order, mode_pers(fm, pos), &Sched::RR);
                    r.portfolio = Some(Portfolio {
                        members: c.to_vec(),
                        stop_on_first_failure: stop,
                    });
                    h.push(r);
                    jobs.push(h);
                }
            }
        }
    }
}

/// Two failing File runs that share ONE directory ("a fresh file in the configured directory").
fn shared_dir_jobs(jobs: &mut Vec<Vec<RunSpec>>) {
    for &a in &Kind::FAILING {
        for &b in &Kind::FAILING {
            for mid in [false, true] {
                let mut h = vec![run(a, Pers::File(0), &Sched::RR)];
                if mid {
                    h.push(run(Kind::Pass, Pers::Print, &Sched::RR));
                }
                h.push(run(b, Pers::File(0), &Sched::RR));
                jobs.push(h);
            }
        }
    }
}

// ------------------------------------------------------------------------------------------------
// the check
// ------------------------------------------------------------------------------------------------

fn scratch_base() -> PathBuf {
    PathBuf::from(std::env::var("VX_C12_SCRATCH").unwrap_or_else(|_| "/tmp/builder-c12".to_string()))
}

fn scratch_dir() -> PathBuf {
    scratch_base().join(format!("run-{}", std::process::id()))
}

fn run_jobs(
    env: &Arc<Env>,
    jobs: &Arc<Vec<Vec<RunSpec>>>,
    deadline: Option<Instant>,
    pool_errors: &mut Vec<String>,
) -> (Vec<Option<HistoryResult>>, bool) {
    let errs: Arc<Mutex<Vec<String>>> = Arc::new(Mutex::new(Vec::new()));
    let next = Arc::new(AtomicUsize::new(0));
    let capped = Arc::new(AtomicBool::new(false));
    let results: Arc<Mutex<Vec<Option<HistoryResult>>>> = Arc::new(Mutex::new((0..jobs.len()).map(|_| None).collect()));
    let mut hs = Vec::new();
    for w in 0..WORKERS.min(jobs.len().max(1)) {
        let (env, jobs, next, results, capped, errs) =
            (env.clone(), jobs.clone(), next.clone(), results.clone(), capped.clone(), errs.clone());
        hs.push(std::thread::spawn(move || {
            let mut z = match Zygote::spawn(&env.scratch, w) {
                Ok(z) => z,
                Err(e) => {
                    errs.lock().unwrap().push(e);
                    return;
                }
            };
            loop {
                let i = next.fetch_add(1, Ordering::SeqCst);
                if i >= jobs.len() {
                    break;
                }
                if let Some(d) = deadline {
                    if Instant::now() > d {
                        capped.store(true, Ordering::SeqCst);
                        break;
                    }
                }
                let r = run_and_judge(&env, &mut z, i, &jobs[i]);
                let dead = r.machinery.iter().any(|m| m.contains("zygote"));
                results.lock().unwrap()[i] = Some(r);
                if dead {
                    // the zygote itself is gone: start a new one (the error is already recorded)
                    match Zygote::spawn(&env.scratch, w) {
                        Ok(nz) => z = nz,
                        Err(e) => {
                            errs.lock().unwrap().push(e);
                            return;
                        }
                    }
                }
            }
        }));
    }
    for h in hs {
        let _ = h.join();
    }
    pool_errors.extend(errs.lock().unwrap().drain(..));
    let r = std::mem::take(&mut *results.lock().unwrap());
    (r, capped.load(Ordering::SeqCst))
}

/// Schedules of the failing kinds under round-robin, obtained from a solo Print run each (used as the
/// input of the Replay-scheduler family).
fn rr_schedules(env: &Arc<Env>, res: &mut CheckResult) -> BTreeMap<Kind, String> {
    let jobs: Vec<Vec<RunSpec>> = Kind::FAILING.iter().map(|k| vec![run(*k, Pers::None, &Sched::RR)]).collect();
    let jobs = Arc::new(jobs);
    let (rs, _) = run_jobs(env, &jobs, None, &mut res.machinery_errors);
    let mut m = BTreeMap::new();
    for (k, r) in Kind::FAILING.iter().zip(rs) {
        match r.and_then(|r| r.obs) {
            Some(o) if matches!(o.runs[0].outcome, Outcome::Panic { .. }) => {
                m.insert(*k, o.runs[0].sched_ser.clone());
            }
            _ => res
                .machinery_errors
                .push(format!("pre-pass: no failing round-robin schedule for {:?}", k)),
        }
    }
    m
}

pub fn check(tier: Tier) -> ! {
    let ctx = CheckCtx::new("C12", tier);
    let mut res = CheckResult::new("fault_enumeration");
    let thorough = tier.is_thorough();
    let scratch = scratch_dir();
    let _ = std::fs::remove_dir_all(&scratch);
    if let Err(e) = std::fs::create_dir_all(&scratch) {
        res.machinery_errors.push(format!("cannot create scratch dir: {}", e));
        vx::common::finish(&ctx, res);
    }
    let env = Arc::new(Env {
        scratch: scratch.clone(),
        memo: Some(Mutex::new(HashMap::new())),
    });

    // ---- enumerate ----
    let rr_sched = rr_schedules(&env, &mut res);
    let mut jobs: Vec<Vec<RunSpec>> = Vec::new();
    let mut families: Vec<(String, usize)> = Vec::new();
    // development aid: VX_C12_FAMILIES=<substring> restricts the run to matching families (the run is
    // then reported as not exhaustive)
    let only = std::env::var("VX_C12_FAMILIES").ok();
    let mut fam = |name: &str, jobs: &mut Vec<Vec<RunSpec>>, f: &dyn Fn(&mut Vec<Vec<RunSpec>>)| {
        if let Some(o) = &only {
            if !name.contains(o.as_str()) {
                return;
            }
        }
        let before = jobs.len();
        f(jobs);
        families.push((name.to_string(), jobs.len() - before));
    };
    let finals: Vec<Kind> = Kind::FAILING.to_vec();
    let rnd = Sched::Random(RANDOM_SEED.wrapping_add(ctx.seed));
    let replay_of = |k: Kind| rr_sched.get(&k).map(|s| Sched::Replay(s.clone()));
    let solo_scheds = [Sched::RR, Sched::Dfs1];
    let is_solo = |runs: &[RunSpec]| runs.len() == 1 && runs[0].kind == Kind::Order && runs[0].portfolio.is_none();
    if !thorough {
        for n in 0..=1 {
            fam(&format!("rr/representative/{}-earlier", n), &mut jobs, &|j| {
                family(j, &finals, &representative, n, &Sched::RR, None, true)
            });
        }
        fam("shared-directory", &mut jobs, &|j| shared_dir_jobs(j));
        // solo runs of the portfolio members (their verdicts define what the portfolio must do)
        fam("portfolio-member-solo", &mut jobs, &|j| {
            for s in &solo_scheds {
                j.push(vec![run(Kind::Order, Pers::None, s)]);
            }
        });
        fam("portfolio", &mut jobs, &|j| portfolio_jobs(j, thorough));
        for n in 0..=1 {
            fam(&format!("dfs1/representative/{}-earlier/same-thread", n), &mut jobs, &|j| {
                family(j, &finals, &representative, n, &Sched::Dfs1, None, false)
            });
            fam(&format!("random/representative/{}-earlier/same-thread", n), &mut jobs, &|j| {
                family(j, &finals, &representative, n, &rnd, None, false)
            });
            fam(&format!("rr-then-replay/representative/{}-earlier/same-thread", n), &mut jobs, &|j| {
                family(j, &finals, &representative, n, &Sched::RR, Some(&replay_of), false)
            });
        }
        fam("rr/pass-or-same-kind/2-earlier/same-thread", &mut jobs, &|j| {
            family(j, &finals, &pass_or_same, 2, &Sched::RR, None, false)
        });
    } else {
        for n in 0..=1 {
            fam(&format!("rr/all-kinds/{}-earlier", n), &mut jobs, &|j| {
                family(j, &finals, &full_alphabet, n, &Sched::RR, None, true)
            });
        }
        fam("shared-directory", &mut jobs, &|j| shared_dir_jobs(j));
        // solo runs of the portfolio members (their verdicts define what the portfolio must do)
        fam("portfolio-member-solo", &mut jobs, &|j| {
            for s in &solo_scheds {
                j.push(vec![run(Kind::Order, Pers::None, s)]);
            }
        });
        fam("portfolio", &mut jobs, &|j| portfolio_jobs(j, thorough));
        fam("rr/all-kinds/2-earlier", &mut jobs, &|j| {
            family(j, &finals, &full_alphabet, 2, &Sched::RR, None, true)
        });
        for n in 0..=2 {
            fam(&format!("dfs1/representative/{}-earlier", n), &mut jobs, &|j| {
                family(j, &finals, &representative, n, &Sched::Dfs1, None, n < 2)
            });
            fam(&format!("random/representative/{}-earlier", n), &mut jobs, &|j| {
                family(j, &finals, &representative, n, &rnd, None, n < 2)
            });
        }
        for n in 0..=1 {
            fam(&format!("rr-then-replay/all-kinds/{}-earlier", n), &mut jobs, &|j| {
                family(j, &finals, &full_alphabet, n, &Sched::RR, Some(&replay_of), true)
            });
        }
        // longest histories last: 3 earlier runs, representative subset, same thread
        fam("rr/representative/3-earlier/same-thread", &mut jobs, &|j| {
            family(j, &finals, &representative, 3, &Sched::RR, None, false)
        });
    }
    // ---- run ----
    let budget = if thorough { Duration::from_secs(22 * 60) } else { Duration::from_secs(30) };
    let deadline = ctx.start + budget;
    let jobs = Arc::new(jobs);
    let (results, capped) = run_jobs(&env, &jobs, Some(deadline), &mut res.machinery_errors);

    // ---- aggregate ----
    let mut evaluations = 0u64;
    let mut replay_children = 0u64;
    let mut memo_hits = 0u64;
    let mut judged_runs = 0u64;
    let mut failing_runs_ok = 0u64;
    let mut viols: Vec<Viol> = Vec::new();
    let mut classes: BTreeMap<(String, String), u64> = BTreeMap::new();
    let mut outcome_kinds: BTreeSet<String> = BTreeSet::new();
    let mut emitted_total = 0u64;
    let mut replays_ok = 0u64;
    let mut solo: BTreeMap<Sched, bool> = BTreeMap::new();
    for (ji, r) in results.iter().enumerate() {
        let r = match r {
            Some(r) => r,
            None => continue,
        };
        evaluations += 1;
        replay_children += r.replay_children as u64;
        memo_hits += r.replay_memo_hits as u64;
        for m in &r.machinery {
            res.machinery_errors.push(m.clone());
        }
        if is_solo(&r.runs) {
            if let Some(o) = &r.obs {
                solo.insert(
                    r.runs[0].sched.clone(),
                    matches!(o.runs[0].outcome, Outcome::Panic { .. }),
                );
            }
            continue;
        }
        for (pos, j) in r.judgements.iter().enumerate() {
            if r.runs[pos].portfolio.is_some() {
                continue;
            }
            if let Some(o) = &r.obs {
                outcome_kinds.insert(o.runs[pos].outcome.short());
            }
            if !j.judged {
                continue;
            }
            judged_runs += 1;
            emitted_total += j.emitted.len() as u64;
            let shape = shape_key(&r.runs, r.obs.as_ref(), pos);
            let outcome = if j.syms.is_empty() {
                failing_runs_ok += 1;
                "ok".to_string()
            } else {
                let names = dir_names(&r.runs, pos);
                let dn = |d: usize| names.get(&d).cloned().unwrap_or_else(|| format!("dir{}", d));
                j.syms.iter().map(|s| s.text(&dn)).collect::<Vec<_>>().join("; ")
            };
            replays_ok += j
                .replays
                .iter()
                .filter(|ro| r.obs.as_ref().map(|o| o.runs[pos].outcome == **ro).unwrap_or(false))
                .count() as u64;
            *classes.entry((shape.clone(), outcome)).or_insert(0) += 1;
            for s in &j.syms {
                let names = dir_names(&r.runs, pos);
                let dn = |d: usize| names.get(&d).cloned().unwrap_or_else(|| format!("dir{}", d));
                let elems = (0..pos)
                    .map(|k| Elem {
                        failed: r
                            .obs
                            .as_ref()
                            .map(|o| matches!(o.runs[k].outcome, Outcome::Panic { .. }))
                            .unwrap_or(r.runs[k].kind != Kind::Pass),
                        mode: r.runs[k].pers.mode(),
                        kind: r.runs[k].kind,
                        sched: r.runs[k].sched.clone(),
                    })
                    .collect();
                let prefix = if pos == 0 { "single run" } else { "history" };
                let key = format!("C12 {} {}: {}", prefix, shape, s.text(&dn));
                let what = format!(
                    "run #{} of [{}] ({:?}, persistence {}): {}; run returned {}; schedules on stderr in that run: {}",
                    pos,
                    shape_plain(&r.runs[..=pos]),
                    r.runs[pos].kind,
                    pers_plain(r.runs[pos].pers),
                    s.text(&dn),
                    r.obs.as_ref().map(|o| o.runs[pos].outcome.short()).unwrap_or_else(|| "-".into()),
                    r.stderr_schedules.get(pos).cloned().unwrap_or(0),
                );
                viols.push(Viol {
                    job: ji,
                    pos,
                    elems,
                    fin: (r.runs[pos].kind, r.runs[pos].pers.mode(), r.runs[pos].sched.clone()),
                    other: r.runs[pos].other_thread,
                    sym: s.clone(),
                    key,
                    what,
                });
            }
        }
    }

    // the same (prefix, judged run) occurs in many histories: keep one violation per distinct prefix
    let mut seen: BTreeSet<String> = BTreeSet::new();
    let mut uniq: Vec<Viol> = Vec::new();
    for v in viols {
        let r = results[v.job].as_ref().unwrap();
        let id = format!("{}|{}", shape_plain(&r.runs[..=v.pos]), v.sym.class());
        if seen.insert(id) {
            uniq.push(v);
        }
    }
    let n_viol_contexts = uniq.len();
    // minimise: report a violation only if no strictly simpler history shows the same symptom for the same run
    let mut groups: BTreeMap<String, Vec<usize>> = BTreeMap::new();
    for (i, v) in uniq.iter().enumerate() {
        groups
            .entry(format!("{:?}|{}", v.fin, v.sym.class()))
            .or_default()
            .push(i);
    }
    let mut minimal: Vec<usize> = Vec::new();
    for g in groups.values() {
        for &i in g {
            if !g.iter().any(|&k| k != i && subsumes(&uniq[k], &uniq[i])) {
                minimal.push(i);
            }
        }
    }
    minimal.sort();
    for &i in &minimal {
        let v = &uniq[i];
        let r = results[v.job].as_ref().unwrap();
        res.finding(
            v.key.clone(),
            v.what.clone(),
            json!({"history": r.runs[..=v.pos].to_vec(), "judged_run": v.pos, "symptom": v.sym.class()}),
        );
    }

    // ---- portfolios ----
    let (pf_runs, pf_classes) = judge_portfolios(&results, &solo, capped, &mut res);

    // ---- coverage ----
    let mut distinct_nontrivial = classes.len() as u64 + pf_classes;
    if evaluations == 0 {
        distinct_nontrivial = 0;
    }
    res.cov("evaluations", evaluations);
    res.cov("distinct_nontrivial", distinct_nontrivial);
    res.cov(
        "rule",
        "one evaluation = one history (sequence of <= 4 configured Shuttle runs; the last one optionally on another OS thread) executed in a fresh child process; \
         histories = every tuple of earlier runs drawn from (body kind x persistence {None,Print,File(own dir)}) followed by every failing kind x persistence, per family listed in `families`; \
         every failing run of every history is judged (payload, stderr between markers, per-run directory snapshots, replay of everything emitted in another fresh child); \
         distinct_nontrivial = distinct (history shape, outcome) classes, shape = pass/fail + persistence of the earlier runs, same/different schedule length, failure class and thread variant of the judged run, outcome = ok or the set of symptoms",
    );
    res.cov("families", json!(families.iter().map(|(n, c)| json!({"family": n, "histories": c})).collect::<Vec<_>>()));
    res.cov("failing_runs_judged", judged_runs);
    res.cov("failing_runs_conforming", failing_runs_ok);
    res.cov("violating_contexts", n_viol_contexts as u64);
    res.cov("minimal_violating_shapes", minimal.len() as u64);
    res.cov("schedules_emitted", emitted_total);
    res.cov("replay_children", replay_children);
    res.cov("replays_memoised", memo_hits);
    res.cov("replays_reproducing", replays_ok);
    res.cov("portfolio_runs_judged", pf_runs);
    res.cov("distinct_run_outcomes", outcome_kinds.len() as u64);
    res.cov("workers", WORKERS as u64);
    res.cov("forked_children", CHILD_JOBS.load(Ordering::Relaxed));
    res.cov(
        "mean_child_ms",
        CHILD_BUSY_US.load(Ordering::Relaxed) as f64 / 1000.0 / (CHILD_JOBS.load(Ordering::Relaxed).max(1) as f64),
    );
    res.cov(
        "exhaustive",
        !capped && res.machinery_errors.is_empty() && std::env::var("VX_C12_FAMILIES").is_err(),
    );
    if capped {
        res.cov("cap", format!("wall-clock budget of {} s hit; histories not run: {}", budget.as_secs(), jobs.len() as u64 - evaluations));
    }
    // samples: the longest judged histories available, alternating conforming / violating last runs
    let mut shown = 0;
    for want_len in (1..=4).rev() {
        for r in results.iter().flatten() {
            if shown >= 4 {
                break;
            }
            let n = r.runs.len();
            if n != want_len || r.judgements.len() != n || !r.judgements[n - 1].judged {
                continue;
            }
            if (shown % 2 == 0) != r.judgements[n - 1].syms.is_empty() {
                continue;
            }
            if let Some(o) = &r.obs {
                res.sample(json!({
                    "history": shape_plain(&r.runs),
                    "returned": o.runs.iter().map(|x| x.outcome.short()).collect::<Vec<_>>(),
                    "schedule_lengths": o.runs.iter().map(|x| x.sched_len).collect::<Vec<_>>(),
                    "schedules_on_stderr_per_run": r.stderr_schedules,
                    "files_after_last_run": o.runs[n - 1].dirs_after.iter().map(|m| m.keys().cloned().collect::<Vec<_>>()).collect::<Vec<_>>(),
                    "symptoms_last_run": r.judgements[n - 1].syms.iter().map(|s| s.class()).collect::<Vec<_>>(),
                    "emitted_last_run": r.judgements[n - 1].emitted.iter().map(|e| e.content.clone()).collect::<Vec<_>>(),
                    "replays_last_run": r.judgements[n - 1].replays.iter().map(|x| x.short()).collect::<Vec<_>>(),
                }));
                shown += 1;
            }
        }
    }
    res.assumptions.push("Replay of a step-bound failure configures the same FailAfter bound on the replaying Runner (shuttle::replay uses the default 1_000_000 bound, under which the short schedule cannot end in that failure); all other kinds are replayed with shuttle::replay / shuttle::replay_from_file exactly as the emitted message says.".into());
    res.assumptions.push("'A message naming the condition' is decided as: String/&str payload containing \"deadlock\" resp. \"max_steps bound <N>\". 'Reproduces the same failure' = the replay run unwinds with a payload of the same type and the same text (for deadlocks the same blocked-task list).".into());
    res.assumptions.push("Emission is attributed to a run by marker lines the child writes to stderr around every run and by directory snapshots taken after every run; every run of a history owns its own directory unless the family is `shared-directory`.".into());
    res.assumptions.push("Quick tier: earlier runs are drawn from the representative subset {passing, panic in a spawned thread, lost-notify deadlock, same kind as the judged run} (two earlier runs: {passing, same kind}). Thorough tier: all kinds for <= 2 earlier runs, representative subset for 3 earlier runs. Replays are memoised per (body, replay-from-string or replay-from-file, schedule text): each distinct triple is replayed once in a fresh process, which is sound because a replay in a fresh process is a function of exactly these inputs.".into());
    res.assumptions.push("PortfolioRunner: members run on OS threads; bodies hold no lock across a scheduling point so that the stop signal cannot hit F11; the portfolio verdict is compared with the members' measured solo verdicts.".into());
    let _ = std::fs::remove_dir_all(&scratch);
    let _ = std::fs::remove_dir(scratch_base());
    vx::common::finish(&ctx, res)
}

/// Portfolio oracle: the run fails iff at least one member fails when run alone (verdicts measured by
/// solo runs of the same body under the same scheduler). Emission / replay of a failing portfolio
/// were judged in `judge_history` with the single-run rules (None: nothing; Print / File: at least
/// one schedule in the configured place, one of which replays to the body's own payload).
fn judge_portfolios(
    results: &[Option<HistoryResult>],
    solo: &BTreeMap<Sched, bool>,
    capped: bool,
    res: &mut CheckResult,
) -> (u64, u64) {
    let mut n = 0u64;
    let mut classes: BTreeSet<(String, String)> = BTreeSet::new();
    let have_pass = solo.values().any(|v| !*v);
    let have_fail = solo.values().any(|v| *v);
    let mut any_pf = false;
    let mut pf_found: Vec<(String, String, Value)> = Vec::new();
    for r in results.iter().flatten() {
        let pos = r.runs.len() - 1;
        let pf = match &r.runs[pos].portfolio {
            Some(p) => p,
            None => continue,
        };
        any_pf = true;
        let names = dir_names(&r.runs, pos);
        let dn = |d: usize| names.get(&d).cloned().unwrap_or_else(|| format!("dir{}", d));
        let obs = match &r.obs {
            Some(o) => o,
            None => {
                // child died inside the portfolio run
                if let Some(j) = r.judgements.get(pos) {
                    for s in &j.syms {
                        res.finding(
                            format!("C12 portfolio: {}", s.text(&dn)),
                            format!("[{}]", shape_plain(&r.runs)),
                            json!({"history": r.runs, "judged_run": pos, "symptom": s.class()}),
                        );
                    }
                }
                continue;
            }
        };
        let mut verdicts = Vec::new();
        for m in &pf.members {
            match solo.get(m) {
                Some(v) => verdicts.push(*v),
                None => {
                    if !capped {
                        res.machinery_errors.push(format!("no solo verdict for member {:?}", m));
                    }
                    // (under a wall-clock cap the solo runs may not have been reached: nothing is judged)
                    return (n, classes.len() as u64);
                }
            }
        }
        n += 1;
        let n_fail = verdicts.iter().filter(|v| **v).count();
        let failed = matches!(obs.runs[pos].outcome, Outcome::Panic { .. });
        let j = &r.judgements[pos];
        let vtxt = verdicts.iter().map(|v| if *v { "fail" } else { "pass" }).collect::<Vec<_>>().join(",");
        let mut found: Vec<(String, String)> = Vec::new();
        if failed != (n_fail > 0) {
            let s = if failed {
                "portfolio fails although no member fails"
            } else {
                "portfolio passes although a member fails"
            };
            found.push((
                format!("C12 portfolio members=[{}] stop_on_first_failure={}: {}", vtxt, pf.stop_on_first_failure, s),
                s.to_string(),
            ));
        }
        let shape = shape_key(&r.runs, Some(obs), pos).replace("[task-panic]", "");
        // Two members failing at the same time print from two OS threads at once; std's default panic
        // hook writes to stderr without taking the lock, so the text of a `failing schedule:` block can
        // be torn. That race is outside the property; with >= 2 failing members and Print only the
        // presence of a block is judged, not its text.
        let racy_print = n_fail >= 2 && r.runs[pos].pers == Pers::Print;
        for s in &j.syms {
            if racy_print {
                match s {
                    Sym::Malformed | Sym::ReplayDiffers(_) => continue,
                    Sym::NothingEmitted if r.stderr_marker_lines[pos] > 0 => continue,
                    _ => {}
                }
            }
            found.push((format!("C12 portfolio {}: {}", shape, s.text(&dn)), s.text(&dn)));
        }
        classes.insert((
            format!("{} members=[{}] stop={}", shape, vtxt, pf.stop_on_first_failure),
            if found.is_empty() {
                format!("ok/{}", if failed { "fails" } else { "passes" })
            } else {
                found.iter().map(|f| f.1.clone()).collect::<Vec<_>>().join("; ")
            },
        ));
        for (key, s) in found {
            pf_found.push((
                key,
                format!(
                    "[{}]: {}; portfolio returned {}; members' solo verdicts [{}]; schedules on stderr {}, new files {}, emitted in the configured way {}, of which reproducing {}",
                    shape_plain(&r.runs),
                    s,
                    obs.runs[pos].outcome.short(),
                    vtxt,
                    r.stderr_schedules[pos],
                    j.emitted.iter().filter(|e| e.from_file).count(),
                    j.in_place,
                    j.in_place_ok
                ),
                json!({"history": r.runs, "judged_run": pos, "symptom": s}),
            ));
        }
    }
    // an earlier *failing* run adds nothing if the same symptom already shows after a passing run with
    // the same persistence: report the simpler shape only
    let keys: BTreeSet<String> = pf_found.iter().map(|f| f.0.clone()).collect();
    for (key, what, replay) in pf_found {
        if key.contains("fail(") && keys.contains(&key.replace("fail(", "pass(")) {
            continue;
        }
        res.finding(key, what, replay);
    }
    if any_pf && !capped && !(have_pass && have_fail) {
        res.machinery_errors.push(format!(
            "portfolio members do not cover both verdicts (solo verdicts: {:?}); the 'exactly one / none / both fail' cases are not all exercised",
            solo
        ));
    }
    (n, classes.len() as u64)
}

// ------------------------------------------------------------------------------------------------
// --replay
// ------------------------------------------------------------------------------------------------

pub fn replay_file(path: &str) -> ! {
    let doc: Value = match std::fs::read_to_string(path).ok().and_then(|s| serde_json::from_str(&s).ok()) {
        Some(v) => v,
        None => {
            eprintln!("MACHINERY-ERROR: cannot read replay file {}", path);
            std::process::exit(2)
        }
    };
    let rp = &doc["replay"];
    let runs: Vec<RunSpec> = match serde_json::from_value(rp["history"].clone()) {
        Ok(r) => r,
        Err(e) => {
            eprintln!("MACHINERY-ERROR: bad replay document: {}", e);
            std::process::exit(2)
        }
    };
    let scratch = scratch_dir();
    let _ = std::fs::create_dir_all(&scratch);
    let env = Env {
        scratch: scratch.clone(),
        memo: None,
    };
    println!("history: {}", shape_plain(&runs));
    let mut z = match Zygote::spawn(&scratch, 0) {
        Ok(z) => z,
        Err(e) => {
            eprintln!("MACHINERY-ERROR: {}", e);
            std::process::exit(2)
        }
    };
    let hr = run_and_judge(&env, &mut z, 0, &runs);
    drop(z);
    for m in &hr.machinery {
        println!("machinery: {}", m);
    }
    for (i, j) in hr.judgements.iter().enumerate() {
        let names = dir_names(&runs, i);
        let dn = |d: usize| names.get(&d).cloned().unwrap_or_else(|| format!("dir{}", d));
        println!(
            "run #{} {:?} persistence={}{}:",
            i,
            runs[i].kind,
            pers_plain(runs[i].pers),
            if runs[i].other_thread { " (other OS thread)" } else { "" }
        );
        if let Some(o) = &hr.obs {
            println!("    returned            : {}", o.runs[i].outcome.short());
            println!("    schedule (runtime)  : len {} {:?}", o.runs[i].sched_len, o.runs[i].sched_ser);
            println!(
                "    directories after   : {:?}",
                o.runs[i].dirs_after.iter().map(|m| m.keys().cloned().collect::<Vec<_>>()).collect::<Vec<_>>()
            );
        }
        println!("    schedules on stderr : {}", hr.stderr_schedules.get(i).cloned().unwrap_or(0));
        for (e, ro) in j.emitted.iter().zip(j.replays.iter()) {
            println!(
                "    emitted {} {:?} -> replay returned {}",
                if e.from_file { "file" } else { "string" },
                e.value,
                ro.short()
            );
        }
        let is_pf = runs[i].portfolio.is_some();
        for s in &j.syms {
            println!("    verdict             : VIOLATES — {}", s.text(&dn));
        }
        if j.syms.is_empty() {
            if j.judged {
                println!("    verdict             : conforms");
            } else if is_pf {
                println!("    verdict             : emission conforms (whether the portfolio must fail is decided from the members' solo verdicts in the full check)");
            } else {
                println!("    verdict             : not a failing run, nothing to judge");
            }
        }
    }
    let _ = std::fs::remove_dir_all(&scratch);
    let _ = std::fs::remove_dir(scratch_base());
    std::process::exit(0)
}
