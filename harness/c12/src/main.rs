//! C12 — "Failures surface to the caller with a schedule that reproduces them".
//! Engine E6 (history enumerator): every history of configured Shuttle runs is executed in a fresh
//! child process (`child-history`), every emitted schedule is replayed in another fresh child
//! (`child-replay`); the parent enumerates, captures stderr, inspects the persistence directories
//! and judges every failing run of every history against the property statement.

mod bodies;
mod child;
mod parent;
mod spec;

fn usage() -> ! {
    eprintln!("usage: vx-c12 check C12 quick|thorough|--replay <path>");
    std::process::exit(2)
}

fn main() {
    let args: Vec<String> = std::env::args().collect();
    match args.get(1).map(|s| s.as_str()) {
        Some("zygote") => child::zygote(),
        Some("child-history") => {
            let spec: spec::HistorySpec = serde_json::from_str(args.get(2).map(|s| s.as_str()).unwrap_or("")).unwrap_or_else(|e| {
                eprintln!("child-history: bad spec: {}", e);
                std::process::exit(3)
            });
            let obs = child::history(&spec);
            println!("{}", serde_json::to_string(&obs).unwrap());
        }
        Some("child-replay") => {
            let spec: spec::ReplaySpec = serde_json::from_str(args.get(2).map(|s| s.as_str()).unwrap_or("")).unwrap_or_else(|e| {
                eprintln!("child-replay: bad spec: {}", e);
                std::process::exit(3)
            });
            let o = child::replay(&spec);
            println!("{}", serde_json::to_string(&o).unwrap());
        }
        Some("check") => {
            let id = args.get(2).cloned().unwrap_or_else(|| usage());
            if id != "C12" {
                eprintln!("MACHINERY-ERROR: vx-c12 only implements C12, got {}", id);
                std::process::exit(2);
            }
            let mode = args
                .get(3)
                .cloned()
                .or_else(|| std::env::var("VERIF_TIER").ok())
                .unwrap_or_else(|| usage());
            match mode.as_str() {
                "quick" => parent::check(vx::common::Tier::Quick),
                "thorough" => parent::check(vx::common::Tier::Thorough),
                "--replay" => {
                    let path = args.get(4).cloned().unwrap_or_else(|| usage());
                    parent::replay_file(&path)
                }
                _ => usage(),
            }
        }
        _ => usage(),
    }
}
