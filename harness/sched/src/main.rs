//! vx-sched — checks for the scheduler properties C09 (DFS), C10 (random / URW), C11 (PCT).
//! Engines: E3 (scheduler-automaton driver over exhaustively enumerated abstract trees) and E4
//! (seed-interval enumerator).

mod c09;
mod c10;
mod c11;
mod par;
mod pct_model;
mod rec;
mod tasks;
mod tree;

use vx::common::{finish, CheckCtx, Tier};

fn usage() -> ! {
    eprintln!("usage: vx-sched check C09|C10|C11 quick|thorough|--replay <file>");
    std::process::exit(2)
}

fn main() {
    let args: Vec<String> = std::env::args().collect();
    if args.get(1).map(|s| s.as_str()) == Some("check") {
        // the schedulers under test read these; the check chooses its seeds itself
        std::env::remove_var("SHUTTLE_RANDOM_SEED");
        std::env::remove_var("SHUTTLE_ALWAYS_PERSIST_SEED");
    }
    match args.get(1).map(|s| s.as_str()) {
        Some("check") => {
            let id = args.get(2).cloned().unwrap_or_default();
            if !["C09", "C10", "C11"].contains(&id.as_str()) {
                usage();
            }
            match args.get(3).map(|s| s.as_str()) {
                Some("--replay") => {
                    let path = args.get(4).unwrap_or_else(|| usage());
                    let doc: serde_json::Value = match std::fs::read_to_string(path)
                        .map_err(|e| e.to_string())
                        .and_then(|s| serde_json::from_str(&s).map_err(|e| e.to_string()))
                    {
                        Ok(d) => d,
                        Err(e) => {
                            eprintln!("MACHINERY-ERROR: cannot load replay file {}: {}", path, e);
                            std::process::exit(2)
                        }
                    };
                    match id.as_str() {
                        "C09" => c09::replay(&doc),
                        "C10" => c10::replay(&doc),
                        _ => c11::replay(&doc),
                    }
                    std::process::exit(0);
                }
                t => {
                    let tier = match t {
                        Some("thorough") => Tier::Thorough,
                        Some("quick") => Tier::Quick,
                        None => match std::env::var("VERIF_TIER").as_deref() {
                            Ok("thorough") => Tier::Thorough,
                            _ => Tier::Quick,
                        },
                        Some(_) => usage(),
                    };
                    let ctx = CheckCtx::new(&id, tier);
                    let res = match id.as_str() {
                        "C09" => c09::run(&ctx),
                        "C10" => c10::run(&ctx),
                        _ => c11::run(&ctx),
                    };
                    finish(&ctx, res)
                }
            }
        }
        Some("child") => {
            let a: Vec<String> = args[2..].to_vec();
            match a.first().map(|s| s.as_str()) {
                Some("c09-integ") => c09::child_integration(a.get(1).map(|s| s == "thorough").unwrap_or(false)),
                Some(k) if k.starts_with("c10-") => c10::child(&a),
                Some(k) if k.starts_with("c11-") => c11::child(&a),
                _ => usage(),
            }
        }
        _ => usage(),
    }
}
