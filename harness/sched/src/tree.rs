//! Abstract programs: finite trees whose nodes carry `(offered ids, yielding, #data draws)` and
//! whose edges are the offered tasks (`current` is the id chosen at the parent).  Shapes are
//! enumerated *exhaustively* by index: shape `x` in `[0, count(d, b))` is decoded arithmetically, so
//! the family "all trees of depth <= d and branching <= b" is a plain integer interval that can be
//! sharded.  Children are independent sub-shapes, i.e. the offered set below a node depends on the
//! path taken to it (choice-dependent branching) by construction.

use crate::tasks::Universe;
use shuttle_engine::runtime::task::{Task, TaskId};
use shuttle_engine::scheduler::Scheduler;

pub const MAXB: usize = 4;

#[derive(Clone, Debug)]
pub struct ANode {
    pub arity: u8,
    pub kids: [u16; MAXB],
    pub ids: [u8; MAXB],
    pub yielding: bool,
    pub draws: u8,
    pub depth: u8,
    pub parent: u16,
    /// position of this node among its parent's children
    pub pos_in_parent: u8,
}

#[derive(Clone, Debug)]
pub struct ATree {
    pub nodes: Vec<ANode>,
    pub depth: usize,
    pub leaves: usize,
}

/// number of shapes of depth <= d with branching in 1..=b (a node may also be a leaf)
pub fn count_shapes(d: usize, b: usize) -> u128 {
    let mut c: u128 = 1;
    for _ in 0..d {
        let prev = c;
        let mut s: u128 = 1;
        let mut p: u128 = 1;
        for _ in 0..b {
            p = p.checked_mul(prev).expect("shape count overflow");
            s = s.checked_add(p).expect("shape count overflow");
        }
        c = s;
    }
    c
}

/// Precomputed counts for one (depth,b) family.
pub struct Family {
    pub d: usize,
    pub b: usize,
    /// cnt[k] = number of shapes of depth <= k
    pub cnt: Vec<u128>,
}

impl Family {
    pub fn new(d: usize, b: usize) -> Family {
        assert!(b <= MAXB);
        Family {
            d,
            b,
            cnt: (0..=d).map(|k| count_shapes(k, b)).collect(),
        }
    }
    pub fn size(&self) -> u128 {
        self.cnt[self.d]
    }

    /// (arity, child shape indices) of shape x with remaining depth k
    fn decode(&self, mut x: u128, k: usize) -> (usize, [u128; MAXB]) {
        let mut kids = [0u128; MAXB];
        if x == 0 || k == 0 {
            return (0, kids);
        }
        x -= 1;
        let c = self.cnt[k - 1];
        let mut block = 1u128;
        for b in 1..=self.b {
            block *= c;
            if x < block {
                let mut y = x;
                for kid in kids.iter_mut().take(b) {
                    *kid = y % c;
                    y /= c;
                }
                return (b, kids);
            }
            x -= block;
        }
        unreachable!("shape index out of range")
    }

    /// Materialise shape `x` with labelling scheme `lab`.
    pub fn build(&self, x: u128, lab: &Labelling) -> ATree {
        let mut t = ATree {
            nodes: Vec::with_capacity(48),
            depth: 0,
            leaves: 0,
        };
        self.build_rec(x, self.d, 0, u16::MAX, 0, None, 0x9E3779B97F4A7C15, lab, &mut t);
        t
    }

    #[allow(clippy::too_many_arguments)]
    fn build_rec(
        &self,
        x: u128,
        k: usize,
        depth: usize,
        parent: u16,
        pos_in_parent: u8,
        current: Option<u8>,
        path_hash: u64,
        lab: &Labelling,
        t: &mut ATree,
    ) -> u16 {
        let (arity, kids) = self.decode(x, k);
        let me = t.nodes.len() as u16;
        let mut n = ANode {
            arity: arity as u8,
            kids: [0; MAXB],
            ids: [0; MAXB],
            yielding: false,
            draws: 0,
            depth: depth as u8,
            parent,
            pos_in_parent,
        };
        if depth > t.depth {
            t.depth = depth;
        }
        n.draws = lab.draws(path_hash, depth);
        if arity == 0 {
            t.leaves += 1;
            t.nodes.push(n);
            return me;
        }
        lab.ids(arity, current, path_hash, &mut n.ids);
        n.yielding = current.is_some() && lab.yielding(path_hash);
        t.nodes.push(n);
        for j in 0..arity {
            let id = t.nodes[me as usize].ids[j];
            let h = mix(path_hash ^ ((j as u64 + 1).wrapping_mul(0xD6E8FEB86659FD93)));
            let kid = self.build_rec(kids[j], k - 1, depth + 1, me, j as u8, Some(id), h, lab, t);
            t.nodes[me as usize].kids[j] = kid;
        }
        me
    }
}

#[inline]
pub fn mix(mut z: u64) -> u64 {
    z = z.wrapping_add(0x9E3779B97F4A7C15);
    z = (z ^ (z >> 30)).wrapping_mul(0xBF58476D1CE4E5B9);
    z = (z ^ (z >> 27)).wrapping_mul(0x94D049BB133111EB);
    z ^ (z >> 31)
}

/// How nodes are labelled with task ids / yield flags / data draws.
#[derive(Clone, Debug)]
pub struct Labelling {
    /// 0: ids 0..arity.  1: a path-dependent ascending subset of 0..universe (current may or may
    /// not be offered).  2: like 1 but `current` is always offered again when there is one.
    pub scheme: u8,
    pub universe: u8,
    /// yield flags from the path hash (never at the root)
    pub yields: bool,
    /// 0..=2 data draws before each decision and at each leaf, from the path hash
    pub draws: bool,
}

impl Labelling {
    pub fn plain() -> Labelling {
        Labelling {
            scheme: 0,
            universe: MAXB as u8,
            yields: false,
            draws: false,
        }
    }
    pub fn name(&self) -> String {
        format!(
            "scheme{}-u{}{}{}",
            self.scheme,
            self.universe,
            if self.yields { "-y" } else { "" },
            if self.draws { "-r" } else { "" }
        )
    }
    fn draws(&self, h: u64, _depth: usize) -> u8 {
        if self.draws {
            (mix(h ^ 0xA5A5) % 3) as u8
        } else {
            0
        }
    }
    fn yielding(&self, h: u64) -> bool {
        self.yields && (mix(h ^ 0x5A5A5A) & 1) == 1
    }
    fn ids(&self, arity: usize, current: Option<u8>, h: u64, out: &mut [u8; MAXB]) {
        match self.scheme {
            0 => {
                for (j, o) in out.iter_mut().enumerate().take(arity) {
                    *o = j as u8;
                }
            }
            _ => {
                let u = self.universe as usize;
                assert!(u >= arity);
                // choose `arity` distinct ids from 0..u by a hash-driven partial Fisher-Yates
                let mut pool: Vec<u8> = (0..u as u8).collect();
                let mut z = mix(h ^ 0x1D5);
                let mut chosen: Vec<u8> = Vec::with_capacity(arity);
                if self.scheme == 2 {
                    if let Some(c) = current {
                        let p = pool.iter().position(|&q| q == c).unwrap();
                        pool.swap_remove(p);
                        chosen.push(c);
                    }
                }
                while chosen.len() < arity {
                    z = mix(z);
                    let p = (z % pool.len() as u64) as usize;
                    chosen.push(pool.swap_remove(p));
                }
                chosen.sort_unstable();
                out[..arity].copy_from_slice(&chosen[..arity]);
            }
        }
    }
}

/// What one execution of a scheduler over a tree produced.
#[derive(Clone, Debug, Default, PartialEq, Eq)]
pub struct ExecRec {
    pub seed: u64,
    /// arena index of the node where the execution ended (a leaf, or the node at the cut)
    pub end: u16,
    /// chosen ids
    pub choices: Vec<u8>,
    pub draws: Vec<u64>,
}

#[derive(Debug)]
pub enum DriveErr {
    ReturnedNone { at: u16 },
    NotOffered { at: u16, got: usize },
}

/// Drive one execution (after `new_execution` returned `Some`): follow the scheduler's choices from
/// the root.  `cut = Some(n)` emulates the runtime under `MaxSteps::ContinueAfter(n)`: it simply
/// stops asking after n scheduling steps.  `with_draws`: perform the nodes' data draws.
pub fn drive<'u, S: Scheduler>(
    s: &mut S,
    tree: &ATree,
    uni: &'u Universe,
    cut: Option<usize>,
    with_draws: bool,
    buf: &mut Vec<&'u Task>,
    rec: &mut ExecRec,
) -> Result<(), DriveErr> {
    rec.choices.clear();
    rec.draws.clear();
    let mut at: u16 = 0;
    let mut current: Option<TaskId> = None;
    let mut steps = 0usize;
    loop {
        let n = &tree.nodes[at as usize];
        if let Some(c) = cut {
            if steps >= c {
                break;
            }
        }
        if with_draws {
            for _ in 0..n.draws {
                rec.draws.push(s.next_u64());
            }
        }
        if n.arity == 0 {
            break;
        }
        let ar = n.arity as usize;
        uni.offer(&n.ids[..ar], buf);
        let got = s.next_task(&buf[..], current, n.yielding);
        let got = match got {
            None => return Err(DriveErr::ReturnedNone { at }),
            Some(g) => g,
        };
        let gid: usize = got.into();
        let pos = match n.ids[..ar].iter().position(|&i| i as usize == gid) {
            None => return Err(DriveErr::NotOffered { at, got: gid }),
            Some(p) => p,
        };
        rec.choices.push(gid as u8);
        current = Some(got);
        at = n.kids[pos];
        steps += 1;
    }
    rec.end = at;
    Ok(())
}

impl ATree {
    /// Path (positions) from the root to node `at`.
    pub fn path_to(&self, mut at: u16) -> Vec<u8> {
        let mut p = Vec::new();
        while self.nodes[at as usize].parent != u16::MAX {
            p.push(self.nodes[at as usize].pos_in_parent);
            at = self.nodes[at as usize].parent;
        }
        p.reverse();
        p
    }

    /// Task ids chosen on the way from the root to node `at`.
    pub fn nodes_choices(&self, mut at: u16) -> Vec<u8> {
        let mut p = Vec::new();
        while self.nodes[at as usize].parent != u16::MAX {
            let par = self.nodes[at as usize].parent;
            p.push(self.nodes[par as usize].ids[self.nodes[at as usize].pos_in_parent as usize]);
            at = par;
        }
        p.reverse();
        p
    }

    /// Nodes where an execution cut after `n` steps can end: nodes at depth n plus leaves above.
    pub fn cut_ends(&self, n: usize) -> Vec<u16> {
        self.nodes
            .iter()
            .enumerate()
            .filter(|(_, nd)| (nd.depth as usize == n) || (nd.arity == 0 && (nd.depth as usize) < n))
            .map(|(i, _)| i as u16)
            .collect()
    }

    pub fn to_json(&self) -> serde_json::Value {
        fn rec(t: &ATree, at: u16) -> serde_json::Value {
            let n = &t.nodes[at as usize];
            let ar = n.arity as usize;
            serde_json::json!({
                "offered": n.ids[..ar].to_vec(),
                "yielding": n.yielding,
                "draws": n.draws,
                "kids": (0..ar).map(|j| rec(t, n.kids[j])).collect::<Vec<_>>(),
            })
        }
        rec(self, 0)
    }

    pub fn from_json(v: &serde_json::Value) -> ATree {
        fn rec(v: &serde_json::Value, depth: usize, parent: u16, pos: u8, t: &mut ATree) -> u16 {
            let me = t.nodes.len() as u16;
            let offered: Vec<u8> = v["offered"]
                .as_array()
                .map(|a| a.iter().map(|x| x.as_u64().unwrap() as u8).collect())
                .unwrap_or_default();
            let mut n = ANode {
                arity: offered.len() as u8,
                kids: [0; MAXB],
                ids: [0; MAXB],
                yielding: v["yielding"].as_bool().unwrap_or(false),
                draws: v["draws"].as_u64().unwrap_or(0) as u8,
                depth: depth as u8,
                parent,
                pos_in_parent: pos,
            };
            n.ids[..offered.len()].copy_from_slice(&offered);
            if depth > t.depth {
                t.depth = depth;
            }
            if offered.is_empty() {
                t.leaves += 1;
            }
            t.nodes.push(n);
            let empty = Vec::new();
            let kids = v["kids"].as_array().unwrap_or(&empty);
            for (j, k) in kids.iter().enumerate() {
                let kid = rec(k, depth + 1, me, j as u8, t);
                t.nodes[me as usize].kids[j] = kid;
            }
            me
        }
        let mut t = ATree {
            nodes: Vec::new(),
            depth: 0,
            leaves: 0,
        };
        rec(v, 0, u16::MAX, 0, &mut t);
        t
    }
}

/// "Counter" programs: task i performs `steps[i]` steps; with `spawn`, task 0 first performs n-1
/// spawn steps (task j becomes offered once task 0 has executed j steps), like a real body whose
/// main thread spawns its workers one after the other.  `yields[i]` = bitmask over task i's own
/// step indices: after executing such a step the task reports `is_yielding` at the next decision.
/// The tree is the full interleaving tree (a node per schedule prefix); each edge is labelled with
/// the event `(task, index of the step within the task)` it executes.
#[derive(Clone, Debug)]
pub struct CounterProg {
    pub steps: Vec<u8>,
    pub spawn: bool,
    pub yields: Vec<u8>,
}

impl CounterProg {
    pub fn n(&self) -> usize {
        self.steps.len()
    }
    /// total number of steps of task i including its spawn steps
    pub fn total(&self, i: usize) -> u8 {
        if i == 0 && self.spawn {
            self.steps[0] + (self.n() as u8 - 1)
        } else {
            self.steps[i]
        }
    }
    pub fn name(&self) -> String {
        format!(
            "counter{:?}{}{}",
            self.steps,
            if self.spawn { "+spawn" } else { "" },
            if self.yields.iter().any(|y| *y != 0) {
                format!("+yields{:?}", self.yields)
            } else {
                String::new()
            }
        )
    }
    pub fn to_json(&self) -> serde_json::Value {
        serde_json::json!({"steps": self.steps, "spawn": self.spawn, "yields": self.yields})
    }
    pub fn from_json(v: &serde_json::Value) -> CounterProg {
        let arr = |k: &str| -> Vec<u8> {
            v[k].as_array()
                .map(|a| a.iter().map(|x| x.as_u64().unwrap_or(0) as u8).collect())
                .unwrap_or_default()
        };
        let steps = arr("steps");
        let mut yields = arr("yields");
        yields.resize(steps.len(), 0);
        CounterProg {
            steps,
            spawn: v["spawn"].as_bool().unwrap_or(false),
            yields,
        }
    }

    pub fn tree(&self) -> ATree {
        assert!(self.n() <= MAXB && self.n() >= 1);
        let mut t = ATree {
            nodes: Vec::new(),
            depth: 0,
            leaves: 0,
        };
        let done = vec![0u8; self.n()];
        self.rec(&done, None, 0, u16::MAX, 0, &mut t);
        t
    }

    fn rec(&self, done: &[u8], last: Option<(usize, u8)>, depth: usize, parent: u16, pos: u8, t: &mut ATree) -> u16 {
        let me = t.nodes.len();
        assert!(me < u16::MAX as usize - 1, "counter program too large");
        let n = self.n();
        let spawned = if self.spawn { (done[0] as usize + 1).min(n) } else { n };
        let mut ids = [0u8; MAXB];
        let mut ar = 0usize;
        for i in 0..spawned {
            if done[i] < self.total(i) {
                ids[ar] = i as u8;
                ar += 1;
            }
        }
        let yielding = match last {
            Some((i, k)) => (self.yields[i] >> k) & 1 == 1,
            None => false,
        };
        t.nodes.push(ANode {
            arity: ar as u8,
            kids: [0; MAXB],
            ids,
            yielding,
            draws: 0,
            depth: depth as u8,
            parent,
            pos_in_parent: pos,
        });
        if depth > t.depth {
            t.depth = depth;
        }
        if ar == 0 {
            t.leaves += 1;
        }
        for j in 0..ar {
            let i = ids[j] as usize;
            let mut d2 = done.to_vec();
            d2[i] += 1;
            let kid = self.rec(&d2, Some((i, done[i])), depth + 1, me as u16, j as u8, t);
            t.nodes[me].kids[j] = kid;
        }
        me as u16
    }
}
