//! Recording wrapper scheduler, small real Shuttle bodies, and the cross-validation of E3 against
//! the real runtime: a run recorded under the real runtime is replayed, call for call, against a
//! *fresh* instance of the same scheduler fed with synthetic tasks.

use crate::tasks::Universe;
use serde_json::{json, Value};
use shuttle::sync::atomic::{AtomicUsize, Ordering};
use shuttle::sync::Mutex;
use shuttle_engine::scheduler::{Schedule, Scheduler, Task, TaskId};
use std::cell::RefCell;
use std::rc::Rc;
use std::sync::Arc;

#[derive(Clone, Debug, PartialEq, Eq)]
pub enum Ev {
    Task {
        offered: Vec<u8>,
        current: Option<u8>,
        yielding: bool,
        chosen: Option<u8>,
    },
    Rand(u64),
}

#[derive(Clone, Debug, Default, PartialEq, Eq)]
pub struct ExecLog {
    pub seed: u64,
    pub evs: Vec<Ev>,
}

impl ExecLog {
    pub fn choices(&self) -> Vec<u8> {
        self.evs
            .iter()
            .filter_map(|e| match e {
                Ev::Task { chosen: Some(c), .. } => Some(*c),
                _ => None,
            })
            .collect()
    }
    pub fn draws(&self) -> Vec<u64> {
        self.evs
            .iter()
            .filter_map(|e| match e {
                Ev::Rand(v) => Some(*v),
                _ => None,
            })
            .collect()
    }
    pub fn to_json(&self) -> Value {
        json!({
            "seed": self.seed.to_string(),
            "events": self.evs.iter().map(|e| match e {
                Ev::Task{offered,current,yielding,chosen} => json!({"offered":offered,"current":current,"yielding":yielding,"chosen":chosen}),
                Ev::Rand(v) => json!({"rand": v.to_string()}),
            }).collect::<Vec<_>>()
        })
    }
}

#[derive(Clone, Debug, Default)]
pub struct RunLog {
    pub execs: Vec<ExecLog>,
    /// `new_execution` finally returned None (the run ended by itself rather than by a panic)
    pub ended: bool,
    /// parent id of every task id ever offered
    pub parents: Vec<Option<Option<usize>>>,
    pub parent_conflict: bool,
}

impl RunLog {
    pub fn parents_vec(&self) -> Vec<Option<usize>> {
        // tasks never offered get parent 0 (they cannot matter to a scheduler that never saw them)
        self.parents
            .iter()
            .enumerate()
            .map(|(i, p)| match p {
                Some(pp) => *pp,
                None => {
                    if i == 0 {
                        None
                    } else {
                        Some(0)
                    }
                }
            })
            .collect()
    }
}

pub struct Recorder<S> {
    pub inner: S,
    pub log: Rc<RefCell<RunLog>>,
}

impl<S: Scheduler> Recorder<S> {
    pub fn new(inner: S) -> (Self, Rc<RefCell<RunLog>>) {
        let log = Rc::new(RefCell::new(RunLog::default()));
        (
            Recorder {
                inner,
                log: log.clone(),
            },
            log,
        )
    }
}

impl<S: Scheduler> Scheduler for Recorder<S> {
    fn new_execution(&mut self) -> Option<Schedule> {
        let r = self.inner.new_execution();
        let mut l = self.log.borrow_mut();
        match &r {
            Some(s) => l.execs.push(ExecLog {
                seed: s.seed,
                evs: Vec::new(),
            }),
            None => l.ended = true,
        }
        r
    }
    fn next_task(&mut self, runnable: &[&Task], current: Option<TaskId>, is_yielding: bool) -> Option<TaskId> {
        let r = self.inner.next_task(runnable, current, is_yielding);
        let mut l = self.log.borrow_mut();
        for t in runnable {
            let id: usize = t.id().into();
            if l.parents.len() <= id {
                l.parents.resize(id + 1, None);
            }
            let p = t.parent_task_id().map(usize::from);
            match l.parents[id] {
                None => l.parents[id] = Some(p),
                Some(q) => {
                    if q != p {
                        l.parent_conflict = true;
                    }
                }
            }
        }
        let ev = Ev::Task {
            offered: runnable.iter().map(|t| usize::from(t.id()) as u8).collect(),
            current: current.map(|c| usize::from(c) as u8),
            yielding: is_yielding,
            chosen: r.map(|c| usize::from(c) as u8),
        };
        l.execs.last_mut().expect("next_task before new_execution").evs.push(ev);
        r
    }
    fn next_u64(&mut self) -> u64 {
        let v = self.inner.next_u64();
        self.log
            .borrow_mut()
            .execs
            .last_mut()
            .expect("next_u64 before new_execution")
            .evs
            .push(Ev::Rand(v));
        v
    }
}

/// Replay a recorded run against a fresh scheduler through the abstract driver.  Returns the number
/// of scheduler calls that were reproduced, or a description of the first disagreement.
pub fn replay_abstract<S: Scheduler>(log: &RunLog, fresh: &mut S) -> Result<u64, String> {
    if log.parent_conflict {
        return Err("parent ids of a task id changed between executions".into());
    }
    let uni = Universe::with_parents(&log.parents_vec());
    let mut buf: Vec<&Task> = Vec::new();
    let mut n = 0u64;
    for (i, e) in log.execs.iter().enumerate() {
        match fresh.new_execution() {
            None => return Err(format!("abstract driver: new_execution returned None at execution {}", i)),
            Some(s) => {
                if s.seed != e.seed {
                    return Err(format!("execution {}: seed {} (abstract) vs {} (runtime)", i, s.seed, e.seed));
                }
            }
        }
        n += 1;
        for (j, ev) in e.evs.iter().enumerate() {
            match ev {
                Ev::Task {
                    offered,
                    current,
                    yielding,
                    chosen,
                } => {
                    uni.offer(offered, &mut buf);
                    let got = fresh
                        .next_task(&buf[..], current.map(|c| TaskId::from(c as usize)), *yielding)
                        .map(|g| usize::from(g) as u8);
                    if got != *chosen {
                        return Err(format!(
                            "execution {} event {}: offered {:?} current {:?} yielding {} -> runtime run chose {:?}, abstract driver got {:?}",
                            i, j, offered, current, yielding, chosen, got
                        ));
                    }
                }
                Ev::Rand(v) => {
                    let got = fresh.next_u64();
                    if got != *v {
                        return Err(format!("execution {} event {}: draw {} vs {}", i, j, v, got));
                    }
                }
            }
            n += 1;
        }
    }
    if log.ended {
        if fresh.new_execution().is_some() {
            return Err("runtime run ended but the abstract driver's scheduler offers another execution".into());
        }
        n += 1;
    }
    Ok(n)
}

// ------------------------------------------------------------------------------------------------
// real bodies
// ------------------------------------------------------------------------------------------------

pub type Body = Arc<dyn Fn() + Send + Sync + 'static>;

pub const BODIES: &[&str] = &[
    "atomic-2x2",
    "atomic-3x1",
    "atomic-2x3",
    "mutex-2x1",
    "mutex-3x1",
    "branchy",
    "yield-spin",
    "nested-spawn",
    "draws",
    "lost-update",
];

/// Bodies that hold no lock guard at any scheduling point (safe to cut with ContinueAfter, cf. F11).
pub const GUARD_FREE: &[&str] = &["atomic-2x2", "atomic-3x1", "atomic-2x3", "branchy", "yield-spin", "nested-spawn"];

thread_local! {
    /// data draws observed by the body of the current OS thread (bodies run on the calling thread)
    pub static BODY_DRAWS: RefCell<Vec<u64>> = const { RefCell::new(Vec::new()) };
}

fn atomics(threads: usize, ops: usize) -> Body {
    Arc::new(move || {
        let x = Arc::new(AtomicUsize::new(0));
        let hs: Vec<_> = (0..threads)
            .map(|_| {
                let x = x.clone();
                shuttle::thread::spawn(move || {
                    for _ in 0..ops {
                        x.fetch_add(1, Ordering::SeqCst);
                    }
                })
            })
            .collect();
        for h in hs {
            h.join().unwrap();
        }
        assert_eq!(x.load(Ordering::SeqCst), threads * ops);
    })
}

fn mutexes(threads: usize) -> Body {
    Arc::new(move || {
        let m = Arc::new(Mutex::new(0usize));
        let hs: Vec<_> = (0..threads)
            .map(|_| {
                let m = m.clone();
                shuttle::thread::spawn(move || {
                    *m.lock().unwrap() += 1;
                })
            })
            .collect();
        for h in hs {
            h.join().unwrap();
        }
        assert_eq!(*m.lock().unwrap(), threads);
    })
}

pub fn body(name: &str) -> Option<Body> {
    Some(match name {
        "atomic-2x2" => atomics(2, 2),
        "atomic-3x1" => atomics(3, 1),
        "atomic-2x3" => atomics(2, 3),
        "mutex-2x1" => mutexes(2),
        "mutex-3x1" => mutexes(3),
        // the shape of the tree below a choice depends on the choice
        "branchy" => Arc::new(|| {
            let flag = Arc::new(AtomicUsize::new(0));
            let x = Arc::new(AtomicUsize::new(0));
            let (f1, x1) = (flag.clone(), x.clone());
            let a = shuttle::thread::spawn(move || {
                if f1.load(Ordering::SeqCst) == 0 {
                    x1.fetch_add(1, Ordering::SeqCst);
                    x1.fetch_add(1, Ordering::SeqCst);
                }
            });
            let (f2, x2) = (flag.clone(), x.clone());
            let b = shuttle::thread::spawn(move || {
                f2.store(1, Ordering::SeqCst);
                if x2.load(Ordering::SeqCst) == 1 {
                    x2.fetch_add(10, Ordering::SeqCst);
                }
            });
            a.join().unwrap();
            b.join().unwrap();
        }),
        "yield-spin" => Arc::new(|| {
            let flag = Arc::new(AtomicUsize::new(0));
            let f1 = flag.clone();
            let a = shuttle::thread::spawn(move || {
                for _ in 0..2 {
                    if f1.load(Ordering::SeqCst) == 1 {
                        break;
                    }
                    shuttle::thread::yield_now();
                }
            });
            let f2 = flag.clone();
            let b = shuttle::thread::spawn(move || {
                f2.store(1, Ordering::SeqCst);
            });
            a.join().unwrap();
            b.join().unwrap();
        }),
        "nested-spawn" => Arc::new(|| {
            let x = Arc::new(AtomicUsize::new(0));
            let x1 = x.clone();
            let a = shuttle::thread::spawn(move || {
                let x2 = x1.clone();
                let c = shuttle::thread::spawn(move || {
                    x2.fetch_add(1, Ordering::SeqCst);
                });
                x1.fetch_add(1, Ordering::SeqCst);
                c.join().unwrap();
            });
            x.fetch_add(1, Ordering::SeqCst);
            a.join().unwrap();
        }),
        // data draws that do not influence control flow
        "draws" => Arc::new(|| {
            use shuttle::rand::Rng;
            let x = Arc::new(AtomicUsize::new(0));
            let hs: Vec<_> = (0..2)
                .map(|_| {
                    let x = x.clone();
                    shuttle::thread::spawn(move || {
                        let v: u64 = shuttle::rand::thread_rng().gen();
                        BODY_DRAWS.with(|d| d.borrow_mut().push(v));
                        x.fetch_add(1, Ordering::SeqCst);
                        let w: u64 = shuttle::rand::thread_rng().gen();
                        BODY_DRAWS.with(|d| d.borrow_mut().push(w));
                    })
                })
                .collect();
            let v: u64 = shuttle::rand::thread_rng().gen();
            BODY_DRAWS.with(|d| d.borrow_mut().push(v));
            for h in hs {
                h.join().unwrap();
            }
        }),
        // fails on the interleavings that lose an update; draws data too
        "lost-update" => Arc::new(|| {
            use shuttle::rand::Rng;
            let x = Arc::new(AtomicUsize::new(0));
            let hs: Vec<_> = (0..2)
                .map(|_| {
                    let x = x.clone();
                    shuttle::thread::spawn(move || {
                        let v: u64 = shuttle::rand::thread_rng().gen();
                        BODY_DRAWS.with(|d| d.borrow_mut().push(v));
                        let cur = x.load(Ordering::SeqCst);
                        x.store(cur + 1, Ordering::SeqCst);
                    })
                })
                .collect();
            for h in hs {
                h.join().unwrap();
            }
            assert_eq!(x.load(Ordering::SeqCst), 2, "lost update");
        }),
        _ => return None,
    })
}

pub fn quiet_config() -> shuttle_engine::Config {
    let mut c = shuttle_engine::Config::new();
    c.failure_persistence = shuttle_engine::FailurePersistence::None;
    c.max_steps = shuttle_engine::MaxSteps::FailAfter(20_000);
    c.silence_warnings = true;
    c
}

/// Run `body` under `Recorder(sched)` through the real runtime. Returns the log and whether the run
/// panicked (payload text).
pub fn record_run<S: Scheduler + 'static>(
    sched: S,
    body: &Body,
    config: shuttle_engine::Config,
) -> (RunLog, Option<String>) {
    let (rec, log) = Recorder::new(sched);
    let b = body.clone();
    let r = std::panic::catch_unwind(std::panic::AssertUnwindSafe(move || {
        shuttle_engine::Runner::new(rec, config).run(move || b());
    }));
    let l = log.borrow().clone();
    let p = r.err().map(|e| payload_text(&e));
    (l, p)
}

pub fn payload_text(e: &Box<dyn std::any::Any + Send>) -> String {
    if let Some(s) = e.downcast_ref::<String>() {
        s.clone()
    } else if let Some(s) = e.downcast_ref::<&'static str>() {
        s.to_string()
    } else {
        "<non-string panic payload>".into()
    }
}
