//! TEMPORARY self-mutation shims (removed before hand-over): copies of the schedulers under test
//! with one deliberate defect each, selected with VX_MUTANT.
use shuttle_engine::runtime::task::{Task, TaskId};
use shuttle_engine::scheduler::data::fixed::FixedDataSource;
use shuttle_engine::scheduler::data::DataSource;
use shuttle_engine::scheduler::{Schedule, Scheduler};

pub fn which() -> u32 {
    std::env::var("VX_MUTANT").ok().and_then(|s| s.parse().ok()).unwrap_or(0)
}

/// DfsScheduler copy. kind 100 = faithful; 101 = has_more_choices(self.steps) off by one;
/// 102 = levels not truncated on change; 103 = data source not reinitialised; 104 = iteration bound off by one
pub struct DfsCopy {
    pub kind: u32,
    max_iterations: Option<usize>,
    iterations: usize,
    levels: Vec<(TaskId, bool)>,
    steps: usize,
    data_source: FixedDataSource,
}
impl DfsCopy {
    pub fn new(kind: u32, max_iterations: Option<usize>) -> Self {
        DfsCopy { kind, max_iterations, iterations: 0, levels: vec![], steps: 0, data_source: FixedDataSource::initialize(0x12345678) }
    }
    fn has_more_choices(&self, index: usize) -> bool {
        self.levels[index.min(self.levels.len())..].iter().any(|(_, last)| !*last)
    }
}
impl Scheduler for DfsCopy {
    fn new_execution(&mut self) -> Option<Schedule> {
        let lim = if self.kind == 104 { 1 } else { 0 };
        if self.max_iterations.map(|mi| self.iterations >= mi + lim).unwrap_or(false) {
            return None;
        }
        if self.iterations > 0 && !self.has_more_choices(0) {
            return None;
        }
        self.iterations += 1;
        self.steps = 0;
        if self.kind == 103 && self.iterations > 1 {
            return Some(Schedule::new(0x12345678));
        }
        Some(Schedule::new(self.data_source.reinitialize()))
    }
    fn next_task(&mut self, runnable: &[&Task], _c: Option<TaskId>, _y: bool) -> Option<TaskId> {
        let next = if self.steps >= self.levels.len() {
            let to_run = runnable.first().unwrap().id();
            self.levels.push((to_run, runnable.len() == 1));
            to_run
        } else {
            let (last_choice, was_last) = self.levels[self.steps];
            let idx = if self.kind == 101 { self.steps } else { self.steps + 1 };
            if self.has_more_choices(idx) && !(self.kind == 101 && was_last && !self.has_more_choices(self.steps + 1)) {
                if self.kind == 101 && !self.has_more_choices(self.steps + 1) {
                    // off-by-one: this level itself has a sibling left but we keep the old choice
                }
                last_choice
            } else {
                assert!(!was_last);
                let next_idx = runnable.iter().position(|t| t.id() == last_choice).unwrap() + 1;
                let next = runnable[next_idx].id();
                if self.kind == 102 {
                    self.levels[self.steps] = (next, next_idx == runnable.len() - 1);
                } else {
                    self.levels.drain(self.steps..);
                    self.levels.push((next, next_idx == runnable.len() - 1));
                }
                next
            }
        };
        self.steps += 1;
        Some(next)
    }
    fn next_u64(&mut self) -> u64 {
        self.data_source.next_u64()
    }
}

use rand::seq::SliceRandom;
use rand::{Rng, SeedableRng};
use rand_pcg::Pcg64Mcg;
use shuttle_engine::scheduler::data::random::RandomDataSource;

/// RandomScheduler copy. 200 = faithful; 201 = choice RNG not re-seeded from the execution seed;
/// 202 = stay on current with p = 1/2; 203 = reports the *next* seed in the Schedule;
/// 204 = hidden nondeterminism (address-dependent); 205 = never picks the last of 4 offered
pub struct RandomCopy {
    kind: u32,
    max_iterations: usize,
    rng: Pcg64Mcg,
    iterations: usize,
    data_source: RandomDataSource,
}
impl RandomCopy {
    pub fn new(kind: u32, seed: u64, max_iterations: usize) -> Self {
        RandomCopy { kind, max_iterations, rng: Pcg64Mcg::seed_from_u64(seed), iterations: 0, data_source: RandomDataSource::initialize(seed) }
    }
}
impl Scheduler for RandomCopy {
    fn new_execution(&mut self) -> Option<Schedule> {
        if self.iterations >= self.max_iterations {
            None
        } else {
            self.iterations += 1;
            let seed = self.data_source.reinitialize();
            if self.kind != 201 {
                self.rng = Pcg64Mcg::seed_from_u64(seed);
            }
            if self.kind == 203 {
                return Some(Schedule::new(seed.wrapping_add(1)));
            }
            Some(Schedule::new(seed))
        }
    }
    fn next_task(&mut self, runnable: &[&Task], current: Option<TaskId>, _y: bool) -> Option<TaskId> {
        if self.kind == 202 {
            if let Some(c) = current {
                if runnable.iter().any(|t| t.id() == c) && self.rng.gen::<bool>() {
                    return Some(c);
                }
            }
        }
        if self.kind == 204 {
            let a = Box::new(0u8);
            let x = (&*a as *const u8 as usize >> 4) ^ (std::time::SystemTime::now().duration_since(std::time::UNIX_EPOCH).unwrap().subsec_nanos() as usize);
            return Some(runnable[x % runnable.len()].id());
        }
        if self.kind == 205 && runnable.len() == 4 {
            return Some(runnable[..3].choose(&mut self.rng).unwrap().id());
        }
        Some(runnable.choose(&mut self.rng).unwrap().id())
    }
    fn next_u64(&mut self) -> u64 {
        self.data_source.next_u64()
    }
}

use rand::seq::index::sample;
use std::collections::HashMap;

/// PctScheduler copy. 300 faithful; 301 change points sampled from [0, max_steps-1);
/// 302 demotes the highest-priority offered task instead of the running one; 303 counts
/// single-choice steps; 304 uses `depth` change points; 305 runs one iteration too many;
/// 306 priorities not reshuffled (oldest first forever); 307 change-point demotion moves the task
/// to the *highest* priority
#[derive(Debug)]
pub struct PctCopy {
    kind: u32,
    max_iterations: usize,
    max_depth: usize,
    iterations: usize,
    priorities: HashMap<TaskId, usize>,
    next_priority: usize,
    change_points: Vec<usize>,
    max_steps: usize,
    steps: usize,
    rng: Pcg64Mcg,
    data_source: RandomDataSource,
}
impl PctCopy {
    pub fn new(kind: u32, seed: u64, max_depth: usize, max_iterations: usize) -> Self {
        PctCopy {
            kind, max_iterations, max_depth, iterations: 0,
            priorities: (0..16).map(|i| (TaskId::from(i), i)).collect(),
            next_priority: 16, change_points: vec![], max_steps: 0, steps: 0,
            rng: Pcg64Mcg::seed_from_u64(seed), data_source: RandomDataSource::initialize(seed),
        }
    }
}
impl Scheduler for PctCopy {
    fn new_execution(&mut self) -> Option<Schedule> {
        let lim = if self.kind == 305 { 1 } else { 0 };
        if self.iterations >= self.max_iterations + lim {
            return None;
        }
        self.steps = 0;
        if self.iterations > 0 {
            assert!(self.max_steps > 0, "test closure did not exercise any concurrency");
            let mut priorities = (0..self.priorities.len()).collect::<Vec<_>>();
            if self.kind != 306 {
                priorities.shuffle(&mut self.rng);
            }
            for (i, priority) in priorities.into_iter().enumerate() {
                self.priorities.insert(TaskId::from(i), priority);
            }
            self.next_priority = self.priorities.len();
            let d = if self.kind == 304 { self.max_depth } else { self.max_depth - 1 };
            let num_points = std::cmp::min(d, self.max_steps - 1);
            let off = if self.kind == 301 { 0 } else { 1 };
            self.change_points = sample(&mut self.rng, self.max_steps - 1, num_points).iter().map(|v| v + off).collect();
        }
        self.iterations += 1;
        Some(Schedule::new(self.data_source.reinitialize()))
    }
    fn next_task(&mut self, runnable: &[&Task], current: Option<TaskId>, is_yielding: bool) -> Option<TaskId> {
        let max_known_task = self.priorities.len();
        let max_new_task = usize::from(runnable.iter().map(|t| t.id()).max().unwrap());
        for new_task_id in max_known_task..1 + max_new_task {
            let new_task_id = TaskId::from(new_task_id);
            let target_task_id = TaskId::from(self.rng.gen_range(0..self.priorities.len()) + 1);
            let new_task_priority = if target_task_id == new_task_id {
                self.next_priority
            } else {
                self.priorities.insert(target_task_id, self.next_priority).expect("priority queue invariant")
            };
            self.priorities.insert(new_task_id, new_task_priority);
            self.next_priority += 1;
        }
        if runnable.len() > 1 || self.kind == 303 {
            if self.change_points.contains(&self.steps) || is_yielding {
                let victim = if self.kind == 302 && !is_yielding {
                    runnable.iter().min_by_key(|t| self.priorities.get(&t.id())).map(|t| t.id())
                } else {
                    current
                };
                if let Some(v) = victim {
                    if self.kind == 307 && !is_yielding {
                        let minp = *self.priorities.values().min().unwrap();
                        if minp > 0 {
                            self.priorities.insert(v, minp - 1);
                        } else {
                            for (_, p) in self.priorities.iter_mut() { *p += 1; }
                            self.next_priority += 1;
                            self.priorities.insert(v, 0);
                        }
                    } else {
                        self.priorities.insert(v, self.next_priority);
                        self.next_priority += 1;
                    }
                }
            }
            self.steps += 1;
            if self.steps > self.max_steps {
                self.max_steps = self.steps;
            }
        }
        Some(runnable.iter().min_by_key(|t| self.priorities.get(&t.id())).expect("priority queue invariant").id())
    }
    fn next_u64(&mut self) -> u64 {
        self.data_source.next_u64()
    }
}
