//! Reference model of PCT, written from the property statement: a strict priority list, a set of
//! change points counted in multi-choice steps, "demote = move to lowest".  Plus: the read-only
//! snapshot of the real scheduler (obtained through its derived `Debug` output — no hook needed),
//! the statement-level behavioural oracle (NFA over all priority orders), and the exhaustive
//! enumeration of the model for the probability bound.

use crate::tree::{ATree, CounterProg};
use std::collections::BTreeSet;

// ------------------------------------------------------------------------------------------------
// model
// ------------------------------------------------------------------------------------------------

#[derive(Clone, Debug)]
pub struct PctModel {
    /// task ids, highest priority first
    pub order: Vec<u8>,
    pub change_points: Vec<usize>,
    /// multi-choice steps taken in the current execution
    pub steps: usize,
    /// running estimate of k
    pub max_steps: usize,
}

impl PctModel {
    pub fn demote(&mut self, t: u8) {
        if let Some(p) = self.order.iter().position(|x| *x == t) {
            let v = self.order.remove(p);
            self.order.push(v);
        }
    }
    pub fn knows(&self, t: u8) -> bool {
        self.order.contains(&t)
    }
    /// One decision. All offered tasks must be known to the model.
    pub fn decide(&mut self, offered: &[u8], current: Option<u8>, yielding: bool) -> u8 {
        if offered.len() > 1 {
            if self.change_points.contains(&self.steps) || yielding {
                if let Some(c) = current {
                    self.demote(c);
                }
            }
            self.steps += 1;
            if self.steps > self.max_steps {
                self.max_steps = self.steps;
            }
        }
        *self.order.iter().find(|t| offered.contains(t)).expect("offered task unknown to the model")
    }
}

// ------------------------------------------------------------------------------------------------
// snapshot of the real scheduler via Debug
// ------------------------------------------------------------------------------------------------

#[derive(Clone, Debug, PartialEq, Eq)]
pub struct Snapshot {
    /// (task id, priority value)
    pub priorities: Vec<(usize, usize)>,
    pub change_points: Vec<usize>,
    pub steps: usize,
    pub max_steps: usize,
    pub next_priority: usize,
    pub iterations: usize,
}

impl Snapshot {
    /// ids ordered by priority value (lowest value = highest priority)
    pub fn order(&self) -> Vec<u8> {
        let mut v = self.priorities.clone();
        v.sort_by_key(|(_, p)| *p);
        v.into_iter().map(|(t, _)| t as u8).collect()
    }
    pub fn distinct_priorities(&self) -> bool {
        let s: BTreeSet<usize> = self.priorities.iter().map(|(_, p)| *p).collect();
        s.len() == self.priorities.len()
    }
}

fn field_usize(s: &str, name: &str) -> Option<usize> {
    // match ", name: " or "{ name: " so that `steps` does not match `max_steps`
    for pre in [", ", "{ "] {
        let pat = format!("{}{}: ", pre, name);
        if let Some(i) = s.find(&pat) {
            let rest = &s[i + pat.len()..];
            let end = rest.find(|c: char| !c.is_ascii_digit()).unwrap_or(rest.len());
            return rest[..end].parse().ok();
        }
    }
    None
}

pub fn parse_snapshot(dbg: &str) -> Option<Snapshot> {
    let pi = dbg.find("priorities: {")? + "priorities: {".len();
    let pe = pi + dbg[pi..].find('}')?;
    let mut priorities = Vec::new();
    for ent in dbg[pi..pe].split(", ") {
        let ent = ent.trim();
        if ent.is_empty() {
            continue;
        }
        // "TaskId(3): 7"  or  "\"name\"(3): 7"
        let colon = ent.rfind("): ")?;
        let open = ent[..colon].rfind('(')?;
        let id: usize = ent[open + 1..colon].parse().ok()?;
        let pr: usize = ent[colon + 3..].trim().parse().ok()?;
        priorities.push((id, pr));
    }
    let ci = dbg.find("change_points: [")? + "change_points: [".len();
    let ce = ci + dbg[ci..].find(']')?;
    let mut change_points = Vec::new();
    for c in dbg[ci..ce].split(", ") {
        let c = c.trim();
        if !c.is_empty() {
            change_points.push(c.parse().ok()?);
        }
    }
    Some(Snapshot {
        priorities,
        change_points,
        steps: field_usize(dbg, "steps")?,
        max_steps: field_usize(dbg, "max_steps")?,
        next_priority: field_usize(dbg, "next_priority")?,
        iterations: field_usize(dbg, "iterations")?,
    })
}

// ------------------------------------------------------------------------------------------------
// statement-level behavioural oracle
// ------------------------------------------------------------------------------------------------

#[derive(Clone, Debug)]
pub struct Decision {
    pub offered: Vec<u8>,
    pub current: Option<u8>,
    pub yielding: bool,
    pub chosen: u8,
}

pub fn permutations(n: usize) -> Vec<Vec<u8>> {
    fn rec(cur: &mut Vec<u8>, used: &mut Vec<bool>, n: usize, out: &mut Vec<Vec<u8>>) {
        if cur.len() == n {
            out.push(cur.clone());
            return;
        }
        for i in 0..n {
            if !used[i] {
                used[i] = true;
                cur.push(i as u8);
                rec(cur, used, n, out);
                cur.pop();
                used[i] = false;
            }
        }
    }
    let mut out = Vec::new();
    rec(&mut Vec::new(), &mut vec![false; n], n, &mut out);
    out
}

#[inline]
fn pack(o: &[u8]) -> u32 {
    let mut v = 0u32;
    for (i, t) in o.iter().enumerate() {
        v |= (*t as u32) << (4 * i);
    }
    v
}

#[inline]
fn top_packed(o: u32, n: usize, offered_mask: u32) -> u8 {
    for i in 0..n {
        let x = (o >> (4 * i)) & 0xF;
        if offered_mask & (1 << x) != 0 {
            return x as u8;
        }
    }
    0xFF
}

/// all orders obtained from `o` by moving task `t` to a strictly lower rank
#[inline]
fn demotions_packed(o: u32, n: usize, t: u8, out: &mut Vec<u32>) {
    out.clear();
    let mut items = [0u8; 8];
    let mut r = usize::MAX;
    for i in 0..n {
        items[i] = ((o >> (4 * i)) & 0xF) as u8;
        if items[i] == t {
            r = i;
        }
    }
    if r == usize::MAX {
        return;
    }
    // remove t, then insert it at every rank below its old one
    for target in r + 1..n {
        let mut v = 0u32;
        let mut k = 0;
        for (i, it) in items.iter().enumerate().take(n) {
            if i == r {
                continue;
            }
            v |= (*it as u32) << (4 * k);
            k += 1;
            if k == target {
                v |= (t as u32) << (4 * k);
                k += 1;
            }
        }
        out.push(v);
    }
}

/// Statement-level oracle.  Is the decision trace consistent with SOME strict priority order over
/// ids `0..n` (n <= 8) that changes only when the running task yields or at no more than
/// `depth - 1` change points, each change lowering only `current` (to any lower rank; the reference
/// model's "to the lowest" is one of them; a yield may also leave the order unchanged)?
/// (No task creation: all ids below 16 have a priority from the start.)  Ok(number of surviving
/// candidates) or Err(index of the first decision that no candidate explains).
pub fn consistent_with_some_order(trace: &[Decision], n: usize, depth: usize, perms: &[Vec<u8>]) -> Result<usize, usize> {
    debug_assert!(n <= 8 && perms.first().map(|p| p.len()) == Some(n));
    // candidate = (packed order, change points used)
    let mut cands: Vec<(u32, u8)> = perms.iter().map(|p| (pack(p), 0u8)).collect();
    let mut next: Vec<(u32, u8)> = Vec::with_capacity(cands.len() * 2);
    let mut dem: Vec<u32> = Vec::with_capacity(8);
    for (i, d) in trace.iter().enumerate() {
        next.clear();
        let mut mask = 0u32;
        for t in &d.offered {
            mask |= 1 << *t;
        }
        for &(o, used) in &cands {
            if top_packed(o, n, mask) == d.chosen {
                next.push((o, used));
            }
            if let Some(c) = d.current {
                let free = d.yielding;
                if free || (used as usize) + 1 < depth {
                    demotions_packed(o, n, c, &mut dem);
                    for &o2 in &dem {
                        if top_packed(o2, n, mask) == d.chosen {
                            next.push((o2, if free { used } else { used + 1 }));
                        }
                    }
                }
            }
        }
        if next.is_empty() {
            return Err(i);
        }
        next.sort_unstable();
        next.dedup();
        // a candidate with fewer change points used subsumes the same order with more
        let mut w = 0;
        for r in 0..next.len() {
            if w > 0 && next[w - 1].0 == next[r].0 {
                continue;
            }
            next[w] = next[r];
            w += 1;
        }
        next.truncate(w);
        std::mem::swap(&mut cands, &mut next);
    }
    Ok(cands.len())
}

// ------------------------------------------------------------------------------------------------
// bug programs and the exact hit probability of the model
// ------------------------------------------------------------------------------------------------

/// set of schedules (leaf indices)
#[derive(Clone, Debug, PartialEq, Eq, PartialOrd, Ord)]
pub struct Bits(pub Vec<u64>);

impl Bits {
    pub fn new(n: usize) -> Bits {
        Bits(vec![0; n.div_ceil(64)])
    }
    pub fn set(&mut self, i: usize) {
        self.0[i / 64] |= 1 << (i % 64);
    }
    pub fn get(&self, i: usize) -> bool {
        self.0[i / 64] & (1 << (i % 64)) != 0
    }
    pub fn and(&self, o: &Bits) -> Bits {
        Bits(self.0.iter().zip(o.0.iter()).map(|(a, b)| a & b).collect())
    }
    pub fn is_empty(&self) -> bool {
        self.0.iter().all(|w| *w == 0)
    }
    pub fn subset_of(&self, o: &Bits) -> bool {
        self.0.iter().zip(o.0.iter()).all(|(a, b)| a & !b == 0)
    }
}

/// An event = (task, index of the step within the task); a constraint (a, b) = a happens before b.
pub type Event = (u8, u8);
pub type Constraint = (Event, Event);

pub struct ProgInfo {
    pub prog: CounterProg,
    pub tree: ATree,
    /// arena ids of the leaves
    pub leaves: Vec<u16>,
    /// for every leaf: position of every event in the schedule, indexed [task][step]
    pub pos: Vec<Vec<Vec<u8>>>,
    /// number of multi-choice decisions on the path to each leaf
    pub multi: Vec<usize>,
    /// settled estimate of k: the maximum over all schedules
    pub k: usize,
    pub leaf_index: Vec<u32>,
    /// per task: index of its first step that counts as an observable event.  In the runtime an
    /// operation executes at the *beginning* of a step (right after the scheduling point that
    /// precedes it), so a task's first step (from its start to its first scheduling point) carries
    /// no operation; main's spawn steps carry none either.
    pub event_from: Vec<u8>,
}

impl ProgInfo {
    /// every step is an event (a task's first scheduled step already has a visible effect)
    pub fn new(prog: CounterProg) -> ProgInfo {
        let ef = vec![0u8; prog.n()];
        ProgInfo::with_events(prog, ef)
    }

    /// the runtime's shape: the first step of every task is a prologue without operation
    pub fn realistic(prog: CounterProg) -> ProgInfo {
        let n = prog.n();
        let ef: Vec<u8> = (0..n).map(|i| if i == 0 && prog.spawn { (n as u8 - 1).max(1) } else { 1 }).collect();
        ProgInfo::with_events(prog, ef)
    }

    pub fn with_events(prog: CounterProg, event_from: Vec<u8>) -> ProgInfo {
        let tree = prog.tree();
        let leaves = tree.cut_ends(usize::MAX);
        let n = prog.n();
        let mut pos = Vec::new();
        let mut multi = Vec::new();
        let mut leaf_index = vec![u32::MAX; tree.nodes.len()];
        for (li, l) in leaves.iter().enumerate() {
            leaf_index[*l as usize] = li as u32;
            // walk up to collect the path
            let mut path: Vec<(u16, u8)> = Vec::new(); // (parent node, pos in parent)
            let mut at = *l;
            while tree.nodes[at as usize].parent != u16::MAX {
                let p = tree.nodes[at as usize].parent;
                path.push((p, tree.nodes[at as usize].pos_in_parent));
                at = p;
            }
            path.reverse();
            let mut done = vec![0u8; n];
            let mut ps: Vec<Vec<u8>> = (0..n).map(|i| vec![0u8; prog.total(i) as usize]).collect();
            let mut m = 0usize;
            for (step, (node, j)) in path.iter().enumerate() {
                let nd = &tree.nodes[*node as usize];
                if nd.arity > 1 {
                    m += 1;
                }
                let t = nd.ids[*j as usize] as usize;
                ps[t][done[t] as usize] = step as u8;
                done[t] += 1;
            }
            pos.push(ps);
            multi.push(m);
        }
        let k = multi.iter().copied().max().unwrap_or(0);
        ProgInfo {
            prog,
            tree,
            leaves,
            pos,
            multi,
            k,
            leaf_index,
            event_from,
        }
    }

    /// the same program viewed with a different estimate of k
    pub fn with_k(&self, k: usize) -> ProgView<'_> {
        ProgView { pi: self, k }
    }

    /// total number of scheduling steps of the program (the k of the PCT paper)
    pub fn total_steps(&self) -> usize {
        (0..self.prog.n()).map(|i| self.prog.total(i) as usize).sum()
    }

    pub fn events(&self) -> Vec<Event> {
        let mut v = Vec::new();
        for t in 0..self.prog.n() {
            for i in self.event_from[t]..self.prog.total(t) {
                v.push((t as u8, i));
            }
        }
        v
    }

    /// all cross-task constraints
    pub fn constraints(&self) -> Vec<Constraint> {
        let ev = self.events();
        let mut v = Vec::new();
        for a in &ev {
            for b in &ev {
                if a.0 != b.0 {
                    v.push((*a, *b));
                }
            }
        }
        v
    }

    /// bitset (over leaves) of the schedules that satisfy the constraint
    pub fn sat(&self, c: &Constraint) -> Bits {
        let mut s = Bits::new(self.pos.len());
        for (li, ps) in self.pos.iter().enumerate() {
            if ps[c.0 .0 as usize][c.0 .1 as usize] < ps[c.1 .0 as usize][c.1 .1 as usize] {
                s.set(li);
            }
        }
        s
    }

    /// Run the model from (order, change points) with a settled estimate; returns the leaf index.
    pub fn model_leaf(&self, order: &[u8], cps: &[usize], transitions: &mut u64) -> u32 {
        let mut m = PctModel {
            order: order.to_vec(),
            change_points: cps.to_vec(),
            steps: 0,
            max_steps: self.k,
        };
        let mut at = 0u16;
        let mut current: Option<u8> = None;
        loop {
            let nd = &self.tree.nodes[at as usize];
            if nd.arity == 0 {
                return self.leaf_index[at as usize];
            }
            let off = &nd.ids[..nd.arity as usize];
            let c = m.decide(off, current, nd.yielding);
            *transitions += 1;
            let j = off.iter().position(|x| *x == c).unwrap();
            current = Some(c);
            at = nd.kids[j];
        }
    }
}

pub struct ProgView<'a> {
    pub pi: &'a ProgInfo,
    pub k: usize,
}

impl ProgView<'_> {
    pub fn model_leaf(&self, order: &[u8], cps: &[usize], transitions: &mut u64) -> u32 {
        let mut m = PctModel {
            order: order.to_vec(),
            change_points: cps.to_vec(),
            steps: 0,
            max_steps: self.k,
        };
        let pi = self.pi;
        let mut at = 0u16;
        let mut current: Option<u8> = None;
        loop {
            let nd = &pi.tree.nodes[at as usize];
            if nd.arity == 0 {
                return pi.leaf_index[at as usize];
            }
            let off = &nd.ids[..nd.arity as usize];
            let c = m.decide(off, current, nd.yielding);
            *transitions += 1;
            let j = off.iter().position(|x| *x == c).unwrap();
            current = Some(c);
            at = nd.kids[j];
        }
    }
}

/// all subsets of {1, .., k-1} of size r, each sorted ascending
pub fn change_point_sets(k: usize, r: usize) -> Vec<Vec<usize>> {
    fn rec(start: usize, k: usize, r: usize, cur: &mut Vec<usize>, out: &mut Vec<Vec<usize>>) {
        if cur.len() == r {
            out.push(cur.clone());
            return;
        }
        for v in start..k {
            cur.push(v);
            rec(v + 1, k, r, cur, out);
            cur.pop();
        }
    }
    let mut out = Vec::new();
    rec(1, k, r, &mut Vec::new(), &mut out);
    out
}

/// number of change points the statement / implementation uses for depth d with estimate k
pub fn num_points(d: usize, k: usize) -> usize {
    (d - 1).min(k.saturating_sub(1))
}

/// The value PCT's running estimate of k settles at for depth parameter d: start from the
/// estimation run (oldest task first, yields demote), then close under "a schedule the model can
/// produce with the current estimate has more multi-choice steps".
pub fn settled_k(pi: &ProgInfo, d: usize, perms: &[Vec<u8>]) -> usize {
    let mut t = 0u64;
    let ident: Vec<u8> = (0..pi.prog.n() as u8).collect();
    let est = pi.with_k(1usize.max(0)).model_leaf(&ident, &[], &mut t);
    let mut k = pi.multi[est as usize];
    loop {
        let view = pi.with_k(k);
        let sets = change_point_sets(k, num_points(d, k));
        let mut k2 = k;
        for o in perms {
            for cps in &sets {
                let l = view.model_leaf(o, cps, &mut t);
                k2 = k2.max(pi.multi[l as usize]);
            }
        }
        if k2 == k {
            return k;
        }
        k = k2;
    }
}

/// Exact leaf distribution of the model for depth parameter d with estimate `pi.k`: count of
/// (order, change-point set) pairs per leaf, and the total number of pairs.
pub fn model_distribution(pi: &ProgInfo, d: usize, perms: &[Vec<u8>], states: &mut u64, transitions: &mut u64) -> (Vec<u64>, u64) {
    let sets = change_point_sets(pi.k, num_points(d, pi.k));
    let mut cnt = vec![0u64; pi.leaves.len()];
    let mut total = 0u64;
    for o in perms {
        for cps in &sets {
            let l = pi.model_leaf(o, cps, transitions);
            cnt[l as usize] += 1;
            total += 1;
            *states += 1;
        }
    }
    (cnt, total)
}

#[derive(Clone, Debug)]
pub struct Bug {
    pub constraints: Vec<Constraint>,
    pub leaves: Bits,
    /// minimal number of ordering constraints that guarantee the bug
    pub depth: usize,
}

/// All distinct bugs "the schedules satisfying C" for constraint sets of size <= maxc, with their
/// exact depth (the least number of constraints whose non-empty satisfying set lies inside the bug).
pub fn bugs(pi: &ProgInfo, maxc: usize) -> Vec<Bug> {
    let cons = pi.constraints();
    let sats: Vec<Bits> = cons.iter().map(|c| pi.sat(c)).collect();
    // satisfying sets of all constraint sets of size 1..=maxc (indices ascending)
    let mut by_size: Vec<Vec<(Vec<usize>, Bits)>> = vec![Vec::new(); maxc + 1];
    for i in 0..cons.len() {
        if !sats[i].is_empty() {
            by_size[1].push((vec![i], sats[i].clone()));
        }
    }
    for sz in 2..=maxc {
        let prev = by_size[sz - 1].clone();
        for (idx, s) in prev {
            let last = *idx.last().unwrap();
            for j in last + 1..cons.len() {
                let s2 = s.and(&sats[j]);
                if !s2.is_empty() {
                    let mut i2 = idx.clone();
                    i2.push(j);
                    by_size[sz].push((i2, s2));
                }
            }
        }
    }
    let mut seen: BTreeSet<Bits> = BTreeSet::new();
    let mut out = Vec::new();
    for sz in 1..=maxc {
        for (idx, s) in &by_size[sz] {
            if !seen.insert(s.clone()) {
                continue; // the same set of schedules was already produced by a set of at most this size
            }
            // depth: smallest size of a constraint set whose (non-empty) satisfying set is inside s
            let mut depth = sz;
            'outer: for sz2 in 1..sz {
                for (_, s2) in &by_size[sz2] {
                    if s2.subset_of(s) {
                        depth = sz2;
                        break 'outer;
                    }
                }
            }
            out.push(Bug {
                constraints: idx.iter().map(|i| cons[*i]).collect(),
                leaves: s.clone(),
                depth,
            });
        }
    }
    out
}
