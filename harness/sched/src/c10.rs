//! C10 — RandomScheduler / UrwRandomScheduler: seed-deterministic, reproducible per iteration,
//! unbiased.  E3 (abstract trees) x E4 (every seed of an interval), plus the real runtime and
//! child processes for the "failing seed" print and the SHUTTLE_RANDOM_SEED override.

use crate::par;
use crate::rec::{self, RunLog};
use crate::tasks::Universe;
use crate::tree::{drive, mix, ATree, CounterProg, DriveErr, ExecRec, Family, Labelling};
use serde_json::{json, Value};
use shuttle_engine::scheduler::{Scheduler, Task, TaskId};
use shuttle_schedulers::{RandomScheduler, UrwRandomScheduler};
use std::time::{Duration, Instant};
use vx::common::{CheckCtx, CheckResult, Tier};

const SIGMAS: f64 = 6.5;

pub fn within(count: u64, n: u64, p: f64) -> bool {
    let mean = n as f64 * p;
    let sd = (n as f64 * p * (1.0 - p)).sqrt();
    (count as f64 - mean).abs() <= SIGMAS * sd
}

#[derive(Clone, Copy, Debug, PartialEq, Eq)]
pub enum Kind {
    Random,
    Urw,
}

impl Kind {
    fn name(&self) -> &'static str {
        match self {
            Kind::Random => "random",
            Kind::Urw => "urw",
        }
    }
}

/// Scheduler under test behind one type so that the generic drivers stay monomorphic.
pub enum Sut {
    R(RandomScheduler),
    U(UrwRandomScheduler),
}

impl Sut {
    pub fn new(kind: Kind, seed: u64, iters: usize) -> Sut {
        match kind {
            Kind::Random => Sut::R(RandomScheduler::new_from_seed(seed, iters)),
            Kind::Urw => Sut::U(UrwRandomScheduler::new_from_seed(seed, iters)),
        }
    }
}

impl Scheduler for Sut {
    fn new_execution(&mut self) -> Option<shuttle_engine::scheduler::Schedule> {
        match self {
            Sut::R(s) => s.new_execution(),
            Sut::U(s) => s.new_execution(),
        }
    }
    fn next_task(&mut self, r: &[&Task], c: Option<TaskId>, y: bool) -> Option<TaskId> {
        match self {
            Sut::R(s) => s.next_task(r, c, y),
            Sut::U(s) => s.next_task(r, c, y),
        }
    }
    fn next_u64(&mut self) -> u64 {
        match self {
            Sut::R(s) => s.next_u64(),
            Sut::U(s) => s.next_u64(),
        }
    }
}

/// Drive a scheduler over `tree` until `new_execution` returns None (at most `cap` executions).
fn run_all<'u, S: Scheduler>(
    s: &mut S,
    tree: &ATree,
    uni: &'u Universe,
    cap: usize,
    buf: &mut Vec<&'u Task>,
) -> Result<Vec<ExecRec>, String> {
    let mut out = Vec::new();
    loop {
        let sch = match s.new_execution() {
            None => return Ok(out),
            Some(s) => s,
        };
        if out.len() >= cap {
            return Err(format!("more than {} executions", cap));
        }
        let mut r = ExecRec {
            seed: sch.seed,
            ..Default::default()
        };
        match drive(s, tree, uni, None, true, buf, &mut r) {
            Ok(()) => {}
            Err(DriveErr::ReturnedNone { at }) => return Err(format!("next_task returned None at node {}", at)),
            Err(DriveErr::NotOffered { at, got }) => return Err(format!("task {} not offered at node {}", got, at)),
        }
        out.push(r);
    }
}

/// Clauses (1) and (2) for one (kind, seed, iterations, tree). Returns executions performed.
fn det_case<'u>(
    kind: Kind,
    seed: u64,
    iters: usize,
    tree: &ATree,
    uni: &'u Universe,
    buf: &mut Vec<&'u Task>,
) -> Result<u64, String> {
    let a = run_all(&mut Sut::new(kind, seed, iters), tree, uni, iters, buf)?;
    let b = run_all(&mut Sut::new(kind, seed, iters), tree, uni, iters, buf)?;
    let mut n = (a.len() + b.len()) as u64;
    if a.len() != iters {
        return Err(format!("{} executions for max_iterations={}", a.len(), iters));
    }
    if a != b {
        let i = a.iter().zip(b.iter()).position(|(x, y)| x != y).unwrap_or(a.len().min(b.len()));
        return Err(format!(
            "two instances with the same seed diverge at iteration {}: {:?} vs {:?}",
            i + 1,
            a.get(i),
            b.get(i)
        ));
    }
    if kind == Kind::Random {
        for (i, e) in a.iter().enumerate() {
            let c = run_all(&mut Sut::new(kind, e.seed, 1), tree, uni, 1, buf)?;
            n += c.len() as u64;
            if c.len() != 1 || c[0] != *e {
                return Err(format!(
                    "iteration {} (schedule seed {}) is not reproduced by new_from_seed(that seed, 1): original {:?}, replayed {:?}",
                    i + 1,
                    e.seed,
                    e,
                    c.first()
                ));
            }
        }
    }
    Ok(n)
}

fn lab(scheme: u8, universe: u8, yields: bool, draws: bool) -> Labelling {
    Labelling {
        scheme,
        universe,
        yields,
        draws,
    }
}

/// The fixed abstract programs every seed of the interval is run on: (name, tree, usable for URW)
pub fn fixed_trees() -> Vec<(String, ATree, bool)> {
    let mut v = Vec::new();
    let f33 = Family::new(3, 3);
    let f24 = Family::new(2, 4);
    let f42 = Family::new(4, 2);
    let rich = lab(1, 6, true, true);
    let s0 = lab(0, 4, true, true);
    v.push(("full-3ary-depth3/rich".to_string(), f33.build(f33.size() - 1, &rich), false));
    v.push(("full-4ary-depth2/rich".to_string(), f24.build(f24.size() - 1, &rich), false));
    v.push(("full-2ary-depth4/rich".to_string(), f42.build(f42.size() - 1, &rich), false));
    v.push(("full-3ary-depth3/ids0..".to_string(), f33.build(f33.size() - 1, &s0), true));
    v.push(("shape-d3b3-4321/ids0..".to_string(), f33.build(4321, &s0), true));
    v.push(("shape-d3b3-600000/ids0..".to_string(), f33.build(600_000, &s0), true));
    for (steps, spawn, yields) in [
        (vec![1u8, 2, 2], true, vec![0u8, 0, 0]),
        (vec![1, 1, 1, 1], true, vec![0, 0, 0, 0]),
        (vec![2, 2, 1], false, vec![1, 2, 0]),
    ] {
        let p = CounterProg { steps, spawn, yields };
        v.push((p.name(), p.tree(), true));
    }
    v
}

#[derive(Default)]
struct Acc {
    cases: u64,
    execs: u64,
    problems: Vec<(String, String, Value)>,
    capped: bool,
}

impl Acc {
    fn merge(&mut self, o: Acc) {
        self.cases += o.cases;
        self.execs += o.execs;
        self.capped |= o.capped;
        self.problems.extend(o.problems);
    }
    /// `again`: did the re-execution of the case report a violation too? (determinism self-check)
    fn problem_rechecked(&mut self, again: bool, key: String, what: String, replay: Value) {
        if self.problems.len() < 3 {
            let tag = if again { "[re-executed: reproduces]" } else { "[re-executed: no violation the second time - the scheduler is not deterministic]" };
            self.problems.push((key, format!("{} {}", what, tag), replay));
        }
    }
}

fn guarded<T>(f: impl FnOnce() -> Result<T, String>) -> Result<T, String> {
    match std::panic::catch_unwind(std::panic::AssertUnwindSafe(f)) {
        Ok(r) => r,
        Err(e) => Err(format!("scheduler panicked: {}", rec::payload_text(&e))),
    }
}

/// A1: every seed of the interval x fixed trees x both schedulers.
fn sweep_seeds(s0: u64, n: u64, nthreads: usize, deadline: Instant) -> Acc {
    let trees = fixed_trees();
    let outs = par::shards(nthreads, |shard, ns| {
        let uni = Universe::flat(16);
        let mut buf: Vec<&Task> = Vec::new();
        let mut acc = Acc::default();
        let mut k = shard as u64;
        while k < n {
            if (k / ns as u64) % 256 == 0 && Instant::now() > deadline {
                acc.capped = true;
                break;
            }
            let seed = s0.wrapping_add(k);
            for (name, tree, urw_ok) in &trees {
                for kind in [Kind::Random, Kind::Urw] {
                    if kind == Kind::Urw && !urw_ok {
                        continue;
                    }
                    // 5 iterations for every seed; 1..4 for one seed in sixteen
                    let its: &[usize] = if k % 16 == 0 { &[1, 2, 3, 4, 5] } else { &[5] };
                    for &it in its {
                        acc.cases += 1;
                        match guarded(|| det_case(kind, seed, it, tree, &uni, &mut buf)) {
                            Ok(e) => acc.execs += e,
                            Err(what) => acc.problem_rechecked(guarded(|| det_case(kind, seed, it, tree, &uni, &mut buf)).is_err(),
                                format!("abstract-{}:{}:seed{}:it{}", kind.name(), name, seed, it),
                                format!("{} scheduler, seed {}, {} iterations, abstract program {}: {}", kind.name(), seed, it, name, what),
                                json!({"kind":"abstract-det","sched":kind.name(),"seed":seed.to_string(),"iterations":it,"tree":tree.to_json()}),
                            ),
                        }
                    }
                }
            }
            k += ns as u64;
        }
        acc
    });
    let mut a = Acc::default();
    for o in outs {
        a.merge(o);
    }
    a
}

/// A2: every tree of depth<=3/branching<=3 x two seeds of the interval.
fn sweep_trees(s0: u64, n: u64, nthreads: usize, deadline: Instant) -> Acc {
    let fam = Family::new(3, 3);
    let rich = lab(1, 6, true, true);
    let ids0 = lab(0, 4, true, true);
    let outs = par::shards(nthreads, |shard, ns| {
        let uni = Universe::flat(16);
        let mut buf: Vec<&Task> = Vec::new();
        let mut acc = Acc::default();
        let mut x = shard as u128;
        let mut c = 0u64;
        while x < fam.size() {
            c += 1;
            if c % 1024 == 0 && Instant::now() > deadline {
                acc.capped = true;
                break;
            }
            for (kind, l) in [(Kind::Random, &rich), (Kind::Urw, &ids0)] {
                if kind == Kind::Urw && x == 0 {
                    continue; // a body without any scheduling decision does not exist in the runtime
                }
                let tree = fam.build(x, l);
                for j in 0..2u64 {
                    let seed = s0.wrapping_add(mix(x as u64 ^ (j << 40)) % n);
                    acc.cases += 1;
                    match guarded(|| det_case(kind, seed, 3, &tree, &uni, &mut buf)) {
                        Ok(e) => acc.execs += e,
                        Err(what) => acc.problem_rechecked(guarded(|| det_case(kind, seed, 3, &tree, &uni, &mut buf)).is_err(),
                            format!("abstract-{}:d3b3:{}:seed{}", kind.name(), x, seed),
                            format!("{} scheduler, seed {}, 3 iterations, tree #{} of depth<=3/branching<=3 ({}): {}", kind.name(), seed, x, l.name(), what),
                            json!({"kind":"abstract-det","sched":kind.name(),"seed":seed.to_string(),"iterations":3,"tree":tree.to_json()}),
                        ),
                    }
                }
            }
            x += ns as u128;
        }
        acc
    });
    let mut a = Acc::default();
    for o in outs {
        a.merge(o);
    }
    a
}

// ------------------------------------------------------------------------------------------------
// A3: distribution probes
// ------------------------------------------------------------------------------------------------

const PD: usize = 4; // decisions per probe execution
const PIT: usize = 3; // iterations per seed

#[derive(Clone, Debug)]
pub struct ProbeCfg {
    pub ls: [u8; PD],
    /// position at which `current` is placed in the offered list at steps >= 1: Some(c) (clamped to
    /// L-1), or None = current is not offered
    pub cpos: Option<u8>,
}

impl ProbeCfg {
    fn name(&self) -> String {
        format!(
            "L{:?}-current@{}",
            self.ls,
            match self.cpos {
                None => "absent".to_string(),
                Some(c) => c.to_string(),
            }
        )
    }
}

pub fn probe_cfgs() -> Vec<ProbeCfg> {
    let mut v = Vec::new();
    for l in 2..=4u8 {
        v.push(ProbeCfg { ls: [l; PD], cpos: None });
        for c in 0..l {
            v.push(ProbeCfg { ls: [l; PD], cpos: Some(c) });
        }
    }
    for ls in [[2u8, 3, 4, 2], [4, 3, 2, 4], [3, 1, 4, 2], [1, 2, 1, 3]] {
        v.push(ProbeCfg { ls, cpos: Some(1) });
        v.push(ProbeCfg { ls, cpos: None });
    }
    v
}

/// counts[iter][depth][prevpos(0..4, 4 = none)][pos]
type ProbeCounts = Vec<u64>;
fn pidx(it: usize, d: usize, prev: usize, pos: usize) -> usize {
    ((it * PD + d) * 5 + prev) * 4 + pos
}

fn probe_one<S: Scheduler>(s: &mut S, cfg: &ProbeCfg, uni: &Universe, counts: &mut ProbeCounts) -> Result<(), String> {
    let mut buf: Vec<&Task> = Vec::with_capacity(4);
    for it in 0..PIT {
        if s.new_execution().is_none() {
            return Err(format!("new_execution returned None at iteration {}", it + 1));
        }
        let mut prev_id: Option<usize> = None;
        let mut prev_pos = 4usize;
        for d in 0..PD {
            let l = cfg.ls[d] as usize;
            let base = match (prev_id, cfg.cpos) {
                (None, _) => 16,
                (Some(p), Some(c)) => p - (c as usize).min(l - 1),
                (Some(p), None) => p + 1,
            };
            buf.clear();
            for i in 0..l {
                buf.push(&uni.tasks[base + i]);
            }
            let got = s
                .next_task(&buf[..], prev_id.map(TaskId::from), d % 2 == 1)
                .ok_or_else(|| "next_task returned None".to_string())?;
            let gid: usize = got.into();
            if gid < base || gid >= base + l {
                return Err(format!("task {} not offered", gid));
            }
            let pos = gid - base;
            counts[pidx(it, d, prev_pos, pos)] += 1;
            prev_id = Some(gid);
            prev_pos = pos;
        }
    }
    // let the scheduler finish (RandomScheduler prints "failing seed" when dropped mid-run)
    if s.new_execution().is_some() {
        return Err(format!("more than {} executions", PIT));
    }
    Ok(())
}

fn probes(kind: Kind, s0: u64, n: u64, nthreads: usize) -> (Vec<ProbeCounts>, Vec<String>) {
    let cfgs = probe_cfgs();
    let sz = PIT * PD * 5 * 4;
    let outs = par::shards(nthreads, |shard, ns| {
        let uni = Universe::flat(48);
        let mut counts: Vec<ProbeCounts> = cfgs.iter().map(|_| vec![0u64; sz]).collect();
        let mut errs: Vec<String> = Vec::new();
        let mut k = shard as u64;
        while k < n {
            let seed = s0.wrapping_add(k);
            for (ci, cfg) in cfgs.iter().enumerate() {
                let r = guarded(|| probe_one(&mut Sut::new(kind, seed, PIT), cfg, &uni, &mut counts[ci]));
                if let Err(e) = r {
                    if errs.len() < 2 {
                        errs.push(format!("seed {} probe {}: {}", seed, cfg.name(), e));
                    }
                }
            }
            k += ns as u64;
        }
        (counts, errs)
    });
    let mut total: Vec<ProbeCounts> = cfgs.iter().map(|_| vec![0u64; sz]).collect();
    let mut errs = Vec::new();
    for (c, e) in outs {
        for (t, cc) in total.iter_mut().zip(c.iter()) {
            for (a, b) in t.iter_mut().zip(cc.iter()) {
                *a += *b;
            }
        }
        errs.extend(e);
    }
    (total, errs)
}

/// Evaluate the probe counts of one configuration: returns (cells checked, worst |z|, complaints)
fn eval_probe(cfg: &ProbeCfg, counts: &ProbeCounts, n: u64) -> (u64, f64, Vec<String>) {
    let mut cells = 0u64;
    let mut worst = 0f64;
    let mut bad = Vec::new();
    let z = |c: u64, p: f64| -> f64 {
        let mean = n as f64 * p;
        let sd = (n as f64 * p * (1.0 - p)).sqrt();
        if sd == 0.0 {
            if (c as f64 - mean).abs() < 0.5 {
                0.0
            } else {
                f64::INFINITY
            }
        } else {
            (c as f64 - mean) / sd
        }
    };
    for it in 0..PIT {
        for d in 0..PD {
            let l = cfg.ls[d] as usize;
            // marginal over previous position
            for pos in 0..l {
                let c: u64 = (0..5).map(|pv| counts[pidx(it, d, pv, pos)]).sum();
                let zz = z(c, 1.0 / l as f64);
                cells += 1;
                worst = worst.max(zz.abs());
                if zz.abs() > SIGMAS {
                    bad.push(format!(
                        "iteration {} decision {} (L={}): position {} chosen {} times of {} (expected {:.0}, z={:.1})",
                        it + 1, d, l, pos, c, n, n as f64 / l as f64, zz
                    ));
                }
            }
            // joint with the previous choice (independence of history)
            if d >= 1 {
                let lp = cfg.ls[d - 1] as usize;
                for pv in 0..lp {
                    for pos in 0..l {
                        let c = counts[pidx(it, d, pv, pos)];
                        let p = 1.0 / (l * lp) as f64;
                        let zz = z(c, p);
                        cells += 1;
                        worst = worst.max(zz.abs());
                        if zz.abs() > SIGMAS {
                            bad.push(format!(
                                "iteration {} decision {} (L={}) after previous position {} (L'={}): position {} chosen {} times of {} (expected {:.0}, z={:.1})",
                                it + 1, d, l, pv, lp, pos, c, n, n as f64 * p, zz
                            ));
                        }
                    }
                }
            }
        }
    }
    (cells, worst, bad)
}

// ------------------------------------------------------------------------------------------------
// A4: every leaf of every depth<=3 tree is visited within the interval; leaf frequencies
// ------------------------------------------------------------------------------------------------

struct LeafCov {
    trees: u64,
    execs: u64,
    max_seeds_needed: u64,
    problems: Vec<(String, String, Value)>,
    capped: bool,
}

fn leaf_coverage(s0: u64, n: u64, nthreads: usize, deadline: Instant) -> LeafCov {
    let fam = Family::new(3, 3);
    let plain = Labelling::plain();
    let outs = par::shards(nthreads, |shard, ns| {
        let uni = Universe::flat(16);
        let mut buf: Vec<&Task> = Vec::new();
        let mut lc = LeafCov {
            trees: 0,
            execs: 0,
            max_seeds_needed: 0,
            problems: Vec::new(),
            capped: false,
        };
        let mut x = shard as u128;
        let mut c = 0u64;
        let mut rec = ExecRec::default();
        while x < fam.size() {
            c += 1;
            if c % 512 == 0 && Instant::now() > deadline {
                lc.capped = true;
                break;
            }
            let tree = fam.build(x, &plain);
            let mut seen = vec![false; tree.nodes.len()];
            let mut missing = tree.leaves;
            let mut k = 0u64;
            // one scheduler per tree, seeded from the interval, run for up to n iterations; by clause
            // (2) iteration i is the same execution as new_from_seed(seed_i, 1)
            let seed = s0.wrapping_add(mix(x as u64) % n);
            let mut s = Sut::new(Kind::Random, seed, n as usize);
            while missing > 0 && k < n {
                let ok = guarded(|| {
                    s.new_execution().ok_or("no execution")?;
                    drive(&mut s, &tree, &uni, None, false, &mut buf, &mut rec).map_err(|e| format!("{:?}", e))
                });
                if ok.is_err() {
                    break;
                }
                lc.execs += 1;
                if !seen[rec.end as usize] {
                    seen[rec.end as usize] = true;
                    missing -= 1;
                }
                k += 1;
            }
            drop(s); // prints "failing seed" (muted): the instance is abandoned mid-run
            lc.trees += 1;
            lc.max_seeds_needed = lc.max_seeds_needed.max(k);
            if missing > 0 && lc.problems.len() < 3 {
                let miss: Vec<Vec<u8>> = tree
                    .cut_ends(usize::MAX)
                    .into_iter()
                    .filter(|e| !seen[*e as usize])
                    .map(|e| tree.path_to(e))
                    .collect();
                lc.problems.push((
                    format!("leaf-coverage:d3b3:{}", x),
                    format!("RandomScheduler::new_from_seed({}, {}) never reaches {} of the {} leaves of tree #{} (depth<=3, branching<=3) in {} iterations: e.g. path {:?}", seed, n, missing, tree.leaves, x, k, miss.first()),
                    json!({"kind":"leaf-coverage","tree":tree.to_json(),"seed":seed.to_string(),"iterations":n}),
                ));
            }
            x += ns as u128;
        }
        lc
    });
    let mut t = LeafCov {
        trees: 0,
        execs: 0,
        max_seeds_needed: 0,
        problems: Vec::new(),
        capped: false,
    };
    for o in outs {
        t.trees += o.trees;
        t.execs += o.execs;
        t.max_seeds_needed = t.max_seeds_needed.max(o.max_seeds_needed);
        t.capped |= o.capped;
        t.problems.extend(o.problems);
    }
    t
}

/// Leaf frequencies on the fixed trees: Random = product of 1/L along the path within tolerance;
/// URW (iterations 2..3, i.e. after the estimation run) = every offered task chosen at every node.
fn leaf_freqs(s0: u64, n: u64, nthreads: usize) -> (Vec<Value>, Vec<(String, String, Value)>, u64) {
    let trees = fixed_trees();
    let outs = par::shards(nthreads, |shard, ns| {
        let uni = Universe::flat(16);
        let mut buf: Vec<&Task> = Vec::new();
        // per tree: leaf visit counts for Random (iteration 1), edge counts for URW (iterations 2,3)
        let mut rc: Vec<Vec<u64>> = trees.iter().map(|(_, t, _)| vec![0u64; t.nodes.len()]).collect();
        let mut uc: Vec<Vec<u64>> = trees.iter().map(|(_, t, _)| vec![0u64; t.nodes.len()]).collect();
        let mut errs = 0u64;
        let mut k = shard as u64;
        while k < n {
            let seed = s0.wrapping_add(k);
            for (ti, (_, tree, urw_ok)) in trees.iter().enumerate() {
                match guarded(|| run_all(&mut Sut::new(Kind::Random, seed, 1), tree, &uni, 1, &mut buf)) {
                    Ok(v) => {
                        for e in v {
                            rc[ti][e.end as usize] += 1;
                        }
                    }
                    Err(_) => errs += 1,
                }
                if *urw_ok {
                    match guarded(|| run_all(&mut Sut::new(Kind::Urw, seed, 3), tree, &uni, 3, &mut buf)) {
                        Ok(v) => {
                            for e in v.iter().skip(1) {
                                // count every node on the path (edge into it)
                                let mut at = e.end;
                                while at != 0 {
                                    uc[ti][at as usize] += 1;
                                    at = tree.nodes[at as usize].parent;
                                }
                                uc[ti][0] += 1;
                            }
                        }
                        Err(_) => errs += 1,
                    }
                }
            }
            k += ns as u64;
        }
        (rc, uc, errs)
    });
    let mut rc: Vec<Vec<u64>> = trees.iter().map(|(_, t, _)| vec![0u64; t.nodes.len()]).collect();
    let mut uc = rc.clone();
    let mut errs = 0;
    for (r, u, e) in outs {
        for (a, b) in rc.iter_mut().zip(r.iter()) {
            for (x, y) in a.iter_mut().zip(b.iter()) {
                *x += *y;
            }
        }
        for (a, b) in uc.iter_mut().zip(u.iter()) {
            for (x, y) in a.iter_mut().zip(b.iter()) {
                *x += *y;
            }
        }
        errs += e;
    }
    let mut rows = Vec::new();
    let mut problems = Vec::new();
    for (ti, (name, tree, urw_ok)) in trees.iter().enumerate() {
        let leaves = tree.cut_ends(usize::MAX);
        let mut worst = 0f64;
        let mut minc = u64::MAX;
        let mut maxc = 0u64;
        for l in &leaves {
            // probability = product of 1/arity along the path
            let mut p = 1.0f64;
            let mut at = *l;
            while at != 0 {
                at = tree.nodes[at as usize].parent;
                p /= tree.nodes[at as usize].arity as f64;
            }
            let c = rc[ti][*l as usize];
            minc = minc.min(c);
            maxc = maxc.max(c);
            let sd = (n as f64 * p * (1.0 - p)).sqrt();
            let z = if sd > 0.0 { (c as f64 - n as f64 * p) / sd } else { 0.0 };
            worst = worst.max(z.abs());
            if !within(c, n, p) || c == 0 {
                problems.push((
                    format!("leaf-frequency:random:{}", name),
                    format!("RandomScheduler on abstract program {}: leaf {:?} reached by {} of {} seeds, expected {:.0} (z={:.1}); every schedule should have probability prod(1/L)", name, tree.path_to(*l), c, n, n as f64 * p, z),
                    json!({"kind":"leaf-frequency","sched":"random","tree":tree.to_json(),"s0":s0.to_string(),"n":n}),
                ));
                break;
            }
        }
        let mut urw_min_edge = u64::MAX;
        if *urw_ok {
            for (i, nd) in tree.nodes.iter().enumerate() {
                if uc[ti][i] == 0 && i != 0 {
                    problems.push((
                        format!("positive-probability:urw:{}", name),
                        format!("UrwRandomScheduler on abstract program {}: the offered task leading to path {:?} was never chosen in {} post-estimation executions although its parent decision was reached {} times", name, tree.path_to(i as u16), 2 * n, uc[ti][nd.parent as usize]),
                        json!({"kind":"leaf-frequency","sched":"urw","tree":tree.to_json(),"s0":s0.to_string(),"n":n}),
                    ));
                    break;
                }
                if i != 0 {
                    urw_min_edge = urw_min_edge.min(uc[ti][i]);
                }
            }
        }
        rows.push(json!({"program":name,"leaves":leaves.len(),"random_leaf_count_min":minc,"random_leaf_count_max":maxc,"random_worst_abs_z":(worst*100.0).round()/100.0,
            "urw_checked":urw_ok,"urw_min_edge_count": if *urw_ok { json!(urw_min_edge) } else { Value::Null }}));
    }
    (rows, problems, errs)
}

// ------------------------------------------------------------------------------------------------
// real runtime (child processes)
// ------------------------------------------------------------------------------------------------

const REAL_BODIES: &[&str] = &["atomic-2x2", "draws", "branchy", "yield-spin", "mutex-2x1", "nested-spawn"];

fn real_case(kind: Kind, bname: &str, seed: u64, iters: usize) -> Result<(u64, u64), String> {
    let body = rec::body(bname).unwrap();
    let run = |seed: u64, iters: usize| -> (RunLog, Option<String>) {
        match kind {
            Kind::Random => rec::record_run(RandomScheduler::new_from_seed(seed, iters), &body, rec::quiet_config()),
            Kind::Urw => rec::record_run(UrwRandomScheduler::new_from_seed(seed, iters), &body, rec::quiet_config()),
        }
    };
    let (a, pa) = run(seed, iters);
    let (b, pb) = run(seed, iters);
    let mut execs = (a.execs.len() + b.execs.len()) as u64;
    if let Some(p) = pa.or(pb) {
        return Err(format!("run panicked: {}", p));
    }
    if a.execs.len() != iters || !a.ended {
        return Err(format!("{} executions for max_iterations={}", a.execs.len(), iters));
    }
    if a.execs != b.execs {
        let i = a.execs.iter().zip(b.execs.iter()).position(|(x, y)| x != y).unwrap_or(0);
        return Err(format!(
            "two runs with the same seed differ at iteration {}: {} vs {}",
            i + 1,
            a.execs.get(i).map(|e| e.to_json()).unwrap_or_default(),
            b.execs.get(i).map(|e| e.to_json()).unwrap_or_default()
        ));
    }
    if kind == Kind::Random {
        for (i, e) in a.execs.iter().enumerate() {
            let (c, pc) = run(e.seed, 1);
            execs += c.execs.len() as u64;
            if pc.is_some() || c.execs.len() != 1 || c.execs[0] != *e {
                return Err(format!(
                    "iteration {} (seed {}) not reproduced by new_from_seed(seed, 1): original {} replay {}",
                    i + 1,
                    e.seed,
                    e.to_json(),
                    c.execs.first().map(|e| e.to_json()).unwrap_or_default()
                ));
            }
        }
    }
    // E3 cross-validation
    let calls = match kind {
        Kind::Random => rec::replay_abstract(&a, &mut RandomScheduler::new_from_seed(seed, iters)),
        Kind::Urw => rec::replay_abstract(&a, &mut UrwRandomScheduler::new_from_seed(seed, iters)),
    }
    .map_err(|e| format!("MACHINERY abstract driver does not reproduce the runtime run: {}", e))?;
    Ok((execs, calls))
}

fn child_real(a: &[String]) {
    vx::common::silence_panics();
    let lo: u64 = a[1].parse().unwrap();
    let hi: u64 = a[2].parse().unwrap();
    let iters: usize = a[3].parse().unwrap();
    let mut execs = 0u64;
    let mut calls = 0u64;
    let mut cases = 0u64;
    let mut problems: Vec<Value> = Vec::new();
    let mut k = lo;
    while k != hi {
        for b in REAL_BODIES {
            for kind in [Kind::Random, Kind::Urw] {
                cases += 1;
                match real_case(kind, b, k, iters) {
                    Ok((e, c)) => {
                        execs += e;
                        calls += c;
                    }
                    Err(what) => {
                        if problems.len() < 3 {
                            problems.push(json!({"key":format!("runtime-{}:{}:seed{}", kind.name(), b, k),
                                "what":format!("{} scheduler, seed {}, {} iterations, real body {}: {}", kind.name(), k, iters, b, what),
                                "replay":{"kind":"real","sched":kind.name(),"body":b,"seed":k.to_string(),"iterations":iters}}));
                        }
                    }
                }
            }
        }
        k = k.wrapping_add(1);
    }
    println!("{}", json!({"cases":cases,"execs":execs,"calls":calls,"problems":problems}));
}

thread_local! {
    static BODY_EXECS: std::cell::Cell<u64> = const { std::cell::Cell::new(0) };
}

fn counting_body() -> impl Fn() + Send + Sync + 'static {
    let b = rec::body("lost-update").unwrap();
    move || {
        BODY_EXECS.with(|c| c.set(c.get() + 1));
        rec::BODY_DRAWS.with(|d| d.borrow_mut().clear());
        b()
    }
}

/// child: c10-fail <mode> <seed> <iters>; the shuttle messages go to stderr (captured by the parent)
fn child_fail(a: &[String]) {
    let mode = a[1].as_str();
    let seed: u64 = a[2].parse().unwrap();
    let iters: usize = a[3].parse().unwrap();
    let mut out = serde_json::Map::new();
    let r = match mode {
        "rec" => {
            let (recd, log) = rec::Recorder::new(RandomScheduler::new_from_seed(seed, iters));
            let body = counting_body();
            let r = std::panic::catch_unwind(std::panic::AssertUnwindSafe(move || {
                shuttle_engine::Runner::new(recd, shuttle_engine::Config::new()).run(body);
            }));
            let l = log.borrow();
            out.insert("seeds".into(), json!(l.execs.iter().map(|e| e.seed.to_string()).collect::<Vec<_>>()));
            out.insert("last_choices".into(), json!(l.execs.last().map(|e| e.choices()).unwrap_or_default()));
            r
        }
        "api-env" => std::panic::catch_unwind(|| shuttle::check_random(counting_body(), iters)),
        "api-seed" => std::panic::catch_unwind(|| shuttle::check_random_with_seed(counting_body(), seed, iters)),
        _ => {
            eprintln!("unknown mode");
            std::process::exit(2)
        }
    };
    out.insert("panicked".into(), json!(r.is_err()));
    if let Err(e) = r {
        out.insert("payload".into(), json!(rec::payload_text(&e)));
    }
    out.insert("executions".into(), json!(BODY_EXECS.with(|c| c.get())));
    out.insert(
        "last_draws".into(),
        json!(rec::BODY_DRAWS.with(|d| d.borrow().iter().map(|v| v.to_string()).collect::<Vec<_>>())),
    );
    println!("{}", Value::Object(out));
}

pub fn child(a: &[String]) {
    match a[0].as_str() {
        "c10-real" => child_real(a),
        "c10-fail" => child_fail(a),
        _ => std::process::exit(2),
    }
}

/// the text between the quote lines that follow `marker` in shuttle's stderr output
pub fn quoted_after(stderr: &str, marker: &str) -> Vec<String> {
    let lines: Vec<&str> = stderr.lines().collect();
    let mut out = Vec::new();
    for i in 0..lines.len() {
        if lines[i].trim() == marker && i + 3 < lines.len() + 1 && lines.get(i + 1).map(|l| l.trim()) == Some("\"") {
            if let Some(v) = lines.get(i + 2) {
                out.push(v.trim().to_string());
            }
        }
    }
    out
}

struct FailObs {
    panicked: bool,
    executions: u64,
    printed_seeds: Vec<String>,
    schedules: Vec<String>,
    last_draws: Vec<String>,
    seeds: Vec<String>,
    raw: Value,
}

fn fail_obs(co: &par::ChildOut) -> Result<FailObs, String> {
    let v = co.json().ok_or_else(|| {
        format!(
            "child produced no result (status {:?}, signal {:?}, timed out {}): {}",
            co.status,
            co.signal,
            co.timed_out,
            co.stderr.lines().rev().take(3).collect::<Vec<_>>().join(" | ")
        )
    })?;
    let strs = |k: &str| -> Vec<String> {
        v[k].as_array()
            .map(|a| a.iter().map(|x| x.as_str().unwrap_or("").to_string()).collect())
            .unwrap_or_default()
    };
    Ok(FailObs {
        panicked: v["panicked"].as_bool().unwrap_or(false),
        executions: v["executions"].as_u64().unwrap_or(0),
        printed_seeds: quoted_after(&co.stderr, "failing seed:"),
        schedules: quoted_after(&co.stderr, "failing schedule:"),
        last_draws: strs("last_draws"),
        seeds: strs("seeds"),
        raw: v,
    })
}

struct FailSummary {
    seeds_tried: u64,
    failing: u64,
    children: u64,
    distinct_failing_seeds: u64,
    problems: Vec<(String, String, Value)>,
    machinery: Vec<String>,
    sample: Option<Value>,
}

fn failing_seed_children(s0: u64, count: u64, iters: usize) -> FailSummary {
    let mut sum = FailSummary {
        seeds_tried: count,
        failing: 0,
        children: 0,
        distinct_failing_seeds: 0,
        problems: Vec::new(),
        machinery: Vec::new(),
        sample: None,
    };
    let t = Duration::from_secs(60);
    // wave 1: recorder run and check_random under SHUTTLE_RANDOM_SEED, for every seed
    let mut jobs = Vec::new();
    for k in 0..count {
        let s = s0.wrapping_add(k);
        jobs.push((vec!["c10-fail".into(), "rec".into(), s.to_string(), iters.to_string()], vec![]));
        // the scheduler's own seed comes from OsRng here; only the override can make it `s`
        jobs.push((
            vec!["c10-fail".into(), "api-env".into(), "0".into(), iters.to_string()],
            vec![("SHUTTLE_RANDOM_SEED", Some(s.to_string()))],
        ));
    }
    let w1 = par::run_children(jobs, par::ncpu(), t);
    sum.children += w1.len() as u64;
    let mut wave2 = Vec::new();
    let mut ctx2 = Vec::new();
    let mut sigmas = std::collections::BTreeSet::new();
    for k in 0..count as usize {
        let s = s0.wrapping_add(k as u64);
        let replay = json!({"kind":"failing-seed","seed":s.to_string(),"iterations":iters});
        let r = match w1[2 * k].as_ref().map_err(|e| e.clone()).and_then(fail_obs) {
            Ok(o) => o,
            Err(e) => {
                sum.machinery.push(format!("failing-seed child (rec, seed {}): {}", s, e));
                continue;
            }
        };
        let e = match w1[2 * k + 1].as_ref().map_err(|e| e.clone()).and_then(fail_obs) {
            Ok(o) => o,
            Err(e) => {
                sum.machinery.push(format!("failing-seed child (api-env, seed {}): {}", s, e));
                continue;
            }
        };
        if !r.panicked {
            // no failing iteration for this seed: the override must still give the same number of executions
            if e.panicked || e.executions != r.executions {
                sum.problems.push((
                    format!("env-override:seed{}", s),
                    format!("check_random under SHUTTLE_RANDOM_SEED={} behaves differently from new_from_seed({}): panicked {} / {} executions vs not panicked / {}", s, s, e.panicked, e.executions, r.executions),
                    replay.clone(),
                ));
            }
            continue;
        }
        sum.failing += 1;
        let sigma = r.seeds.last().cloned().unwrap_or_default();
        sigmas.insert(sigma.clone());
        if r.printed_seeds.len() != 1 || r.printed_seeds[0] != sigma {
            sum.problems.push((
                format!("failing-seed-print:seed{}", s),
                format!("scheduler seed {}: iteration {} failed; the Schedule returned by new_execution for it has seed {}, but stderr says failing seed {:?}", s, r.executions, sigma, r.printed_seeds),
                replay.clone(),
            ));
        }
        // env override: same failing iteration, same printed seed, same schedule, same draws
        if !e.panicked
            || e.executions != r.executions
            || e.printed_seeds != r.printed_seeds
            || e.schedules != r.schedules
            || e.last_draws != r.last_draws
        {
            sum.problems.push((
                format!("env-override:seed{}", s),
                format!("check_random under SHUTTLE_RANDOM_SEED={} does not behave like new_from_seed({}, {}): panicked {} vs true, executions {} vs {}, failing seed {:?} vs {:?}, schedule {:?} vs {:?}", s, s, iters, e.panicked, e.executions, r.executions, e.printed_seeds, r.printed_seeds, e.schedules, r.schedules),
                replay.clone(),
            ));
        }
        if let Ok(sg) = sigma.parse::<u64>() {
            wave2.push((vec!["c10-fail".into(), "api-seed".into(), sg.to_string(), "1".into()], vec![]));
            ctx2.push((s, r, replay));
        }
    }
    let w2 = par::run_children(wave2, par::ncpu(), t);
    sum.children += w2.len() as u64;
    for ((s, r, replay), o) in ctx2.into_iter().zip(w2.iter()) {
        let w = match o.as_ref().map_err(|e| e.clone()).and_then(fail_obs) {
            Ok(o) => o,
            Err(e) => {
                sum.machinery.push(format!("failing-seed child (api-seed for {}): {}", s, e));
                continue;
            }
        };
        if !w.panicked
            || w.executions != 1
            || w.printed_seeds != r.printed_seeds
            || w.schedules != r.schedules
            || w.last_draws != r.last_draws
        {
            sum.problems.push((
                format!("failing-seed-replay:seed{}", s),
                format!("scheduler seed {}: iteration {} failed with printed seed {:?}; check_random_with_seed(that seed, 1) gives panicked={} executions={} schedule {:?} (original {:?}) draws {:?} (original {:?})", s, r.executions, r.printed_seeds, w.panicked, w.executions, w.schedules, r.schedules, w.last_draws, r.last_draws),
                replay,
            ));
        }
        if sum.sample.is_none() {
            sum.sample = Some(json!({"scheduler_seed":s.to_string(),"failing_iteration":r.executions,"printed_failing_seed":r.printed_seeds,"failing_schedule":r.schedules,"draws_in_failing_iteration":r.last_draws,"replay_with_seed_1_iteration":w.raw}));
        }
    }
    sum.distinct_failing_seeds = sigmas.len() as u64;
    sum
}

// ------------------------------------------------------------------------------------------------
// the check
// ------------------------------------------------------------------------------------------------

pub fn run(ctx: &CheckCtx) -> CheckResult {
    let saved = crate::par::StderrMute::new();
    let res = run_muted(ctx);
    drop(saved);
    res
}

fn run_muted(ctx: &CheckCtx) -> CheckResult {
    std::panic::set_hook(Box::new(|_| {}));
    let mut res = CheckResult::new("exploration");
    let thorough = ctx.tier == Tier::Thorough;
    let nthreads = par::ncpu();
    let n: u64 = if thorough { 1 << 22 } else { 1 << 16 };
    let s0 = ctx.seed.wrapping_mul(n);
    let deadline = ctx.start + if thorough { Duration::from_secs(18 * 60) } else { Duration::from_secs(30) };
    let mut exhaustive = true;

    // children through the real runtime run concurrently with the abstract sweeps
    let n_real: u64 = if thorough { 1 << 12 } else { 1 << 8 };
    let n_fail: u64 = if thorough { 192 } else { 24 };
    let real_thread = std::thread::spawn(move || {
        let nproc = par::ncpu() as u64;
        let per = n_real / nproc.max(1);
        let mut jobs = Vec::new();
        let mut lo = s0;
        for i in 0..nproc {
            let hi = if i + 1 == nproc { s0.wrapping_add(n_real) } else { lo.wrapping_add(per) };
            jobs.push((vec!["c10-real".to_string(), lo.to_string(), hi.to_string(), "3".to_string()], vec![]));
            lo = hi;
        }
        let r = par::run_children(jobs, (par::ncpu() / 2).max(1), Duration::from_secs(if thorough { 900 } else { 40 }));
        let f = failing_seed_children(s0, n_fail, 40);
        (r, f)
    });

    let mut phases: Vec<(String, f64)> = Vec::new();
    let mut t_phase = Instant::now();
    let mut phase = |name: &str, t: &mut Instant| {
        phases.push((name.to_string(), t.elapsed().as_secs_f64()));
        *t = Instant::now();
    };
    // A1
    let a1 = sweep_seeds(s0, n, nthreads, deadline);
    phase("A1 seeds x fixed programs", &mut t_phase);
    // A2
    let a2 = sweep_trees(s0, n, nthreads, deadline);
    phase("A2 all trees x 2 seeds", &mut t_phase);
    exhaustive &= !a1.capped && !a2.capped;
    let mut evals = a1.cases + a2.cases;
    let abstract_execs = a1.execs + a2.execs;
    for (k, w, r) in a1.problems.into_iter().take(3).chain(a2.problems.into_iter().take(3)) {
        res.finding(k, w, r);
    }
    res.cov("abstract_seed_sweep_cases", a1.cases);
    res.cov("abstract_tree_sweep_cases", a2.cases);
    res.cov("abstract_executions", abstract_execs);

    // A3
    let cfgs = probe_cfgs();
    let mut dist_rows = Vec::new();
    let mut dist_cells = 0u64;
    for kind in [Kind::Random] {
        let (counts, errs) = probes(kind, s0, n, nthreads);
        for e in errs {
            res.finding(format!("distribution-probe-error:{}", kind.name()), e, json!({"kind":"distribution","s0":s0.to_string(),"n":n}));
        }
        for (cfg, c) in cfgs.iter().zip(counts.iter()) {
            let (cells, worst, bad) = eval_probe(cfg, c, n);
            dist_cells += cells;
            evals += 1;
            dist_rows.push(json!({"probe":cfg.name(),"cells":cells,"worst_abs_z":(worst*100.0).round()/100.0}));
            if let Some(b) = bad.first() {
                res.finding(
                    format!("distribution:{}:{}", kind.name(), cfg.name()),
                    format!("{} scheduler, probe {}: {} of {} count cells outside {} sigma over the seed interval [{}, +{}): {}", kind.name(), cfg.name(), bad.len(), cells, SIGMAS, s0, n, b),
                    json!({"kind":"distribution","sched":kind.name(),"ls":cfg.ls,"cpos":cfg.cpos,"s0":s0.to_string(),"n":n}),
                );
            }
        }
    }
    phase("A3 distribution probes", &mut t_phase);
    res.cov("distribution_probes", json!(dist_rows));
    res.cov("distribution_cells_checked", dist_cells);

    // A4
    let lc = leaf_coverage(s0, n, nthreads, deadline);
    exhaustive &= !lc.capped && lc.trees as u128 == Family::new(3, 3).size();
    evals += lc.trees;
    phase("A4 leaf coverage", &mut t_phase);
    res.cov("leaf_coverage_trees", lc.trees);
    res.cov("leaf_coverage_executions", lc.execs);
    res.cov("leaf_coverage_max_iterations_needed_for_one_tree", lc.max_seeds_needed);
    for (k, w, r) in lc.problems.into_iter().take(3) {
        res.finding(k, w, r);
    }
    let (rows, probs, errs) = leaf_freqs(s0, n, nthreads);
    phase("A4 leaf frequencies", &mut t_phase);
    res.cov("leaf_frequencies", json!(rows));
    if errs > 0 {
        res.machinery_errors.push(format!("{} scheduler errors during the leaf-frequency sweep (reported by the determinism sweep if genuine)", errs));
    }
    for (k, w, r) in probs {
        res.finding(k, w, r);
    }

    // real runtime
    let (real, fails) = real_thread.join().unwrap();
    phase("waiting for runtime children", &mut t_phase);
    res.cov("phase_seconds", json!(phases.iter().map(|(k, v)| json!([k, (v * 10.0).round() / 10.0])).collect::<Vec<_>>()));
    let mut real_cases = 0u64;
    let mut real_execs = 0u64;
    let mut calls = 0u64;
    for r in real {
        match r {
            Err(e) => res.machinery_errors.push(format!("runtime child: {}", e)),
            Ok(co) => match co.json() {
                None => res.machinery_errors.push(format!(
                    "runtime child produced no result (status {:?} signal {:?} timed_out {}): {}",
                    co.status,
                    co.signal,
                    co.timed_out,
                    co.stderr.lines().rev().take(3).collect::<Vec<_>>().join(" | ")
                )),
                Some(v) => {
                    real_cases += v["cases"].as_u64().unwrap_or(0);
                    real_execs += v["execs"].as_u64().unwrap_or(0);
                    calls += v["calls"].as_u64().unwrap_or(0);
                    for p in v["problems"].as_array().cloned().unwrap_or_default() {
                        let what = p["what"].as_str().unwrap_or("").to_string();
                        if what.contains("MACHINERY") {
                            res.machinery_errors.push(what);
                        } else {
                            res.finding(p["key"].as_str().unwrap_or("?"), what, p["replay"].clone());
                        }
                    }
                }
            },
        }
    }
    evals += real_cases + fails.seeds_tried;
    res.cov("runtime_cases", real_cases);
    res.cov("runtime_seed_interval", json!([s0.to_string(), n_real]));
    res.cov("runtime_executions", real_execs);
    res.cov("e3_cross_validation_scheduler_calls_reproduced", calls);
    res.cov("failing_seed_scheduler_seeds_tried", fails.seeds_tried);
    res.cov("failing_seed_runs_that_failed", fails.failing);
    res.cov("failing_seed_distinct_printed_seeds", fails.distinct_failing_seeds);
    res.cov("failing_seed_child_processes", fails.children);
    for m in fails.machinery {
        res.machinery_errors.push(m);
    }
    for (k, w, r) in fails.problems.into_iter().take(4) {
        res.finding(k, w, r);
    }
    if let Some(s) = fails.sample {
        res.sample(s);
    }
    if fails.failing < 2 {
        res.machinery_errors.push(format!("only {} of {} failing-seed runs failed at all: the failing body is not exercising the clause", fails.failing, fails.seeds_tried));
    }
    {
        let trees = fixed_trees();
        let uni = Universe::flat(16);
        let mut buf: Vec<&Task> = Vec::new();
        let (name, tree, _) = &trees[8];
        if let Ok(v) = run_all(&mut Sut::new(Kind::Random, s0, 2), tree, &uni, 2, &mut buf) {
            res.sample(json!({"abstract_program":name,"tree":tree.to_json(),"scheduler":"RandomScheduler","seed":s0.to_string(),
                "executions": v.iter().map(|e| json!({"schedule_seed":e.seed.to_string(),"choices":e.choices,"draws":e.draws.iter().map(|d| d.to_string()).collect::<Vec<_>>()})).collect::<Vec<_>>()}));
        }
    }

    res.cov("seed_interval", json!({"s0": s0.to_string(), "n": n}));
    res.cov("evaluations", evals);
    res.cov("distinct_nontrivial", a1.cases + a2.cases + real_cases);
    res.cov("rule", "a case = (scheduler kind, seed, iteration count, program); every seed of [s0, s0+n) is used with each fixed abstract program, every tree of depth<=3/branching<=3 with two seeds of the interval, every seed of the runtime sub-interval with each real body; non-trivial = the program has >= 2 schedules (all programs used do) so that two runs can differ; distribution: exact counts over the whole interval per probe configuration");
    res.cov("distribution_clause_label", "evidence about a distribution from an exhaustively enumerated seed interval (exact counts, fixed 6.5-sigma tolerance), not a proof over all 2^64 seeds");
    res.cov("exhaustive", exhaustive);
    res.cov("worker_threads", nthreads as u64);
    res.assumptions.push("rand's SliceRandom::choose / choose_weighted and Pcg64Mcg are trusted; uniformity is measured over the enumerated seed interval only".into());
    res.assumptions.push("UrwRandomScheduler is only driven over abstract programs in which task ids appear in ascending order without gaps starting at 0 (what the runtime produces; it panics otherwise by design)".into());
    res.assumptions.push("SHUTTLE_RANDOM_SEED and SHUTTLE_ALWAYS_PERSIST_SEED are removed from the environment of the check itself".into());
    res
}

// ------------------------------------------------------------------------------------------------
// replay
// ------------------------------------------------------------------------------------------------

pub fn replay(doc: &Value) {
    let r = &doc["replay"];
    let kind = match r["sched"].as_str() {
        Some("urw") => Kind::Urw,
        _ => Kind::Random,
    };
    let seed: u64 = r["seed"].as_str().and_then(|s| s.parse().ok()).unwrap_or(0);
    let iters = r["iterations"].as_u64().unwrap_or(1) as usize;
    match r["kind"].as_str() {
        Some("abstract-det") => {
            let tree = ATree::from_json(&r["tree"]);
            let uni = Universe::flat(16);
            let mut buf: Vec<&Task> = Vec::new();
            println!("{} scheduler, seed {}, {} iterations, tree {}", kind.name(), seed, iters, r["tree"]);
            for inst in 0..2 {
                match guarded(|| run_all(&mut Sut::new(kind, seed, iters), &tree, &uni, iters, &mut buf)) {
                    Ok(v) => {
                        for (i, e) in v.iter().enumerate() {
                            println!("instance {} iteration {}: seed {} choices {:?} draws {:?}", inst, i + 1, e.seed, e.choices, e.draws);
                            if inst == 0 && kind == Kind::Random {
                                let c = guarded(|| run_all(&mut Sut::new(kind, e.seed, 1), &tree, &uni, 1, &mut buf));
                                println!("   new_from_seed({}, 1): {:?}", e.seed, c.map(|c| c.first().map(|x| (x.choices.clone(), x.draws.clone()))));
                            }
                        }
                    }
                    Err(e) => println!("instance {}: {}", inst, e),
                }
            }
            println!("verdict of the case: {:?}", guarded(|| det_case(kind, seed, iters, &tree, &uni, &mut buf)));
        }
        Some("distribution") => {
            let s0: u64 = r["s0"].as_str().and_then(|s| s.parse().ok()).unwrap_or(0);
            let n = r["n"].as_u64().unwrap_or(1 << 16);
            let (counts, errs) = probes(kind, s0, n, par::ncpu());
            for e in errs {
                println!("probe error: {}", e);
            }
            for (cfg, c) in probe_cfgs().iter().zip(counts.iter()) {
                let (cells, worst, bad) = eval_probe(cfg, c, n);
                println!("probe {}: {} cells, worst |z| {:.2}, {} outside tolerance", cfg.name(), cells, worst, bad.len());
                for b in bad.iter().take(5) {
                    println!("   {}", b);
                }
            }
        }
        Some("leaf-coverage") => {
            let tree = ATree::from_json(&r["tree"]);
            let uni = Universe::flat(16);
            let mut buf: Vec<&Task> = Vec::new();
            let mut cnt = vec![0u64; tree.nodes.len()];
            let _mute = par::StderrMute::new();
            if let Ok(v) = guarded(|| run_all(&mut Sut::new(Kind::Random, seed, iters), &tree, &uni, iters, &mut buf)) {
                for e in v {
                    cnt[e.end as usize] += 1;
                }
            }
            println!("RandomScheduler::new_from_seed({}, {}): leaf visit counts", seed, iters);
            for l in tree.cut_ends(usize::MAX) {
                println!("  path {:?}: {}", tree.path_to(l), cnt[l as usize]);
            }
        }
        Some("leaf-frequency") => {
            let tree = ATree::from_json(&r["tree"]);
            let s0: u64 = r["s0"].as_str().and_then(|s| s.parse().ok()).unwrap_or(0);
            let n = r["n"].as_u64().unwrap_or(1 << 16);
            let uni = Universe::flat(16);
            let mut buf: Vec<&Task> = Vec::new();
            let mut cnt = vec![0u64; tree.nodes.len()];
            for k in 0..n {
                let its = if kind == Kind::Urw { 3 } else { 1 };
                if let Ok(v) = guarded(|| run_all(&mut Sut::new(kind, s0.wrapping_add(k), its), &tree, &uni, its, &mut buf)) {
                    for e in v.iter().skip(its - 1) {
                        cnt[e.end as usize] += 1;
                    }
                }
            }
            println!("{} scheduler over seeds [{}, +{}): leaf visit counts", kind.name(), s0, n);
            for l in tree.cut_ends(usize::MAX) {
                println!("  path {:?}: {}", tree.path_to(l), cnt[l as usize]);
            }
        }
        Some("real") => {
            vx::common::silence_panics();
            let b = r["body"].as_str().unwrap_or("atomic-2x2");
            println!("{} scheduler, seed {}, {} iterations, real body {}", kind.name(), seed, iters, b);
            println!("verdict of the case: {:?}", real_case(kind, b, seed, iters));
        }
        Some("failing-seed") => {
            let f = failing_seed_children(seed, 1, iters);
            println!("failing runs: {} ; sample: {}", f.failing, f.sample.unwrap_or_default());
            for (k, w, _) in f.problems {
                println!("{} :: {}", k, w);
            }
            for m in f.machinery {
                println!("machinery: {}", m);
            }
        }
        k => {
            eprintln!("unknown replay kind {:?}", k);
            std::process::exit(2);
        }
    }
}
