//! Parallelism helpers: scoped worker threads for the pure scheduler-automaton work (E3/E4), child
//! processes (re-exec of this binary) for everything that goes through the real runtime or needs a
//! private environment / stderr.

use serde_json::Value;
use std::io::Read;
use std::process::{Command, Stdio};
use std::time::{Duration, Instant};

pub fn ncpu() -> usize {
    std::thread::available_parallelism().map(|n| n.get()).unwrap_or(4).min(32)
}

/// Run `f(shard, nshards)` on `n` threads and collect the results in shard order.
pub fn shards<R: Send>(n: usize, f: impl Fn(usize, usize) -> R + Sync) -> Vec<R> {
    let f = &f;
    std::thread::scope(|sc| {
        let hs: Vec<_> = (0..n)
            .map(|i| {
                std::thread::Builder::new()
                    .stack_size(16 << 20)
                    .spawn_scoped(sc, move || f(i, n))
                    .expect("spawn worker thread")
            })
            .collect();
        hs.into_iter()
            .map(|h| match h.join() {
                Ok(r) => r,
                Err(e) => std::panic::resume_unwind(e),
            })
            .collect()
    })
}

pub struct ChildOut {
    pub status: Option<i32>,
    pub signal: Option<i32>,
    pub stdout: String,
    pub stderr: String,
    pub timed_out: bool,
}

impl ChildOut {
    /// last line of stdout that parses as JSON
    pub fn json(&self) -> Option<Value> {
        self.stdout
            .lines()
            .rev()
            .find_map(|l| serde_json::from_str::<Value>(l.trim()).ok())
    }
}

/// Re-exec this binary as `child <args..>` with extra/removed environment variables.
pub fn spawn_child(args: &[String], env: &[(&str, Option<String>)], timeout: Duration) -> Result<ChildOut, String> {
    use std::os::unix::process::ExitStatusExt;
    let exe = Ok::<std::path::PathBuf, std::io::Error>(std::path::PathBuf::from("/proc/self/exe")).map_err(|e| format!("current_exe: {}", e))?;
    let mut cmd = Command::new(exe);
    cmd.arg("child").args(args);
    cmd.stdin(Stdio::null()).stdout(Stdio::piped()).stderr(Stdio::piped());
    // children must not inherit a seed override unless the case asks for one
    cmd.env_remove("SHUTTLE_RANDOM_SEED");
    cmd.env_remove("SHUTTLE_ALWAYS_PERSIST_SEED");
    cmd.env_remove("RUST_BACKTRACE");
    for (k, v) in env {
        match v {
            Some(v) => {
                cmd.env(k, v);
            }
            None => {
                cmd.env_remove(k);
            }
        }
    }
    let mut ch = cmd.spawn().map_err(|e| format!("spawn child: {}", e))?;
    let mut so = ch.stdout.take().unwrap();
    let mut se = ch.stderr.take().unwrap();
    let t_out = std::thread::spawn(move || {
        let mut s = Vec::new();
        let _ = so.read_to_end(&mut s);
        String::from_utf8_lossy(&s).into_owned()
    });
    let t_err = std::thread::spawn(move || {
        let mut s = Vec::new();
        let _ = se.read_to_end(&mut s);
        String::from_utf8_lossy(&s).into_owned()
    });
    let start = Instant::now();
    let mut timed_out = false;
    let status = loop {
        match ch.try_wait() {
            Ok(Some(st)) => break st,
            Ok(None) => {
                if start.elapsed() > timeout {
                    let _ = ch.kill();
                    timed_out = true;
                    break ch.wait().map_err(|e| format!("wait: {}", e))?;
                }
                std::thread::sleep(Duration::from_millis(2));
            }
            Err(e) => return Err(format!("try_wait: {}", e)),
        }
    };
    Ok(ChildOut {
        status: status.code(),
        signal: status.signal(),
        stdout: t_out.join().unwrap_or_default(),
        stderr: t_err.join().unwrap_or_default(),
        timed_out,
    })
}

/// Run a list of child jobs with at most `par` running at a time; results in job order.
pub fn run_children(
    jobs: Vec<(Vec<String>, Vec<(&'static str, Option<String>)>)>,
    par: usize,
    timeout: Duration,
) -> Vec<Result<ChildOut, String>> {
    let n = jobs.len();
    let next = std::sync::atomic::AtomicUsize::new(0);
    let results: Vec<std::sync::Mutex<Option<Result<ChildOut, String>>>> =
        (0..n).map(|_| std::sync::Mutex::new(None)).collect();
    std::thread::scope(|sc| {
        for _ in 0..par.min(n.max(1)) {
            sc.spawn(|| loop {
                let i = next.fetch_add(1, std::sync::atomic::Ordering::SeqCst);
                if i >= n {
                    break;
                }
                let (args, env) = &jobs[i];
                let r = spawn_child(args, env, timeout);
                *results[i].lock().unwrap() = Some(r);
            });
        }
    });
    results
        .into_iter()
        .map(|m| m.into_inner().unwrap().unwrap_or_else(|| Err("job not run".into())))
        .collect()
}

/// Mutes fd 2 while alive (the schedulers under test print to stderr, e.g. RandomScheduler's
/// "failing seed" when an instance is dropped mid-run); restores it on drop.
pub struct StderrMute {
    saved: std::fs::File,
}

impl StderrMute {
    pub fn new() -> StderrMute {
        StderrMute {
            saved: vx::common::mute_stderr(),
        }
    }
}

impl Drop for StderrMute {
    fn drop(&mut self) {
        use std::os::fd::AsRawFd;
        unsafe {
            libc::dup2(self.saved.as_raw_fd(), 2);
        }
    }
}
