use vx::common::{CheckCtx, CheckResult};
pub fn run(_ctx: &CheckCtx) -> CheckResult { CheckResult::new("exploration") }
pub fn replay(_doc: &serde_json::Value) {}
pub fn child(_a: &[String]) {}
