//! C11 — PCT: strict priorities, at most depth-1 change points, detection bound, exact iteration
//! count, seed determinism.  Level: model checking — the reference model (pct_model.rs) is
//! enumerated exhaustively (all priority orders x all change-point sets) and the real
//! `PctScheduler` is compared with it decision by decision over abstract programs (E3) and a seed
//! interval (E4).

use crate::c10::within;
use crate::par;
use crate::pct_model::{
    bugs, change_point_sets, consistent_with_some_order, model_distribution, num_points, parse_snapshot, permutations, Decision,
    PctModel, ProgInfo, Snapshot,
};
use crate::rec;
use crate::tasks::Universe;
use crate::tree::{mix, ATree, CounterProg, ExecRec, Family, Labelling};
use serde_json::{json, Value};
use shuttle_engine::scheduler::{Schedule, Scheduler, Task, TaskId};
use shuttle_schedulers::PctScheduler;
use std::time::{Duration, Instant};
use vx::common::{CheckCtx, CheckResult, Tier};

pub enum Sut {
    P(PctScheduler),
}

impl Sut {
    pub fn new(seed: u64, depth: usize, iters: usize) -> Sut {
        Sut::P(PctScheduler::new_from_seed(seed, depth, iters))
    }
    /// read-only view of the internals through the derived Debug implementation
    pub fn snapshot(&self) -> Option<Snapshot> {
        let s = match self {
            Sut::P(p) => format!("{:?}", p),
        };
        parse_snapshot(&s)
    }
}

impl Scheduler for Sut {
    fn new_execution(&mut self) -> Option<Schedule> {
        match self {
            Sut::P(s) => s.new_execution(),
        }
    }
    fn next_task(&mut self, r: &[&Task], c: Option<TaskId>, y: bool) -> Option<TaskId> {
        match self {
            Sut::P(s) => s.next_task(r, c, y),
        }
    }
    fn next_u64(&mut self) -> u64 {
        match self {
            Sut::P(s) => s.next_u64(),
        }
    }
}

#[derive(Default, Clone, Debug)]
pub struct PStats {
    pub cases: u64,
    pub executions: u64,
    pub decisions: u64,
    /// executions (iteration >= 2) matched decision by decision against the reference model
    pub matched: u64,
    pub snapshots: u64,
    pub nfa_checked: u64,
    pub creations: u64,
    pub change_points_fired: u64,
    pub yield_demotions: u64,
    pub capped: bool,
}

impl PStats {
    fn add(&mut self, o: &PStats) {
        self.cases += o.cases;
        self.executions += o.executions;
        self.decisions += o.decisions;
        self.matched += o.matched;
        self.snapshots += o.snapshots;
        self.nfa_checked += o.nfa_checked;
        self.creations += o.creations;
        self.change_points_fired += o.change_points_fired;
        self.yield_demotions += o.yield_demotions;
        self.capped |= o.capped;
    }
}

fn guarded<T>(f: impl FnOnce() -> Result<T, String>) -> Result<T, String> {
    match std::panic::catch_unwind(std::panic::AssertUnwindSafe(f)) {
        Ok(r) => r,
        Err(e) => Err(format!("scheduler panicked: {}", rec::payload_text(&e))),
    }
}

/// longest common subsequence length (tiny inputs)
fn lcs(a: &[u8], b: &[u8]) -> usize {
    let mut dp = vec![vec![0usize; b.len() + 1]; a.len() + 1];
    for i in 0..a.len() {
        for j in 0..b.len() {
            dp[i + 1][j + 1] = if a[i] == b[j] { dp[i][j] + 1 } else { dp[i][j + 1].max(dp[i + 1][j]) };
        }
    }
    dp[a.len()][b.len()]
}

/// Drive PCT over `tree` for `iters` iterations with the full oracle.
/// `nfa_ids`: size of the id universe for the statement-level oracle (0 = skip it).
#[allow(clippy::too_many_arguments)]
pub fn pct_checked<'u>(
    seed: u64,
    depth: usize,
    iters: usize,
    tree: &ATree,
    uni: &'u Universe,
    nfa: Option<(usize, &[Vec<u8>])>,
    deep: bool,
    st: &mut PStats,
) -> Result<Vec<ExecRec>, String> {
    let mut s = Sut::new(seed, depth, iters);
    let mut buf: Vec<&Task> = Vec::with_capacity(4);
    let mut out: Vec<ExecRec> = Vec::with_capacity(iters);
    let mut est_k = 0usize; // our own count of the maximum number of multi-choice steps seen so far
    let mut trace: Vec<Decision> = Vec::new();
    for it in 0..=iters {
        let sch = s.new_execution();
        if it == iters {
            if sch.is_some() {
                return Err(format!("a {}th execution was started with max_iterations={}", it + 1, iters));
            }
            break;
        }
        let sch = match sch {
            Some(x) => x,
            None => return Err(format!("only {} executions with max_iterations={}", it, iters)),
        };
        st.executions += 1;
        let mut model: Option<PctModel> = None;
        if it >= 1 {
            let snap = s.snapshot().ok_or("MACHINERY cannot parse the scheduler's Debug output")?;
            st.snapshots += 1;
            if snap.max_steps != est_k {
                return Err(format!(
                    "iteration {}: the scheduler's estimate of k is {} but the executions so far had at most {} multi-choice steps",
                    it + 1,
                    snap.max_steps,
                    est_k
                ));
            }
            let want = num_points(depth, est_k);
            let mut cps = snap.change_points.clone();
            cps.sort_unstable();
            cps.dedup();
            if snap.change_points.len() != want || cps.len() != want || cps.iter().any(|c| *c < 1 || *c >= est_k) {
                return Err(format!(
                    "iteration {}: change points {:?} with depth {} and k={}: expected {} distinct points in [1, {})",
                    it + 1,
                    snap.change_points,
                    depth,
                    est_k,
                    want,
                    est_k
                ));
            }
            if !snap.distinct_priorities() || snap.steps != 0 {
                return Err(format!("iteration {}: priorities not distinct or steps != 0 at the start: {:?}", it + 1, snap));
            }
            model = Some(PctModel {
                order: snap.order(),
                change_points: snap.change_points.clone(),
                steps: 0,
                max_steps: est_k,
            });
        }
        // drive one execution
        let mut r = ExecRec {
            seed: sch.seed,
            ..Default::default()
        };
        trace.clear();
        let mut at = 0u16;
        let mut current: Option<u8> = None;
        let mut multi = 0usize;
        loop {
            let nd = &tree.nodes[at as usize];
            if nd.arity == 0 {
                break;
            }
            let ar = nd.arity as usize;
            let off = &nd.ids[..ar];
            uni.offer(off, &mut buf);
            let got = s
                .next_task(&buf[..], current.map(|c| TaskId::from(c as usize)), nd.yielding)
                .ok_or_else(|| format!("next_task returned None at node {}", at))?;
            let gid = usize::from(got) as u8;
            let pos = off
                .iter()
                .position(|x| *x == gid)
                .ok_or_else(|| format!("task {} not offered at node {}", gid, at))?;
            st.decisions += 1;
            if ar > 1 {
                multi += 1;
            }
            if let Some(m) = model.as_mut() {
                let before = m.clone();
                let all_known = off.iter().all(|t| m.knows(*t));
                if all_known {
                    let predicted = m.decide(off, current, nd.yielding);
                    let fired = ar > 1 && before.change_points.contains(&before.steps);
                    if fired {
                        st.change_points_fired += 1;
                    }
                    if ar > 1 && nd.yielding {
                        st.yield_demotions += 1;
                    }
                    let mut ok = predicted == gid;
                    if deep {
                        let snap = s.snapshot().ok_or("MACHINERY cannot parse the scheduler's Debug output")?;
                        st.snapshots += 1;
                        let so = snap.order();
                        let so_known: Vec<u8> = so.iter().copied().filter(|t| before.knows(*t)).collect();
                        let mut allowed = so_known == m.order;
                        if !allowed && nd.yielding && !fired {
                            // the statement permits, but does not require, a change when the running task yields
                            allowed = so_known == before.order;
                            if allowed {
                                m.order = before.order.clone();
                            }
                        }
                        if !allowed {
                            return Err(format!(
                                "iteration {} decision {} (offered {:?}, current {:?}, yielding {}, step counter {}, change points {:?}): priority order became {:?}, the model allows {:?}",
                                it + 1, trace.len(), off, current, nd.yielding, before.steps, before.change_points, so_known, m.order
                            ));
                        }
                        if snap.steps != m.steps {
                            return Err(format!(
                                "iteration {} decision {} (offered {:?}): the scheduler counts {} steps, the model {} multi-choice steps",
                                it + 1, trace.len(), off, snap.steps, m.steps
                            ));
                        }
                        let top = m.order.iter().find(|t| off.contains(t)).copied();
                        ok = top == Some(gid);
                    }
                    if !ok {
                        return Err(format!(
                            "iteration {} decision {} (offered {:?}, current {:?}, yielding {}): PctScheduler chose task {}, the reference model chooses {} (model order before the decision {:?}, change points {:?}, step counter {})",
                            it + 1, trace.len(), off, current, nd.yielding, gid, predicted, before.order, before.change_points, before.steps
                        ));
                    }
                } else {
                    // task creation (ids >= 16): the new task's place is random; re-synchronise from a
                    // snapshot and check that nothing else moved except (per new task) one task that
                    // went to the lowest priority, and `current` if a change point / yield applies
                    st.creations += 1;
                    let snap = s.snapshot().ok_or("MACHINERY cannot parse the scheduler's Debug output")?;
                    st.snapshots += 1;
                    if !snap.distinct_priorities() {
                        return Err(format!("iteration {} decision {}: priorities not distinct after task creation", it + 1, trace.len()));
                    }
                    let so = snap.order();
                    let new_ids = so.iter().filter(|t| !before.knows(**t)).count();
                    let so_old: Vec<u8> = so.iter().copied().filter(|t| before.knows(*t)).collect();
                    let may_demote = ar > 1 && (nd.yielding || before.change_points.contains(&before.steps));
                    let moved = before.order.len() - lcs(&before.order, &so_old);
                    if so_old.len() != before.order.len() || moved > new_ids + usize::from(may_demote) {
                        return Err(format!(
                            "iteration {} decision {} (offered {:?}): creating {} task(s) moved {} existing priorities: before {:?} after {:?}",
                            it + 1, trace.len(), off, new_ids, moved, before.order, so_old
                        ));
                    }
                    let top = so.iter().find(|t| off.contains(t)).copied();
                    if top != Some(gid) {
                        return Err(format!(
                            "iteration {} decision {} (offered {:?}): chose {} but the highest-priority offered task is {:?} (order {:?})",
                            it + 1, trace.len(), off, gid, top, so
                        ));
                    }
                    m.order = so;
                    if ar > 1 {
                        m.steps += 1;
                    }
                    if snap.steps != m.steps {
                        return Err(format!("iteration {} decision {}: step counter {} vs model {}", it + 1, trace.len(), snap.steps, m.steps));
                    }
                }
            }
            trace.push(Decision {
                offered: off.to_vec(),
                current,
                yielding: nd.yielding,
                chosen: gid,
            });
            r.choices.push(gid);
            current = Some(gid);
            at = nd.kids[pos];
        }
        r.end = at;
        if multi > est_k {
            est_k = multi;
        }
        if it >= 1 {
            st.matched += 1;
            if let Some((n, perms)) = nfa {
                st.nfa_checked += 1;
                if let Err(i) = consistent_with_some_order(&trace, n, depth, perms) {
                    return Err(format!(
                        "iteration {}: decision {} ({:?}) is not explained by ANY strict priority order over {} tasks that changes only at yields and at <= {} change points demoting the running task; trace {:?}",
                        it + 1, i, trace[i], n, depth - 1, trace
                    ));
                }
            }
        }
        out.push(r);
    }
    Ok(out)
}

/// unchecked run (for the determinism comparison)
fn pct_plain<'u>(seed: u64, depth: usize, iters: usize, tree: &ATree, uni: &'u Universe) -> Result<Vec<ExecRec>, String> {
    let mut s = Sut::new(seed, depth, iters);
    let mut buf: Vec<&Task> = Vec::with_capacity(4);
    let mut out = Vec::new();
    while let Some(sch) = s.new_execution() {
        if out.len() > iters {
            return Err("too many executions".into());
        }
        let mut r = ExecRec {
            seed: sch.seed,
            ..Default::default()
        };
        crate::tree::drive(&mut s, tree, uni, None, false, &mut buf, &mut r).map_err(|e| format!("{:?}", e))?;
        out.push(r);
    }
    Ok(out)
}

struct Case<'a> {
    name: String,
    tree: &'a ATree,
    nfa_ids: usize,
}

fn one_case(c: &Case, seed: u64, depth: usize, iters: usize, uni: &Universe, perms: &[Vec<Vec<u8>>], deep: bool, st: &mut PStats) -> Result<(), String> {
    st.cases += 1;
    match one_case_inner(c, seed, depth, iters, uni, perms, deep, st) {
        Ok(()) => Ok(()),
        Err(what) => {
            // determinism self-check: re-execute the case once and say whether the verdict repeats
            let mut st2 = PStats::default();
            match one_case_inner(c, seed, depth, iters, uni, perms, deep, &mut st2) {
                Err(_) => Err(format!("{} [re-executed: reproduces]", what)),
                Ok(()) => Err(format!("{} [re-executed: no violation the second time - the scheduler is not deterministic]", what)),
            }
        }
    }
}

#[allow(clippy::too_many_arguments)]
fn one_case_inner(c: &Case, seed: u64, depth: usize, iters: usize, uni: &Universe, perms: &[Vec<Vec<u8>>], deep: bool, st: &mut PStats) -> Result<(), String> {
    let nfa = if c.nfa_ids > 0 && c.nfa_ids < perms.len() {
        Some((c.nfa_ids, &perms[c.nfa_ids][..]))
    } else {
        None
    };
    let a = guarded(|| pct_checked(seed, depth, iters, c.tree, uni, nfa, deep, st))?;
    let b = guarded(|| pct_plain(seed, depth, iters, c.tree, uni))?;
    if a != b {
        return Err("two instances with the same seed produce different runs".into());
    }
    Ok(())
}

fn replay_json(seed: u64, depth: usize, iters: usize, tree: &ATree, nfa_ids: usize) -> Value {
    json!({"kind":"abstract-pct","seed":seed.to_string(),"depth":depth,"iterations":iters,"tree":tree.to_json(),"nfa_ids":nfa_ids})
}

type Problems = Vec<(String, String, Value)>;

fn fixed_programs() -> Vec<(String, ATree, usize)> {
    let mut v: Vec<(String, ATree, usize)> = Vec::new();
    for (steps, spawn, yields) in [
        (vec![2u8, 2], false, vec![0u8, 0]),
        (vec![2, 2], false, vec![1, 2]),
        (vec![1, 1, 1], false, vec![0, 0, 0]),
        (vec![2, 2, 2], false, vec![0, 1, 0]),
        (vec![3, 3], false, vec![2, 0]),
        (vec![1, 1, 1, 1], false, vec![0, 0, 0, 0]),
        (vec![1, 2, 2], true, vec![0, 0, 0]),
        (vec![1, 1, 1, 1], true, vec![0, 1, 0, 0]),
        (vec![2, 3], true, vec![4, 0]),
    ] {
        let n = steps.len();
        let p = CounterProg { steps, spawn, yields };
        v.push((p.name(), p.tree(), n));
    }
    let f33 = Family::new(3, 3);
    let f42 = Family::new(4, 2);
    let y0 = Labelling {
        scheme: 0,
        universe: 4,
        yields: true,
        draws: false,
    };
    let rich = Labelling {
        scheme: 2,
        universe: 5,
        yields: true,
        draws: false,
    };
    v.push(("full-3ary-depth3/ids0..+yields".into(), f33.build(f33.size() - 1, &y0), 3));
    v.push(("full-2ary-depth4/current-stays-u5+yields".into(), f42.build(f42.size() - 1, &rich), 5));
    v
}

/// F1: every seed of the interval x fixed programs x depth 1..4, 4 iterations each
fn sweep_seeds(s0: u64, n: u64, nthreads: usize, deadline: Instant) -> (PStats, Problems) {
    let progs = fixed_programs();
    let perms: Vec<Vec<Vec<u8>>> = (0..=6).map(permutations).collect();
    let outs = par::shards(nthreads, |shard, ns| {
        let uni = Universe::flat(16);
        let mut st = PStats::default();
        let mut problems: Problems = Vec::new();
        let mut k = shard as u64;
        while k < n {
            if (k / ns as u64) % 64 == 0 && Instant::now() > deadline {
                st.capped = true;
                break;
            }
            let seed = s0.wrapping_add(k);
            for (name, tree, nids) in &progs {
                let c = Case {
                    name: name.clone(),
                    tree,
                    nfa_ids: *nids,
                };
                for depth in 1..=4usize {
                    if let Err(what) = one_case(&c, seed, depth, 4, &uni, &perms, true, &mut st) {
                        if problems.len() < 2 {
                            problems.push((
                                format!("abstract-pct:{}:seed{}:d{}", c.name, seed, depth),
                                format!("PctScheduler seed {} depth {} on abstract program {}: {}", seed, depth, c.name, what),
                                replay_json(seed, depth, 4, tree, *nids),
                            ));
                        }
                    }
                }
            }
            k += ns as u64;
        }
        (st, problems)
    });
    merge(outs)
}

fn merge(outs: Vec<(PStats, Problems)>) -> (PStats, Problems) {
    let mut st = PStats::default();
    let mut ps = Vec::new();
    for (s, p) in outs {
        st.add(&s);
        ps.extend(p);
    }
    (st, ps)
}

/// F2: every tree shape of a family x labelling x depth 1..4 x seeds from the interval
#[allow(clippy::too_many_arguments)]
fn sweep_trees(
    fam: &Family,
    lab: &Labelling,
    nfa_ids: usize,
    universe: usize,
    seeds_per: u64,
    depths: &[usize],
    s0: u64,
    n: u64,
    nthreads: usize,
    deadline: Instant,
) -> (PStats, Problems, u64) {
    let perms: Vec<Vec<Vec<u8>>> = (0..=6).map(permutations).collect();
    let outs = par::shards(nthreads, |shard, ns| {
        let uni = Universe::flat(universe);
        let mut st = PStats::default();
        let mut problems: Problems = Vec::new();
        let mut trees = 0u64;
        let mut x = shard as u128;
        let mut c = 0u64;
        while x < fam.size() {
            c += 1;
            if c % 256 == 0 && Instant::now() > deadline {
                st.capped = true;
                break;
            }
            let tree = fam.build(x, lab);
            if tree.leaves >= 2 {
                // PCT documents a panic for bodies without any multi-choice step: excluded
                trees += 1;
                let case = Case {
                    name: format!("d{}b{}:{}:{}", fam.d, fam.b, lab.name(), x),
                    tree: &tree,
                    nfa_ids,
                };
                for &depth in depths {
                    for j in 0..seeds_per {
                        let seed = s0.wrapping_add(mix((x as u64) ^ ((depth as u64) << 48) ^ (j << 52)) % n);
                        if let Err(what) = one_case(&case, seed, depth, 3, &uni, &perms, true, &mut st) {
                            if problems.len() < 2 {
                                problems.push((
                                    format!("abstract-pct:{}:seed{}:d{}", case.name, seed, depth),
                                    format!("PctScheduler seed {} depth {} on tree #{} of depth<={}/branching<={} ({}): {}", seed, depth, x, fam.d, fam.b, lab.name(), what),
                                    replay_json(seed, depth, 3, &tree, nfa_ids),
                                ));
                            }
                        }
                    }
                }
            }
            x += ns as u128;
        }
        (st, problems, trees)
    });
    let mut trees = 0;
    let mut o2 = Vec::new();
    for (s, p, t) in outs {
        trees += t;
        o2.push((s, p));
    }
    let (st, ps) = merge(o2);
    (st, ps, trees)
}

// ------------------------------------------------------------------------------------------------
// probability bound: exhaustive model enumeration + seed-interval conformance
// ------------------------------------------------------------------------------------------------

fn bug_programs() -> Vec<CounterProg> {
    let mk = |steps: Vec<u8>, spawn: bool| {
        let n = steps.len();
        CounterProg {
            steps,
            spawn,
            yields: vec![0; n],
        }
    };
    vec![
        // steps = 1 prologue step + operations (flat); spawn: main = n-1 spawn steps + operations
        mk(vec![3, 3], false),
        mk(vec![2, 2, 2], false),
        mk(vec![3, 2, 2], false),
        mk(vec![2, 2, 2, 2], false),
        mk(vec![1, 3, 2], true),
        mk(vec![1, 2, 2, 2], true),
    ]
}

struct ProbOut {
    rows: Vec<Value>,
    problems: Problems,
    states: u64,
    transitions: u64,
    bugs_checked: u64,
    samples: u64,
    executions: u64,
    cells: u64,
    machinery: Vec<String>,
}

const PROB_ITERS: usize = 10;

fn probability(s0: u64, n: u64, nthreads: usize) -> ProbOut {
    let mut out = ProbOut {
        rows: Vec::new(),
        problems: Vec::new(),
        states: 0,
        transitions: 0,
        bugs_checked: 0,
        samples: 0,
        executions: 0,
        cells: 0,
        machinery: Vec::new(),
    };
    for prog in bug_programs() {
        let pi = ProgInfo::realistic(prog.clone());

        let nt = prog.n();
        let perms = permutations(nt);
        let all_bugs = bugs(&pi, 3);
        let k_max = pi.k;
        let k_total = pi.total_steps();
        for d in 1..=3usize {
            // the estimate PCT settles at for this depth (<= the maximum over all schedules)
            let mut pi = ProgInfo::realistic(prog.clone());
            pi.k = crate::pct_model::settled_k(&pi, d, &perms);
            let pi = pi;
            // (i) exact hit probability of the model
            let (cnt, total) = model_distribution(&pi, d, &perms, &mut out.states, &mut out.transitions);
            // the statement's k = "scheduling steps" of the program: all of them (the k of the PCT
            // paper), which is the weakest reading; the ratio against the estimate is reported too
            let kpow = (k_total as u64).pow(d as u32 - 1);
            let kpow_est = (pi.k as u64).pow(d as u32 - 1);
            let mut worst: Option<(f64, &crate::pct_model::Bug)> = None;
            let mut worst_est = f64::INFINITY;
            let mut nb = 0u64;
            let mut below: Vec<(f64, u64, &crate::pct_model::Bug)> = Vec::new();
            for b in all_bugs.iter().filter(|b| b.depth == d) {
                nb += 1;
                let hits: u64 = (0..pi.leaves.len()).filter(|l| b.leaves.get(*l)).map(|l| cnt[l]).sum();
                // hits/total >= 1/(n * k^(d-1))
                let ratio = hits as f64 * (nt as u64 * kpow) as f64 / total as f64;
                worst_est = worst_est.min(hits as f64 * (nt as u64 * kpow_est) as f64 / total as f64);
                if worst.as_ref().map(|w| ratio < w.0).unwrap_or(true) {
                    worst = Some((ratio, b));
                }
                if hits * nt as u64 * kpow < total {
                    below.push((ratio, hits, b));
                }
            }
            if !below.is_empty() {
                below.sort_by(|x, y| x.0.partial_cmp(&y.0).unwrap());
                let (_, hits, b) = &below[0];
                let scheds: Vec<Vec<u8>> = (0..pi.leaves.len())
                    .filter(|l| b.leaves.get(*l))
                    .take(4)
                    .map(|l| pi.tree.nodes_choices(pi.leaves[l]))
                    .collect();
                out.problems.push((
                    format!("pct-bound:{}:d{}", prog.name(), d),
                    format!(
                        "program {} (n={} tasks, {} scheduling steps, estimate of k settles at {}), depth {}: {} of the {} bugs that need exactly {} ordering constraints are hit with probability below 1/(n*k^(d-1)) = {:.4} (k = all {} scheduling steps). Tightest: the bug 'schedules satisfying {:?}' (task sequences {:?}) has exact probability {}/{} = {:.4} in the reference model (all {} priority orders x all {} change-point sets); the implementation's frequencies over the seed interval agree with the model",
                        prog.name(), nt, k_total, pi.k, d, below.len(), nb, d, 1.0 / (nt as u64 * kpow) as f64, k_total,
                        b.constraints, scheds, hits, total, *hits as f64 / total as f64, perms.len(), total as usize / perms.len()
                    ),
                    json!({"kind":"pct-bound","prog":prog.to_json(),"depth":d,"constraints":b.constraints,"s0":s0.to_string(),"n":n.min(1 << 14)}),
                ));
            }
            out.bugs_checked += nb;

            // (ii) the implementation over the seed interval, iterations with a settled estimate
            let sets = change_point_sets(pi.k, num_points(d, pi.k));
            let ncell = perms.len() * sets.len();
            let outs = par::shards(nthreads, |shard, ns| {
                let uni = Universe::flat(16);
                let mut buf: Vec<&Task> = Vec::with_capacity(4);
                let mut cell = vec![0u64; ncell];
                let mut leaf = vec![0u64; pi.leaves.len()];
                let mut samples = 0u64;
                let mut execs = 0u64;
                let mut errs: Vec<String> = Vec::new();
                let mut k = shard as u64;
                while k < n {
                    let seed = s0.wrapping_add(k);
                    let r = guarded(|| {
                        let mut s = Sut::new(seed, d, PROB_ITERS);
                        let mut rec = ExecRec::default();
                        for it in 0..PROB_ITERS {
                            s.new_execution().ok_or("too few executions")?;
                            execs += 1;
                            let mut settled: Option<usize> = None;
                            if it >= 1 {
                                let snap = s.snapshot().ok_or("MACHINERY cannot parse the scheduler's Debug output")?;
                                if snap.max_steps == pi.k {
                                    let ord: Vec<u8> = snap.order().into_iter().filter(|t| (*t as usize) < nt).collect();
                                    let mut cps = snap.change_points.clone();
                                    cps.sort_unstable();
                                    let oi = perms.iter().position(|p| *p == ord).ok_or("order not a permutation of the live ids")?;
                                    let ci = sets.iter().position(|c| *c == cps).ok_or_else(|| format!("change points {:?} are not a {}-subset of [1,{})", cps, num_points(d, pi.k), pi.k))?;
                                    settled = Some(oi * sets.len() + ci);
                                }
                            }
                            crate::tree::drive(&mut s, &pi.tree, &uni, None, false, &mut buf, &mut rec).map_err(|e| format!("{:?}", e))?;
                            if let Some(ci) = settled {
                                cell[ci] += 1;
                                leaf[pi.leaf_index[rec.end as usize] as usize] += 1;
                                samples += 1;
                            }
                        }
                        Ok(())
                    });
                    if let Err(e) = r {
                        if errs.len() < 2 {
                            errs.push(format!("seed {}: {}", seed, e));
                        }
                    }
                    k += ns as u64;
                }
                (cell, leaf, samples, execs, errs)
            });
            let mut cell = vec![0u64; ncell];
            let mut leaf = vec![0u64; pi.leaves.len()];
            let mut samples = 0u64;
            for (c, l, s, e, errs) in outs {
                for (a, b) in cell.iter_mut().zip(c.iter()) {
                    *a += *b;
                }
                for (a, b) in leaf.iter_mut().zip(l.iter()) {
                    *a += *b;
                }
                samples += s;
                out.executions += e;
                for e in errs {
                    if e.contains("MACHINERY") {
                        out.machinery.push(e);
                    } else {
                        out.problems.push((
                            format!("pct-sampling-error:{}:d{}", prog.name(), d),
                            format!("PctScheduler depth {} on bug program {}: {}", d, prog.name(), e),
                            json!({"kind":"pct-frequency","prog":prog.to_json(),"depth":d,"s0":s0.to_string(),"n":n}),
                        ));
                    }
                }
            }
            out.samples += samples;
            if samples == 0 {
                out.problems.push((
                    format!("pct-estimate-never-settles:{}:d{}", prog.name(), d),
                    format!("PctScheduler depth {} on {}: in {} seeds x {} iterations the scheduler's estimate of k never equals {}, the value the reference model settles at", d, prog.name(), n, PROB_ITERS, pi.k),
                    json!({"kind":"pct-frequency","prog":prog.to_json(),"depth":d,"s0":s0.to_string(),"n":n}),
                ));
                continue;
            }
            // every (order, change-point set) is realised, uniformly
            let mut worst_cell_z = 0f64;
            let mut bad_cell: Option<String> = None;
            for (ci, c) in cell.iter().enumerate() {
                out.cells += 1;
                let p = 1.0 / ncell as f64;
                let sd = (samples as f64 * p * (1.0 - p)).sqrt();
                let z = if sd > 0.0 { (*c as f64 - samples as f64 * p) / sd } else { 0.0 };
                worst_cell_z = worst_cell_z.max(z.abs());
                if (*c == 0 || !within(*c, samples, p)) && bad_cell.is_none() && ncell > 1 {
                    bad_cell = Some(format!(
                        "priority order {:?} with change points {:?} was drawn {} times in {} settled iterations (expected {:.0}, z={:.1})",
                        perms[ci / sets.len()], sets[ci % sets.len()], c, samples, samples as f64 * p, z
                    ));
                }
            }
            if let Some(b) = bad_cell {
                out.problems.push((
                    format!("pct-choice-frequency:{}:d{}", prog.name(), d),
                    format!("PctScheduler depth {} on {} (n={}, k={}): {}", d, prog.name(), nt, pi.k, b),
                    json!({"kind":"pct-frequency","prog":prog.to_json(),"depth":d,"s0":s0.to_string(),"n":n}),
                ));
            }
            // leaf (hence bug) frequencies equal the model's
            let mut worst_leaf_z = 0f64;
            let mut bad_leaf: Option<String> = None;
            for l in 0..pi.leaves.len() {
                out.cells += 1;
                let p = cnt[l] as f64 / total as f64;
                let sd = (samples as f64 * p * (1.0 - p)).sqrt();
                let z = if sd > 0.0 {
                    (leaf[l] as f64 - samples as f64 * p) / sd
                } else if (leaf[l] as f64 - samples as f64 * p).abs() < 0.5 {
                    0.0
                } else {
                    f64::INFINITY
                };
                if z.is_finite() {
                    worst_leaf_z = worst_leaf_z.max(z.abs());
                }
                // +3 absolute slack: the normal approximation is poor for schedules with a tiny probability
                let off = (leaf[l] as f64 - samples as f64 * p).abs();
                if (off > 6.5 * sd + 3.0 || !z.is_finite()) && bad_leaf.is_none() {
                    bad_leaf = Some(format!(
                        "schedule {:?} was produced {} times in {} settled iterations, the model's exact probability {}/{} predicts {:.0} (z={:.1})",
                        pi.tree.path_to(pi.leaves[l]), leaf[l], samples, cnt[l], total, samples as f64 * p, z
                    ));
                }
            }
            if let Some(b) = bad_leaf {
                out.problems.push((
                    format!("pct-hit-frequency:{}:d{}", prog.name(), d),
                    format!("PctScheduler depth {} on {} (n={}, k={}): {}", d, prog.name(), nt, pi.k, b),
                    json!({"kind":"pct-frequency","prog":prog.to_json(),"depth":d,"s0":s0.to_string(),"n":n}),
                ));
            }
            let (wr, wb) = match &worst {
                Some((r, b)) => (*r, format!("{:?}", b.constraints)),
                None => (f64::NAN, String::new()),
            };
            // measured hit rate of the worst bug
            let worst_hits: u64 = worst
                .as_ref()
                .map(|(_, b)| (0..pi.leaves.len()).filter(|l| b.leaves.get(*l)).map(|l| leaf[l]).sum())
                .unwrap_or(0);
            out.rows.push(json!({
                "program": prog.name(), "n": nt, "k_settled_estimate": pi.k, "k_max_multi_choice": k_max, "k_scheduling_steps": k_total, "schedules": pi.leaves.len(), "depth": d,
                "min_model_probability_over_bound_with_k_estimate": if worst_est.is_finite() { json!((worst_est * 1000.0).round() / 1000.0) } else { Value::Null },
                "model_pairs_enumerated": total, "bugs_of_this_depth": nb,
                "min_model_probability_over_bound": if wr.is_nan() { Value::Null } else { json!((wr * 1000.0).round() / 1000.0) },
                "tightest_bug": wb,
                "tightest_bug_measured_hit_rate": if samples > 0 { json!(((worst_hits as f64 / samples as f64) * 10000.0).round() / 10000.0) } else { Value::Null },
                "bound": (1.0 / (nt as u64 * kpow) as f64 * 10000.0).round() / 10000.0,
                "settled_iterations_sampled": samples,
                "choice_cells": ncell, "worst_choice_cell_abs_z": (worst_cell_z * 100.0).round() / 100.0,
                "worst_leaf_abs_z": if worst_leaf_z.is_finite() { json!((worst_leaf_z * 100.0).round() / 100.0) } else { json!("inf") },
            }));
        }
    }
    out
}

/// Informational only (never a finding): programs in which a task's *first* scheduled step already
/// has an observable effect.  In the runtime a task is `current` — and can be demoted — only after
/// it has run once, and operations sit behind scheduling points, so such programs need an effect
/// without a preceding scheduling point.  For them some schedules are unreachable for PCT.
fn first_step_event_programs() -> Vec<Value> {
    let mk = |steps: Vec<u8>, spawn: bool| {
        let n = steps.len();
        CounterProg {
            steps,
            spawn,
            yields: vec![0; n],
        }
    };
    let mut rows = Vec::new();
    for prog in [mk(vec![2, 1, 1], false), mk(vec![2, 2, 2], false), mk(vec![1, 1, 1], true)] {
        let base = ProgInfo::new(prog.clone());
        let perms = permutations(prog.n());
        let all_bugs = bugs(&base, 3);
        for d in 1..=3usize {
            let mut pi = ProgInfo::new(prog.clone());
            pi.k = crate::pct_model::settled_k(&pi, d, &perms);
            let (mut st, mut tr) = (0u64, 0u64);
            let (cnt, total) = model_distribution(&pi, d, &perms, &mut st, &mut tr);
            let kpow = (pi.total_steps() as u64).pow(d as u32 - 1);
            let mut nb = 0;
            let mut below = 0;
            let mut zero = 0;
            let mut example: Option<Vec<Vec<u8>>> = None;
            for b in all_bugs.iter().filter(|b| b.depth == d) {
                nb += 1;
                let hits: u64 = (0..pi.leaves.len()).filter(|l| b.leaves.get(*l)).map(|l| cnt[l]).sum();
                if hits * prog.n() as u64 * kpow < total {
                    below += 1;
                    if hits == 0 {
                        zero += 1;
                        if example.is_none() {
                            example = Some((0..pi.leaves.len()).filter(|l| b.leaves.get(*l)).take(3).map(|l| pi.tree.nodes_choices(pi.leaves[l])).collect());
                        }
                    }
                }
            }
            let unreachable = cnt.iter().filter(|c| **c == 0).count();
            rows.push(json!({"program":prog.name(),"depth":d,"bugs_of_this_depth":nb,"bugs_below_bound":below,"bugs_with_probability_zero":zero,
                "schedules":pi.leaves.len(),"schedules_pct_can_never_produce_at_this_depth":unreachable,"example_unreachable_bug_task_sequences":example}));
        }
    }
    rows
}

// ------------------------------------------------------------------------------------------------
// real runtime child
// ------------------------------------------------------------------------------------------------

const REAL_BODIES: &[&str] = &["atomic-2x2", "atomic-3x1", "branchy", "yield-spin", "mutex-2x1", "nested-spawn", "draws"];

fn real_case(bname: &str, seed: u64, depth: usize, iters: usize, perms: &[Vec<Vec<u8>>]) -> Result<(u64, u64, u64), String> {
    let body = rec::body(bname).unwrap();
    let (a, pa) = rec::record_run(PctScheduler::new_from_seed(seed, depth, iters), &body, rec::quiet_config());
    let (b, pb) = rec::record_run(PctScheduler::new_from_seed(seed, depth, iters), &body, rec::quiet_config());
    if let Some(p) = pa.or(pb) {
        return Err(format!("run panicked: {}", p));
    }
    if a.execs.len() != iters || !a.ended {
        return Err(format!("{} executions for max_iterations={}", a.execs.len(), iters));
    }
    if a.execs != b.execs {
        return Err("two runs with the same seed differ".into());
    }
    // statement-level oracle on the real decision traces
    let n = a.parents.len();
    let mut nfa = 0u64;
    if n < perms.len() {
        for (i, e) in a.execs.iter().enumerate().skip(1) {
            let trace: Vec<Decision> = e
                .evs
                .iter()
                .filter_map(|ev| match ev {
                    rec::Ev::Task {
                        offered,
                        current,
                        yielding,
                        chosen: Some(c),
                    } => Some(Decision {
                        offered: offered.clone(),
                        current: *current,
                        yielding: *yielding,
                        chosen: *c,
                    }),
                    _ => None,
                })
                .collect();
            nfa += 1;
            if let Err(j) = consistent_with_some_order(&trace, n, depth, &perms[n]) {
                return Err(format!(
                    "iteration {}: decision {} ({:?}) is not explained by any strict priority order with <= {} change points; trace {:?}",
                    i + 1, j, trace[j], depth - 1, trace
                ));
            }
        }
    }
    let calls = rec::replay_abstract(&a, &mut PctScheduler::new_from_seed(seed, depth, iters))
        .map_err(|e| format!("MACHINERY abstract driver does not reproduce the runtime run: {}", e))?;
    Ok(((a.execs.len() + b.execs.len()) as u64, calls, nfa))
}

fn child_real(a: &[String]) {
    vx::common::silence_panics();
    let lo: u64 = a[1].parse().unwrap();
    let hi: u64 = a[2].parse().unwrap();
    let perms: Vec<Vec<Vec<u8>>> = (0..=6).map(permutations).collect();
    let (mut execs, mut calls, mut cases, mut nfa) = (0u64, 0u64, 0u64, 0u64);
    let mut problems: Vec<Value> = Vec::new();
    let mut k = lo;
    while k != hi {
        for b in REAL_BODIES {
            for depth in 1..=3usize {
                cases += 1;
                match real_case(b, k, depth, 4, &perms) {
                    Ok((e, c, f)) => {
                        execs += e;
                        calls += c;
                        nfa += f;
                    }
                    Err(what) => {
                        if problems.len() < 3 {
                            problems.push(json!({"key":format!("runtime-pct:{}:seed{}:d{}", b, k, depth),
                                "what":format!("PctScheduler seed {} depth {} on real body {}: {}", k, depth, b, what),
                                "replay":{"kind":"real-pct","body":b,"seed":k.to_string(),"depth":depth,"iterations":4}}));
                        }
                    }
                }
            }
        }
        k = k.wrapping_add(1);
    }
    println!("{}", json!({"cases":cases,"execs":execs,"calls":calls,"nfa":nfa,"problems":problems}));
}

/// Real-runtime witness for the unreachable-schedule finding: threads A (two atomic ops), B (one),
/// C (one); how often does each scheduler produce the order a0 b0 a1 c0?
fn child_witness(a: &[String]) {
    use shuttle::sync::atomic::{AtomicUsize, Ordering};
    use std::sync::{Arc, Mutex as StdMutex};
    vx::common::silence_panics();
    let iters: usize = a.get(1).and_then(|s| s.parse().ok()).unwrap_or(20000);
    let orders: Arc<StdMutex<std::collections::BTreeMap<String, u64>>> = Arc::new(StdMutex::new(Default::default()));
    let mk_body = |orders: Arc<StdMutex<std::collections::BTreeMap<String, u64>>>| {
        move || {
            let x = Arc::new(AtomicUsize::new(0));
            let log: Arc<StdMutex<Vec<&'static str>>> = Arc::new(StdMutex::new(Vec::new()));
            let mut hs = Vec::new();
            for (name, evs) in [("A", vec!["a0", "a1"]), ("B", vec!["b0"]), ("C", vec!["c0"])] {
                let x = x.clone();
                let log = log.clone();
                let _ = name;
                hs.push(shuttle::thread::spawn(move || {
                    for e in evs {
                        x.fetch_add(1, Ordering::SeqCst);
                        log.lock().unwrap().push(e);
                    }
                }));
            }
            for h in hs {
                h.join().unwrap();
            }
            let o = log.lock().unwrap().join(" ");
            *orders.lock().unwrap().entry(o).or_insert(0) += 1;
        }
    };
    let mut out = serde_json::Map::new();
    for depth in 1..=5usize {
        orders.lock().unwrap().clear();
        for seed in 0..8u64 {
            shuttle_engine::Runner::new(PctScheduler::new_from_seed(seed, depth, iters / 8), rec::quiet_config()).run(mk_body(orders.clone()));
        }
        let m = orders.lock().unwrap().clone();
        out.insert(format!("pct_depth_{}", depth), json!({"distinct_orders": m.len(), "a0 b0 a1 c0": m.get("a0 b0 a1 c0").copied().unwrap_or(0), "all": m}));
    }
    orders.lock().unwrap().clear();
    shuttle_engine::Runner::new(shuttle_schedulers::RandomScheduler::new_from_seed(1, iters), rec::quiet_config()).run(mk_body(orders.clone()));
    let m = orders.lock().unwrap().clone();
    out.insert("random".into(), json!({"distinct_orders": m.len(), "a0 b0 a1 c0": m.get("a0 b0 a1 c0").copied().unwrap_or(0)}));
    orders.lock().unwrap().clear();
    shuttle_engine::Runner::new(shuttle_schedulers::DfsScheduler::new(None, false), rec::quiet_config()).run(mk_body(orders.clone()));
    let m = orders.lock().unwrap().clone();
    out.insert("dfs".into(), json!({"distinct_orders": m.len(), "a0 b0 a1 c0": m.get("a0 b0 a1 c0").copied().unwrap_or(0)}));
    println!("{}", Value::Object(out));
}

pub fn child(a: &[String]) {
    match a[0].as_str() {
        "c11-real" => child_real(a),
        "c11-witness" => child_witness(a),
        _ => std::process::exit(2),
    }
}

// ------------------------------------------------------------------------------------------------
// the check
// ------------------------------------------------------------------------------------------------

pub fn run(ctx: &CheckCtx) -> CheckResult {
    let _mute = par::StderrMute::new();
    std::panic::set_hook(Box::new(|_| {}));
    let mut res = CheckResult::new("model_checking");
    let thorough = ctx.tier == Tier::Thorough;
    let nthreads = par::ncpu();
    let n: u64 = if thorough { 1 << 20 } else { 1 << 16 };
    let s0 = ctx.seed.wrapping_mul(n);
    let deadline = ctx.start + if thorough { Duration::from_secs(18 * 60) } else { Duration::from_secs(30) };
    let mut phases: Vec<(String, f64)> = Vec::new();
    let mut t_phase = Instant::now();
    let mut phase = |name: &str, t: &mut Instant| {
        phases.push((name.to_string(), (t.elapsed().as_secs_f64() * 10.0).round() / 10.0));
        *t = Instant::now();
    };

    // snapshot self-test: the Debug-based read-only view must parse and reflect the documented initial state
    {
        let s = Sut::new(1, 3, 2);
        match s.snapshot() {
            Some(sn) if sn.priorities.len() == 16 && sn.change_points.is_empty() && sn.max_steps == 0 && sn.next_priority == 16 => {}
            other => res.machinery_errors.push(format!("cannot read PctScheduler internals through Debug: {:?}", other)),
        }
    }

    let n_real: u64 = if thorough { 1 << 11 } else { 1 << 7 };
    let real_thread = std::thread::spawn(move || {
        let nproc = (par::ncpu() as u64 / 2).max(1);
        let per = n_real / nproc;
        let mut jobs = Vec::new();
        let mut lo = s0;
        for i in 0..nproc {
            let hi = if i + 1 == nproc { s0.wrapping_add(n_real) } else { lo.wrapping_add(per) };
            jobs.push((vec!["c11-real".to_string(), lo.to_string(), hi.to_string()], vec![]));
            lo = hi;
        }
        par::run_children(jobs, nproc as usize, Duration::from_secs(if thorough { 900 } else { 40 }))
    });

    let mut total = PStats::default();
    let mut exhaustive = true;
    let mut fam_rows: Vec<Value> = Vec::new();
    let push_problems = |res: &mut CheckResult, ps: Problems| {
        for (k, w, r) in ps.into_iter().take(3) {
            if w.contains("MACHINERY") {
                res.machinery_errors.push(w);
            } else {
                res.finding(k, w, r);
            }
        }
    };

    // F1
    let n1 = if thorough { n / 2 } else { n / 16 };
    let (st, ps) = sweep_seeds(s0, n1, nthreads, deadline);
    exhaustive &= !st.capped;
    fam_rows.push(json!({"family":"every seed of the interval x fixed abstract programs x depth 1..4 x 4 iterations","seeds":n1,"programs":fixed_programs().len(),"cases":st.cases,"executions":st.executions,"matched_executions":st.matched,"complete":!st.capped}));
    total.add(&st);
    push_problems(&mut res, ps);
    phase("F1 seeds x fixed programs", &mut t_phase);

    // F2
    let ids0 = Labelling {
        scheme: 0,
        universe: 4,
        yields: true,
        draws: false,
    };
    let rich = Labelling {
        scheme: 1,
        universe: 6,
        yields: true,
        draws: false,
    };
    let create = Labelling {
        scheme: 1,
        universe: 20,
        yields: true,
        draws: false,
    };
    // (family, labelling, ids for the statement-level oracle, task universe, seeds per (tree, depth), depths)
    // depth > (max multi-choice steps of the family) behaves like depth = that maximum: num_points saturates
    let mut plans: Vec<(Family, Labelling, usize, usize, u64, Vec<usize>)> = vec![
        (Family::new(3, 3), ids0.clone(), 3, 16, 1, vec![2, 3]),
        (Family::new(2, 3), rich.clone(), 6, 16, 64, vec![1, 2, 3]),
        (Family::new(3, 2), rich.clone(), 6, 16, 32, vec![1, 2, 3, 4]),
        (Family::new(2, 4), rich.clone(), 6, 16, 8, vec![1, 2, 3]),
        (Family::new(4, 2), ids0.clone(), 2, 16, 1, vec![1, 2, 3, 4]),
        // ids >= 16: tasks the scheduler has to create priorities for
        (Family::new(2, 3), create.clone(), 0, 20, 64, vec![1, 2, 3]),
        (Family::new(3, 2), create.clone(), 0, 20, 32, vec![1, 2, 3, 4]),
    ];
    if thorough {
        plans.push((Family::new(3, 3), ids0.clone(), 3, 16, 4, vec![1, 4]));
        plans.push((Family::new(3, 3), rich.clone(), 6, 16, 2, vec![1, 2, 3, 4]));
        plans.push((Family::new(3, 3), create.clone(), 0, 20, 2, vec![1, 2, 3]));
        plans.push((Family::new(4, 2), rich.clone(), 6, 16, 4, vec![1, 2, 3, 4, 5]));
    }
    for (fam, lab, nfa_ids, universe, seeds_per, depths) in &plans {
        let (st, ps, trees) = sweep_trees(fam, lab, *nfa_ids, *universe, *seeds_per, depths, s0, n, nthreads, deadline);
        exhaustive &= !st.capped;
        fam_rows.push(json!({"family":format!("all trees depth<={} branching<={} with >= 2 leaves", fam.d, fam.b),"labelling":lab.name(),
            "shapes_in_family":fam.size().to_string(),"trees":trees,"seeds_per_tree_and_depth":seeds_per,"depths":depths,"cases":st.cases,"executions":st.executions,
            "matched_executions":st.matched,"task_creations":st.creations,"statement_level_oracle":*nfa_ids>0,"complete":!st.capped}));
        total.add(&st);
        push_problems(&mut res, ps);
    }
    phase("F2 all trees", &mut t_phase);

    // probability
    let np = if thorough { n / 2 } else { n / 8 };
    let pr = probability(s0, np, nthreads);
    phase("probability bound (model enumeration + seed interval)", &mut t_phase);
    for m in &pr.machinery {
        res.machinery_errors.push(m.clone());
    }
    let prob_rows = pr.rows.clone();
    for (k, w, r) in pr.problems {
        res.finding(k, w, r);
    }

    // real runtime
    let (mut rcases, mut rexecs, mut rcalls, mut rnfa) = (0u64, 0u64, 0u64, 0u64);
    for r in real_thread.join().unwrap() {
        match r {
            Err(e) => res.machinery_errors.push(format!("runtime child: {}", e)),
            Ok(co) => match co.json() {
                None => res.machinery_errors.push(format!(
                    "runtime child produced no result (status {:?} signal {:?} timed_out {}): {}",
                    co.status,
                    co.signal,
                    co.timed_out,
                    co.stderr.lines().rev().take(3).collect::<Vec<_>>().join(" | ")
                )),
                Some(v) => {
                    rcases += v["cases"].as_u64().unwrap_or(0);
                    rexecs += v["execs"].as_u64().unwrap_or(0);
                    rcalls += v["calls"].as_u64().unwrap_or(0);
                    rnfa += v["nfa"].as_u64().unwrap_or(0);
                    for p in v["problems"].as_array().cloned().unwrap_or_default() {
                        let what = p["what"].as_str().unwrap_or("").to_string();
                        if what.contains("MACHINERY") {
                            res.machinery_errors.push(what);
                        } else {
                            res.finding(p["key"].as_str().unwrap_or("?"), what, p["replay"].clone());
                        }
                    }
                }
            },
        }
    }
    phase("waiting for runtime children", &mut t_phase);

    // samples
    {
        let uni = Universe::flat(16);
        let progs = fixed_programs();
        let (name, tree, nids) = &progs[1];
        let mut st = PStats::default();
        let perms = permutations(*nids);
        if let Ok(v) = pct_checked(s0.wrapping_add(7), 2, 3, tree, &uni, Some((*nids, &perms[..])), true, &mut st) {
            let mut s = Sut::new(s0.wrapping_add(7), 2, 3);
            s.new_execution();
            res.sample(json!({"abstract_program":name,"tree":tree.to_json(),"seed":s0.wrapping_add(7).to_string(),"depth":2,
                "executions":v.iter().map(|e| json!(e.choices)).collect::<Vec<_>>(),
                "snapshot_after_first_new_execution": s.snapshot().map(|sn| json!({"order_first16":sn.order(),"change_points":sn.change_points,"max_steps":sn.max_steps}))}));
        }
        for r in prob_rows.iter().filter(|r| r["depth"] == 2).take(3) {
            res.sample(r.clone());
        }
    }

    res.cov("states", pr.states);
    res.cov("transitions", pr.transitions);
    res.cov("traces_validated_against_impl", total.matched + pr.samples);
    res.cov("evaluations", total.cases + pr.bugs_checked + rcases);
    res.cov("distinct_nontrivial", total.cases);
    res.cov("rule", "a case = (seed, depth, abstract program) run for 3-4 iterations twice (determinism); every iteration >= 2 is compared decision by decision with the reference model started from the scheduler's own (priorities, change points) read through Debug, and with the statement-level oracle (exists a strict order + <= d-1 change points); non-trivial = the program has >= 2 schedules (PCT documents a panic otherwise; such trees are excluded); states = (priority order, change-point set) pairs of the model enumerated for the probability bound, transitions = model decisions taken during that enumeration");
    res.cov("families", json!(fam_rows));
    res.cov("probability", json!(prob_rows));
    res.cov("informational_first_step_event_programs", json!({
        "note": "NOT part of the verdict: abstract programs whose tasks have an observable effect in their very first scheduled step (in the runtime operations sit behind scheduling points, so a task's first step has none). PCT can demote a task only after it has run once, so some schedules of such programs are unreachable at every depth and the bound fails for them; with the runtime's shape (a prologue step per task) the bound holds for every bug enumerated above",
        "rows": first_step_event_programs()}));
    res.cov("probability_clause_label", "model: exact (all n! orders x all change-point sets); implementation: evidence from an exhaustively enumerated seed interval (exact counts, fixed 6.5-sigma tolerance), not a proof over all seeds");
    res.cov("bugs_checked_against_bound", pr.bugs_checked);
    res.cov("settled_iterations_sampled", pr.samples);
    res.cov("probability_executions", pr.executions);
    res.cov("frequency_cells_checked", pr.cells);
    res.cov("abstract_executions", total.executions);
    res.cov("abstract_decisions", total.decisions);
    res.cov("model_matched_executions", total.matched);
    res.cov("snapshots_read", total.snapshots);
    res.cov("statement_level_oracle_executions", total.nfa_checked + rnfa);
    res.cov("task_creation_decisions", total.creations);
    res.cov("change_points_fired", total.change_points_fired);
    res.cov("yield_demotions", total.yield_demotions);
    res.cov("runtime_cases", rcases);
    res.cov("runtime_executions", rexecs);
    res.cov("e3_cross_validation_scheduler_calls_reproduced", rcalls);
    res.cov("seed_interval", json!({"s0": s0.to_string(), "n": n}));
    res.cov("phase_seconds", json!(phases));
    res.cov("exhaustive", exhaustive);
    res.assumptions.push("PctScheduler internals are read through its derived Debug output (public API, read-only); a format change is reported as a machinery error, never as a verdict".into());
    res.assumptions.push("k in the bound is the settled estimate = the maximum number of multi-choice steps over all schedules of the program; only iterations whose estimate equals it are sampled".into());
    res.assumptions.push("bug = the set of schedules satisfying a set of <= 3 cross-task ordering constraints; its depth is the least number of constraints whose non-empty satisfying set lies inside it; bug programs are yield-free counter programs with n <= 4 tasks".into());
    res.assumptions.push("the first iteration (estimation run) is only counted, as documented; trees with a single schedule are excluded (documented panic)".into());
    res
}

// ------------------------------------------------------------------------------------------------
// replay
// ------------------------------------------------------------------------------------------------

pub fn replay(doc: &Value) {
    let r = &doc["replay"];
    let seed: u64 = r["seed"].as_str().and_then(|s| s.parse().ok()).unwrap_or(0);
    let depth = r["depth"].as_u64().unwrap_or(1) as usize;
    let iters = r["iterations"].as_u64().unwrap_or(3) as usize;
    let _mute = par::StderrMute::new();
    std::panic::set_hook(Box::new(|_| {}));
    match r["kind"].as_str() {
        Some("abstract-pct") => {
            let tree = ATree::from_json(&r["tree"]);
            let nids = r["nfa_ids"].as_u64().unwrap_or(0) as usize;
            let uni = Universe::flat(20);
            println!("PctScheduler::new_from_seed({}, {}, {}) over tree {}", seed, depth, iters, r["tree"]);
            // plain run with the internals printed
            let _ = guarded(|| {
                let mut s = Sut::new(seed, depth, iters);
                let mut buf: Vec<&Task> = Vec::new();
                let mut it = 0;
                while s.new_execution().is_some() {
                    it += 1;
                    let sn = s.snapshot();
                    println!(
                        "iteration {}: priorities(order) {:?} change_points {:?} max_steps {:?}",
                        it,
                        sn.as_ref().map(|x| x.order()),
                        sn.as_ref().map(|x| x.change_points.clone()),
                        sn.as_ref().map(|x| x.max_steps)
                    );
                    let mut rec = ExecRec::default();
                    let _ = crate::tree::drive(&mut s, &tree, &uni, None, false, &mut buf, &mut rec);
                    println!("   choices {:?}", rec.choices);
                    if it > iters + 1 {
                        break;
                    }
                }
                Ok(())
            });
            let perms = permutations(nids.min(6));
            let mut st = PStats::default();
            let nfa = if nids > 0 && nids <= 6 { Some((nids, &perms[..])) } else { None };
            println!("oracle verdict: {:?}", guarded(|| pct_checked(seed, depth, iters, &tree, &uni, nfa, true, &mut st)).map(|v| v.len()));
        }
        Some("pct-bound") | Some("pct-frequency") => {
            let prog = CounterProg::from_json(&r["prog"]);
            let perms = permutations(prog.n());
            let mut pi = ProgInfo::realistic(prog.clone());
            pi.k = crate::pct_model::settled_k(&pi, depth, &perms);
            let (mut s, mut t) = (0u64, 0u64);
            let (cnt, total) = model_distribution(&pi, depth, &perms, &mut s, &mut t);
            println!("program {} n={} k={} depth {}: model distribution over schedules ({} (order, change-point set) pairs):", prog.name(), prog.n(), pi.k, depth, total);
            for (l, c) in cnt.iter().enumerate() {
                if pi.leaves.len() <= 64 || *c == 0 {
                    println!("  task sequence {:?}: {}/{}", pi.tree.nodes_choices(pi.leaves[l]), c, total);
                }
            }
            if r["kind"] == "pct-frequency" {
                let s0: u64 = r["s0"].as_str().and_then(|s| s.parse().ok()).unwrap_or(0);
                let n = r["n"].as_u64().unwrap_or(1 << 14);
                let p = probability(s0, n, par::ncpu());
                for row in p.rows.iter().filter(|row| row["program"] == prog.name() && row["depth"] == depth as u64) {
                    println!("implementation over seeds [{}, +{}): {}", s0, n, row);
                }
            }
        }
        Some("real-pct") => {
            vx::common::silence_panics();
            let perms: Vec<Vec<Vec<u8>>> = (0..=6).map(permutations).collect();
            let b = r["body"].as_str().unwrap_or("atomic-2x2");
            println!("PctScheduler seed {} depth {} on real body {}: {:?}", seed, depth, b, real_case(b, seed, depth, iters, &perms));
        }
        k => {
            eprintln!("unknown replay kind {:?}", k);
            std::process::exit(2);
        }
    }
}
