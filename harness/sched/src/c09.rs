//! C09 — DfsScheduler visits every schedule exactly once, then stops; iteration and step bounds;
//! fixed data stream.  E3 over all abstract trees + integration through the real runtime.

use crate::par;
use crate::rec::{self, Ev};
use crate::tasks::Universe;
use crate::tree::{drive, ATree, DriveErr, ExecRec, Family, Labelling};
use serde_json::{json, Value};
use shuttle_engine::scheduler::{Scheduler, Task};
use shuttle_schedulers::DfsScheduler;
use std::collections::BTreeSet;
use std::time::{Duration, Instant};
use vx::common::{CheckCtx, CheckResult, Tier};

pub struct Viol {
    pub key: String,
    pub what: String,
    pub replay: Value,
}

#[derive(Default, Clone, Debug)]
pub struct Stats {
    pub trees: u64,
    pub nontrivial: u64,
    pub runs: u64,
    pub executions: u64,
    pub steps: u64,
    pub max_leaves: u64,
    pub capped: bool,
}

impl Stats {
    fn add(&mut self, o: &Stats) {
        self.trees += o.trees;
        self.nontrivial += o.nontrivial;
        self.runs += o.runs;
        self.executions += o.executions;
        self.steps += o.steps;
        self.max_leaves = self.max_leaves.max(o.max_leaves);
        self.capped |= o.capped;
    }
}

/// One DFS run over `tree`: returns the ends visited in order (arena ids) or a complaint.
/// `limit` = how many executions we tolerate before declaring non-termination.
#[allow(clippy::too_many_arguments)]
fn dfs_run<'u, S: Scheduler>(
    s: &mut S,
    tree: &ATree,
    uni: &'u Universe,
    cut: Option<usize>,
    with_draws: bool,
    limit: usize,
    buf: &mut Vec<&'u Task>,
    st: &mut Stats,
    ends: &mut Vec<u16>,
) -> Result<(), String> {
    ends.clear();
    let mut rec = ExecRec::default();
    let mut stream: Vec<u64> = Vec::new();
    let mut seed0: Option<u64> = None;
    st.runs += 1;
    loop {
        let sch = match s.new_execution() {
            None => break,
            Some(sch) => sch,
        };
        if ends.len() >= limit {
            return Err(format!(
                "does not stop: a {}th execution was started (visited so far {:?})",
                ends.len() + 1,
                ends
            ));
        }
        match seed0 {
            None => seed0 = Some(sch.seed),
            Some(s0) => {
                if s0 != sch.seed {
                    return Err(format!("schedule seed differs between executions: {} vs {}", s0, sch.seed));
                }
            }
        }
        if !sch.steps.is_empty() {
            return Err("new_execution returned a non-empty schedule".into());
        }
        match drive(s, tree, uni, cut, with_draws, buf, &mut rec) {
            Ok(()) => {}
            Err(DriveErr::ReturnedNone { at }) => return Err(format!("next_task returned None at node {}", at)),
            Err(DriveErr::NotOffered { at, got }) => {
                return Err(format!("next_task returned task {} which is not offered at node {}", got, at))
            }
        }
        st.executions += 1;
        st.steps += rec.choices.len() as u64;
        // data stream: the j-th draw is the same in every execution
        for (j, v) in rec.draws.iter().enumerate() {
            if j < stream.len() {
                if stream[j] != *v {
                    return Err(format!(
                        "data stream differs between executions: draw #{} is {} in execution {} but was {}",
                        j,
                        v,
                        ends.len() + 1,
                        stream[j]
                    ));
                }
            } else {
                stream.push(*v);
            }
        }
        ends.push(rec.end);
    }
    Ok(())
}

fn describe_ends(tree: &ATree, ends: &[u16]) -> Vec<Vec<u8>> {
    ends.iter().map(|e| tree.path_to(*e)).collect()
}

#[derive(Clone, Copy, Debug, PartialEq, Eq)]
pub enum Passes {
    /// unbounded run, every iteration bound, every step cut, every bound x cut combination
    All,
    /// the unbounded run only (clause "every leaf exactly once, then stops")
    UnboundedOnly,
}

/// All clauses on one tree.
pub fn check_tree<'u, S: Scheduler>(
    mk: &impl Fn(Option<usize>) -> S,
    tree: &ATree,
    uni: &'u Universe,
    with_draws: bool,
    passes: Passes,
    buf: &mut Vec<&'u Task>,
    st: &mut Stats,
) -> Result<(), (String, Value)> {
    let mut ends: Vec<u16> = Vec::new();
    let leaves: Vec<u16> = tree.cut_ends(usize::MAX);
    let nl = leaves.len();
    debug_assert_eq!(nl, tree.leaves);
    let mode = |m: Option<usize>, cut: Option<usize>| json!({"max_iterations": m, "cut": cut, "draws": with_draws});

    // (a) unbounded: the multiset of leaves visited == the set of leaves, then None
    let mut s = mk(None);
    dfs_run(&mut s, tree, uni, None, with_draws, nl + 1, buf, st, &mut ends).map_err(|e| (e, mode(None, None)))?;
    exact_once(tree, &leaves, &ends).map_err(|e| (e, mode(None, None)))?;
    if passes == Passes::UnboundedOnly {
        return Ok(());
    }
    let full = true;

    // (b) iteration bound m: exactly min(m, leaves) distinct leaves
    for m in 0..=nl + 1 {
        let mut s = mk(Some(m));
        dfs_run(&mut s, tree, uni, None, with_draws, nl + 2, buf, st, &mut ends).map_err(|e| (e, mode(Some(m), None)))?;
        distinct_count(tree, &leaves, &ends, m.min(nl)).map_err(|e| (e, mode(Some(m), None)))?;
    }

    // (c) step cut n: exactly the distinct length-n prefixes
    for n in 1..=tree.depth {
        let exp = tree.cut_ends(n);
        let mut s = mk(None);
        dfs_run(&mut s, tree, uni, Some(n), false, exp.len() + 1, buf, st, &mut ends).map_err(|e| (e, mode(None, Some(n))))?;
        exact_once(tree, &exp, &ends).map_err(|e| (e, mode(None, Some(n))))?;
        if full {
            for m in 0..=exp.len() + 1 {
                let mut s = mk(Some(m));
                dfs_run(&mut s, tree, uni, Some(n), false, exp.len() + 2, buf, st, &mut ends)
                    .map_err(|e| (e, mode(Some(m), Some(n))))?;
                distinct_count(tree, &exp, &ends, m.min(exp.len())).map_err(|e| (e, mode(Some(m), Some(n))))?;
            }
        }
    }
    Ok(())
}

fn exact_once(tree: &ATree, expected: &[u16], ends: &[u16]) -> Result<(), String> {
    let mut cnt = vec![0u32; tree.nodes.len()];
    for e in ends {
        cnt[*e as usize] += 1;
    }
    let exp: BTreeSet<u16> = expected.iter().copied().collect();
    for (i, c) in cnt.iter().enumerate() {
        let want = if exp.contains(&(i as u16)) { 1 } else { 0 };
        if *c != want {
            let kind = if *c > want {
                if want == 0 {
                    "visited an end that is not expected"
                } else {
                    "repeated"
                }
            } else {
                "omitted"
            };
            return Err(format!(
                "{} path {:?} ({} visits, expected {}); visited in order {:?}; expected set {:?}",
                kind,
                tree.path_to(i as u16),
                c,
                want,
                describe_ends(tree, ends),
                describe_ends(tree, expected)
            ));
        }
    }
    Ok(())
}

fn distinct_count(tree: &ATree, allowed: &[u16], ends: &[u16], want: usize) -> Result<(), String> {
    let set: BTreeSet<u16> = ends.iter().copied().collect();
    if ends.len() != want || set.len() != want || !set.iter().all(|e| allowed.contains(e)) {
        return Err(format!(
            "expected exactly {} distinct schedules, got {} executions / {} distinct: {:?}",
            want,
            ends.len(),
            set.len(),
            describe_ends(tree, ends)
        ));
    }
    Ok(())
}

fn panic_text(e: Box<dyn std::any::Any + Send>) -> String {
    rec::payload_text(&e)
}

/// Sweep shapes `[lo, hi)` of `fam` (this shard's residue class) with labelling `lab`.
#[allow(clippy::too_many_arguments)]
pub fn sweep<S: Scheduler>(
    mk: &(impl Fn(Option<usize>) -> S + Sync),
    fam: &Family,
    lab: &Labelling,
    lo: u128,
    hi: u128,
    passes: Passes,
    deadline: Instant,
    nthreads: usize,
) -> (Stats, Vec<Viol>) {
    let outs = par::shards(nthreads, |shard, n| {
        let uni = Universe::flat(16);
        let mut buf: Vec<&Task> = Vec::with_capacity(8);
        let mut st = Stats::default();
        let mut viols: Vec<Viol> = Vec::new();
        let mut x = lo + shard as u128;
        let mut k = 0u64;
        while x < hi {
            k += 1;
            if k % 1024 == 0 && Instant::now() > deadline {
                st.capped = true;
                break;
            }
            let tree = fam.build(x, lab);
            st.trees += 1;
            if tree.leaves >= 2 {
                st.nontrivial += 1;
            }
            st.max_leaves = st.max_leaves.max(tree.leaves as u64);
            let r = std::panic::catch_unwind(std::panic::AssertUnwindSafe(|| {
                check_tree(mk, &tree, &uni, lab.draws, passes, &mut buf, &mut st)
            }));
            let bad = match r {
                Ok(Ok(())) => None,
                Ok(Err((what, mode))) => Some((what, mode)),
                Err(e) => Some((format!("scheduler panicked: {}", panic_text(e)), json!({"panic": true}))),
            };
            if let Some((what, mode)) = bad {
                // determinism self-check: re-execute the case once and say whether the verdict repeats
                let mut st2 = Stats::default();
                let again = std::panic::catch_unwind(std::panic::AssertUnwindSafe(|| {
                    check_tree(mk, &tree, &uni, lab.draws, passes, &mut buf, &mut st2)
                }));
                let what = match again {
                    Ok(Ok(())) => format!("{} [re-executed: no violation the second time - the scheduler is not deterministic]", what),
                    _ => format!("{} [re-executed: reproduces]", what),
                };
                if viols.len() < 4 {
                    viols.push(Viol {
                        key: format!("abstract-dfs:d{}b{}:{}:{}", fam.d, fam.b, lab.name(), x),
                        what: format!("tree #{} of family depth<={} branching<={} ({}): {}", x, fam.d, fam.b, lab.name(), what),
                        replay: json!({"kind":"abstract-dfs","tree": tree.to_json(), "mode": mode, "family":[fam.d, fam.b], "index": x.to_string(), "labelling": lab.name()}),
                    });
                } else {
                    viols.push(Viol {
                        key: String::new(),
                        what: String::new(),
                        replay: Value::Null,
                    });
                }
            }
            x += n as u128;
        }
        (st, viols)
    });
    let mut st = Stats::default();
    let mut vs = Vec::new();
    for (s, v) in outs {
        st.add(&s);
        vs.extend(v);
    }
    (st, vs)
}

pub fn real_dfs(max_iterations: Option<usize>) -> DfsScheduler {
    DfsScheduler::new(max_iterations, true)
}

// ------------------------------------------------------------------------------------------------
// integration through the real runtime (child process)
// ------------------------------------------------------------------------------------------------

/// Independent enumeration of the choice tree of a real body with the E1 explorer.
fn explorer_leaves(body: &rec::Body, cap: u64) -> Result<Vec<Vec<u8>>, String> {
    use vx::explore::{Alt, Explorer, Options};
    let ex = Explorer::new(Options::default());
    ex.set_executions_per_run(256);
    let mut leaves: Vec<Vec<u8>> = Vec::new();
    loop {
        let b = body.clone();
        let r = std::panic::catch_unwind(std::panic::AssertUnwindSafe(|| {
            shuttle_engine::Runner::new(ex.handle(), rec::quiet_config()).run(move || b());
        }));
        if let Err(e) = r {
            return Err(format!("body failed under the explorer: {}", panic_text(e)));
        }
        ex.advance();
        if let Some(d) = ex.diverged() {
            return Err(d);
        }
        for (path, _stopped) in ex.drain_finished() {
            leaves.push(
                path.iter()
                    .filter_map(|n| match n.chosen() {
                        Alt::Task(t) => Some(*t as u8),
                        _ => None,
                    })
                    .collect(),
            );
        }
        if ex.exhausted() {
            break;
        }
        if ex.stats().executions >= cap {
            return Err("explorer cap hit".into());
        }
    }
    Ok(leaves)
}

/// Child: for each body, explorer leaf set vs. DFS through the runtime; iteration bounds; step
/// cuts; abstract replay of the recorded DFS run (cross-validation of E3). One JSON line on stdout.
pub fn child_integration(thorough: bool) {
    vx::common::silence_panics();
    let mut out = Vec::new();
    // mutex-3x1 has 12 786 schedules: thorough tier only
    for name in rec::BODIES.iter().filter(|n| **n != "lost-update" && (thorough || **n != "mutex-3x1")) {
        let body = rec::body(name).unwrap();
        let with_data = *name == "draws";
        let mut o = serde_json::Map::new();
        o.insert("body".into(), json!(name));
        let leaves = match explorer_leaves(&body, 2_000_000) {
            Ok(l) => l,
            Err(e) => {
                o.insert("machinery".into(), json!(e));
                out.push(Value::Object(o));
                continue;
            }
        };
        let leafset: BTreeSet<Vec<u8>> = leaves.iter().cloned().collect();
        o.insert("explorer_leaves".into(), json!(leaves.len()));
        if leafset.len() != leaves.len() {
            o.insert("machinery".into(), json!("explorer produced duplicate leaves"));
        }
        let mut problems: Vec<Value> = Vec::new();
        // full DFS
        let (log, p) = rec::record_run(DfsScheduler::new(None, with_data), &body, rec::quiet_config());
        if let Some(p) = p {
            problems.push(json!({"mode":"full","what":format!("run panicked: {}", p)}));
        }
        let dfs: Vec<Vec<u8>> = log.execs.iter().map(|e| e.choices()).collect();
        let dfsset: BTreeSet<Vec<u8>> = dfs.iter().cloned().collect();
        o.insert("dfs_executions".into(), json!(dfs.len()));
        if dfs.len() != dfsset.len() {
            problems.push(json!({"mode":"full","what":"DFS repeated a schedule"}));
        }
        if dfsset != leafset {
            let missing: Vec<_> = leafset.difference(&dfsset).take(3).cloned().collect();
            let extra: Vec<_> = dfsset.difference(&leafset).take(3).cloned().collect();
            problems.push(json!({"mode":"full","what":format!("leaf sets differ: explorer has {} leaves, DFS ran {} distinct; missing {:?}; extra {:?}", leafset.len(), dfsset.len(), missing, extra)}));
        }
        if !log.ended {
            problems.push(json!({"mode":"full","what":"run did not end with new_execution -> None"}));
        }
        // the public entry point itself: check_dfs runs the body once per schedule
        if !with_data {
            let count = std::sync::Arc::new(std::sync::atomic::AtomicUsize::new(0));
            for m in [None, Some(leafset.len() / 2 + 1)] {
                count.store(0, std::sync::atomic::Ordering::SeqCst);
                let (b, c) = (body.clone(), count.clone());
                let r = std::panic::catch_unwind(std::panic::AssertUnwindSafe(|| {
                    shuttle::check_dfs(
                        move || {
                            c.fetch_add(1, std::sync::atomic::Ordering::SeqCst);
                            b()
                        },
                        m,
                    )
                }));
                let got = count.load(std::sync::atomic::Ordering::SeqCst);
                let want = m.map(|m| m.min(leafset.len())).unwrap_or(leafset.len());
                if r.is_err() || got != want {
                    problems.push(json!({"mode":format!("check_dfs({:?})", m),"what":format!("check_dfs ran the body {} times, expected {} (panicked: {})", got, want, r.is_err())}));
                }
            }
            o.insert("check_dfs_api_runs_checked".into(), json!(2));
        }
        // same data stream in every execution
        if with_data {
            let d0 = log.execs.first().map(|e| e.draws()).unwrap_or_default();
            o.insert("draws_per_execution".into(), json!(d0.len()));
            if log.execs.iter().any(|e| e.draws() != d0) {
                problems.push(json!({"mode":"full","what":"data draws differ between DFS executions"}));
            }
        }
        // E3 cross-validation: replay the recorded run on a fresh DfsScheduler with synthetic tasks
        match rec::replay_abstract(&log, &mut DfsScheduler::new(None, with_data)) {
            Ok(n) => {
                o.insert("abstract_replay_calls".into(), json!(n));
            }
            Err(e) => {
                o.insert("machinery".into(), json!(format!("abstract driver does not reproduce the runtime run: {}", e)));
            }
        }
        // does any decision of the real run show path-dependent offered sets / yields?
        let yields = log
            .execs
            .iter()
            .flat_map(|e| e.evs.iter())
            .filter(|e| matches!(e, Ev::Task { yielding: true, .. }))
            .count();
        o.insert("yield_decisions".into(), json!(yields));
        // iteration bounds
        let nl = leafset.len();
        // every bound for small bodies; for large ones a fixed list (every bound costs a full run)
        let full_upto = if thorough { 300 } else { 40 };
        let ms: Vec<usize> = if nl <= full_upto {
            (0..=nl + 1).collect()
        } else if thorough {
            vec![0, 1, 2, 3, 7, nl / 4, nl / 2, nl - 2, nl - 1, nl, nl + 1, nl + 5]
        } else {
            vec![0, 1, 2, nl / 2, nl - 1, nl, nl + 1]
        };
        let mut bounds_checked = 0;
        for m in ms {
            let (l, p) = rec::record_run(DfsScheduler::new(Some(m), with_data), &body, rec::quiet_config());
            let got: Vec<Vec<u8>> = l.execs.iter().map(|e| e.choices()).collect();
            let set: BTreeSet<Vec<u8>> = got.iter().cloned().collect();
            let want = m.min(nl);
            if p.is_some() || got.len() != want || set.len() != want || !set.is_subset(&leafset) {
                problems.push(json!({"mode":format!("max_iterations={}", m),"what":format!("expected {} distinct schedules, got {} executions / {} distinct (panic: {:?})", want, got.len(), set.len(), p)}));
            }
            bounds_checked += 1;
        }
        o.insert("iteration_bounds_checked".into(), json!(bounds_checked));
        // step cuts through the runtime (guard-free bodies only, cf. F11)
        if rec::GUARD_FREE.contains(name) {
            let maxlen = leaves.iter().map(|l| l.len()).max().unwrap_or(0);
            let mut cuts = 0;
            for n in 1..=maxlen + 1 {
                let exp: BTreeSet<Vec<u8>> = leaves.iter().map(|l| l[..n.min(l.len())].to_vec()).collect();
                let mut cfg = rec::quiet_config();
                cfg.max_steps = shuttle_engine::MaxSteps::ContinueAfter(n);
                let (l, p) = rec::record_run(DfsScheduler::new(None, false), &body, cfg);
                let got: Vec<Vec<u8>> = l.execs.iter().map(|e| e.choices()).collect();
                let set: BTreeSet<Vec<u8>> = got.iter().cloned().collect();
                if p.is_some() || got.len() != set.len() || set != exp {
                    problems.push(json!({"mode":format!("ContinueAfter({})", n),"what":format!("expected the {} distinct prefixes, got {} executions / {} distinct (panic: {:?})", exp.len(), got.len(), set.len(), p)}));
                }
                cuts += 1;
            }
            o.insert("step_cuts_checked".into(), json!(cuts));
        }
        o.insert("problems".into(), json!(problems));
        out.push(Value::Object(o));
    }
    println!("{}", serde_json::to_string(&json!({"bodies": out})).unwrap());
}

// ------------------------------------------------------------------------------------------------
// the check
// ------------------------------------------------------------------------------------------------

pub fn run(ctx: &CheckCtx) -> CheckResult {
    std::panic::set_hook(Box::new(|_| {}));
    let mut res = CheckResult::new("exploration");
    let thorough = ctx.tier == Tier::Thorough;
    let nthreads = par::ncpu();
    let budget = if thorough { Duration::from_secs(20 * 60) } else { Duration::from_secs(32) };
    let deadline = ctx.start + budget;

    // integration child runs concurrently with the abstract sweep
    let integ = std::thread::spawn(move || {
        par::spawn_child(
            &["c09-integ".to_string(), if thorough { "thorough".into() } else { "quick".into() }],
            &[],
            Duration::from_secs(if thorough { 900 } else { 40 }),
        )
    });

    let plain = Labelling::plain();
    let rich = Labelling {
        scheme: 1,
        universe: 6,
        yields: true,
        draws: true,
    };
    let stay = Labelling {
        scheme: 2,
        universe: 5,
        yields: true,
        draws: false,
    };
    // (family, labellings, all (m x cut) combinations?)
    let mut plan: Vec<(Family, Vec<Labelling>, Passes)> = vec![
        (Family::new(3, 3), vec![plain.clone(), rich.clone(), stay.clone()], Passes::All),
        (Family::new(2, 4), vec![plain.clone(), rich.clone(), stay.clone()], Passes::All),
        (Family::new(4, 2), vec![plain.clone(), rich.clone(), stay.clone()], Passes::All),
    ];
    if thorough {
        let ids0_draws = Labelling {
            scheme: 0,
            universe: 4,
            yields: true,
            draws: true,
        };
        plan.push((Family::new(5, 2), vec![ids0_draws], Passes::UnboundedOnly));
    }
    let mut total = Stats::default();
    let mut fams: Vec<Value> = Vec::new();
    let mut exhaustive = true;
    for (fam, labs, passes) in &plan {
        for lab in labs {
            let size = fam.size();
            let (st, viols) = sweep(&real_dfs, fam, lab, 0, size, *passes, deadline, nthreads);
            let complete = !st.capped && st.trees as u128 == size;
            exhaustive &= complete;
            fams.push(json!({
                "family": format!("all trees depth<={} branching<={}", fam.d, fam.b),
                "labelling": lab.name(),
                "shapes_in_family": size.to_string(),
                "trees_checked": st.trees,
                "trees_with_2plus_leaves": st.nontrivial,
                "dfs_runs": st.runs,
                "executions": st.executions,
                "scheduler_steps": st.steps,
                "max_leaves": st.max_leaves,
                "passes": format!("{:?}", passes),
                "complete": complete,
            }));
            total.add(&st);
            let nv = viols.len();
            for v in viols.into_iter().filter(|v| !v.key.is_empty()).take(3) {
                res.finding(v.key, v.what, v.replay);
            }
            if nv > 0 {
                res.cov(&format!("violating_trees_{}_{}", fam.d, fam.b), nv as u64);
            }
        }
    }
    // samples: two actual trees with the order DFS visited them in
    {
        let uni = Universe::flat(16);
        let mut buf: Vec<&Task> = Vec::new();
        let fam = Family::new(3, 3);
        for x in [4321u128, 600_000u128] {
            let t = fam.build(x, &rich);
            let mut st = Stats::default();
            let mut ends = Vec::new();
            let mut s = real_dfs(None);
            let _ = dfs_run(&mut s, &t, &uni, None, true, t.leaves + 1, &mut buf, &mut st, &mut ends);
            res.sample(json!({"family":"depth<=3,branching<=3","index":x.to_string(),"tree":t.to_json(),"leaves":t.leaves,"dfs_visit_order_paths":describe_ends(&t, &ends)}));
        }
    }

    // integration
    let mut integ_execs = 0u64;
    let mut integ_bodies = 0u64;
    let mut integ_nontrivial = 0u64;
    let mut replay_calls = 0u64;
    match integ.join().unwrap() {
        Err(e) => res.machinery_errors.push(format!("integration child: {}", e)),
        Ok(co) => match co.json() {
            None => res.machinery_errors.push(format!(
                "integration child produced no result (status {:?} signal {:?} timed_out {}): {}",
                co.status,
                co.signal,
                co.timed_out,
                co.stderr.lines().rev().take(5).collect::<Vec<_>>().join(" | ")
            )),
            Some(v) => {
                for b in v["bodies"].as_array().cloned().unwrap_or_default() {
                    let name = b["body"].as_str().unwrap_or("?").to_string();
                    if let Some(m) = b["machinery"].as_str() {
                        res.machinery_errors.push(format!("integration body {}: {}", name, m));
                        continue;
                    }
                    integ_bodies += 1;
                    let l = b["explorer_leaves"].as_u64().unwrap_or(0);
                    integ_execs += b["dfs_executions"].as_u64().unwrap_or(0);
                    replay_calls += b["abstract_replay_calls"].as_u64().unwrap_or(0);
                    if l >= 2 {
                        integ_nontrivial += 1;
                    }
                    for p in b["problems"].as_array().cloned().unwrap_or_default() {
                        let mode = p["mode"].as_str().unwrap_or("?").to_string();
                        res.finding(
                            format!("runtime-dfs:{}:{}", name, mode),
                            format!("real body '{}' under DfsScheduler, {}: {}", name, mode, p["what"].as_str().unwrap_or("?")),
                            json!({"kind":"runtime-dfs","body":name,"mode":mode}),
                        );
                    }
                    res.sample(b.clone());
                }
            }
        },
    }

    res.cov("evaluations", total.runs + integ_execs);
    res.cov("distinct_nontrivial", total.nontrivial + integ_nontrivial);
    res.cov(
        "rule",
        "E3: every tree shape of each listed family is enumerated by index (shape x in [0,count)); a case = one tree x labelling; on each: unbounded DFS, every max_iterations 0..leaves+1, every step cut 1..depth (and every bound x cut combination where flagged); evaluations = DFS runs (scheduler instances driven to None) + runtime DFS executions; non-trivial = tree with >= 2 leaves (DFS must backtrack); distinct = distinct shape index x labelling",
    );
    res.cov("families", json!(fams));
    res.cov("abstract_trees", total.trees);
    res.cov("abstract_dfs_runs", total.runs);
    res.cov("abstract_executions", total.executions);
    res.cov("abstract_scheduler_steps", total.steps);
    res.cov("integration_bodies", integ_bodies);
    res.cov("integration_bodies_with_2plus_schedules", integ_nontrivial);
    res.cov("integration_dfs_executions", integ_execs);
    res.cov("e3_cross_validation_scheduler_calls_reproduced", replay_calls);
    res.cov("exhaustive", exhaustive && !total.capped);
    res.cov("worker_threads", nthreads as u64);
    res.assumptions.push("the runtime stops an execution under MaxSteps::ContinueAfter(n) by no longer calling next_task after n steps (emulated in E3; confirmed through the runtime on guard-free bodies only, because of F11)".into());
    res.assumptions.push("schedulers are deterministic automata over (offered ids, current, is_yielding); synthetic Task objects built with Task::from_closure are indistinguishable to them from runtime tasks (cross-validated: recorded runtime runs are reproduced call for call)".into());
    res.assumptions.push("depth<=5/branching<=2 (1.13e9 shapes) is swept in the thorough tier only and with the unbounded pass only (every leaf exactly once, then None, same data stream); iteration bounds and step cuts are exhaustive up to depth<=4/branching<=2 and depth<=3/branching<=3".into());
    res
}

// ------------------------------------------------------------------------------------------------
// replay
// ------------------------------------------------------------------------------------------------

pub fn replay(doc: &Value) {
    let r = &doc["replay"];
    match r["kind"].as_str() {
        Some("abstract-dfs") => {
            let tree = ATree::from_json(&r["tree"]);
            let uni = Universe::flat(16);
            let mut buf: Vec<&Task> = Vec::new();
            let m = r["mode"]["max_iterations"].as_u64().map(|m| m as usize);
            let cut = r["mode"]["cut"].as_u64().map(|m| m as usize);
            let draws = r["mode"]["draws"].as_bool().unwrap_or(false);
            println!("tree: {}", r["tree"]);
            println!("mode: max_iterations={:?} cut={:?} draws={}", m, cut, draws);
            let expected = tree.cut_ends(cut.unwrap_or(usize::MAX));
            println!("expected ends ({}): {:?}", expected.len(), describe_ends(&tree, &expected));
            let mut st = Stats::default();
            let mut ends = Vec::new();
            let out = std::panic::catch_unwind(std::panic::AssertUnwindSafe(|| {
                let mut s = real_dfs(m);
                dfs_run(&mut s, &tree, &uni, cut, draws && cut.is_none(), expected.len() + 2, &mut buf, &mut st, &mut ends)
            }));
            match out {
                Ok(Ok(())) => println!("DfsScheduler visited ({}): {:?} then None", ends.len(), describe_ends(&tree, &ends)),
                Ok(Err(e)) => println!("DfsScheduler: {}", e),
                Err(e) => println!("DfsScheduler panicked: {}", panic_text(e)),
            }
        }
        Some("runtime-dfs") => {
            let name = r["body"].as_str().unwrap_or("");
            println!("re-running the runtime integration for all bodies (body of interest: {}, mode {})", name, r["mode"]);
            child_integration(false);
        }
        k => {
            eprintln!("unknown replay kind {:?}", k);
            std::process::exit(2);
        }
    }
}
