//! E3 substrate: real `Task` objects built through the public API *outside* any execution, so that
//! the schedulers under test can be handed arbitrary offered lists.  No coroutine ever runs.

use shuttle_engine::runtime::task::clock::VectorClock;
use shuttle_engine::runtime::task::{Task, TaskId, TaskSignature};
use shuttle_engine::runtime::thread::continuation::{ContinuationPool, CONTINUATION_POOL};
use std::panic::Location;

/// A fixed family of synthetic tasks with ids `0..n`.  `parents[i]` is the id of the task that
/// "spawned" task i (None for task 0); signatures are derived exactly like the runtime derives them
/// (`new_parentless` for the root, `parent.new_child(site)` for the others), so that signature
/// hashes are distinct per task and `parent_signature_hash` links child to parent — this is what
/// `UrwRandomScheduler` keys its estimates on.
pub struct Universe {
    pub tasks: Vec<Task>,
}

impl Universe {
    /// All tasks children of task 0.
    pub fn flat(n: usize) -> Universe {
        let parents: Vec<Option<usize>> = (0..n).map(|i| if i == 0 { None } else { Some(0) }).collect();
        Universe::with_parents(&parents)
    }

    pub fn with_parents(parents: &[Option<usize>]) -> Universe {
        let n = parents.len();
        assert!(n >= 1 && parents[0].is_none());
        let pool = ContinuationPool::new();
        let site: &'static Location<'static> = Location::caller();
        let tasks = CONTINUATION_POOL.set(&pool, || {
            let mut sigs: Vec<TaskSignature> = Vec::with_capacity(n);
            let mut tasks: Vec<Task> = Vec::with_capacity(n);
            for i in 0..n {
                let sig = match parents[i] {
                    None => TaskSignature::new_parentless(site),
                    Some(p) => {
                        assert!(p < i, "parents must precede children");
                        sigs[p].new_child(site)
                    }
                };
                sigs.push(sig.clone());
                let mut clock = VectorClock::new();
                clock.extend(TaskId::from(i));
                let t = Task::from_closure(
                    Box::new(|| {}),
                    0x8000,
                    TaskId::from(i),
                    None,
                    clock,
                    None,
                    0,
                    None,
                    parents[i].map(TaskId::from),
                    sig,
                );
                tasks.push(t);
            }
            tasks
        });
        Universe { tasks }
    }

    /// Build the `&[&Task]` slice for the given ids into `buf` (reused to avoid allocation).
    #[inline]
    pub fn offer<'a>(&'a self, ids: &[u8], buf: &mut Vec<&'a Task>) {
        buf.clear();
        for &i in ids {
            buf.push(&self.tasks[i as usize]);
        }
    }
}
