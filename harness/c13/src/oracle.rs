//! The oracle: exactly the statement of C13, nothing more.
//!
//!  R1  with a bound n, at no time has an execution performed more than n steps (answered
//!      scheduling decisions + random draws, counted by our own wrapper) since the last reset;
//!  R2  an execution whose unbounded twin needs M > n steps: FailAfter ⇒ the run fails there with
//!      the max-steps message; ContinueAfter ⇒ no failure, nothing written to stderr, the run goes on;
//!  R3  an execution whose unbounded twin needs M < n steps is identical to that twin;
//!      (M == n is left open by the statement and is not judged: either behaviour is accepted)
//!  R4  without a failure: returned count == executions started == body invocations == the
//!      scheduler's iteration budget; with `max_time = 0` at most one iteration (the limit is only
//!      checked between iterations, and `elapsed > 0` is certain only after the 1 ms the body sleeps).

use crate::body::{Body, Ev, ExecRec, Step, EV_LOCKED, EV_UNLOCKING};
use crate::sched::SchedSpec;
use crate::worker::{CellReq, CellRes, Mode};
use std::collections::HashSet;

pub const MAX_STEPS_MSG: &str = "exceeded max_steps bound";
pub const PCT_NO_CONCURRENCY: &str = "did not exercise any concurrency";

/// Value-free form of an execution (for schedulers seeded from OS entropy, whose draws differ).
#[derive(Clone, Debug, PartialEq, Eq, Hash)]
pub struct Shape {
    steps: Vec<Option<usize>>,
    evs: Vec<(u8, u8, u8, u32)>,
}

pub fn shape_of(e: &ExecRec, body: &Body) -> Shape {
    Shape {
        steps: e
            .steps
            .iter()
            .map(|s| match s {
                Step::T(t) => Some(*t),
                Step::R(_) => None,
            })
            .collect(),
        evs: e
            .evs
            .iter()
            .map(|v: &Ev| {
                let _ = body;
                (v.t, v.i, v.code, v.at)
            })
            .collect(),
    }
}

/// What the parent knows about a body from the exhaustive unbounded exploration.
pub struct BodyInfo {
    pub body: Body,
    pub execs: Vec<ExecRec>,
    pub m_min: u32,
    pub m_max: u32,
    pub shapes: HashSet<Shape>,
    pub complete: bool,
}

impl BodyInfo {
    pub fn new(body: Body, execs: Vec<ExecRec>, complete: bool) -> Self {
        let m_min = execs.iter().map(|e| e.m).min().unwrap_or(0);
        let m_max = execs.iter().map(|e| e.m).max().unwrap_or(0);
        let shapes = execs.iter().map(|e| shape_of(e, &body)).collect();
        BodyInfo {
            body,
            execs,
            m_min,
            m_max,
            shapes,
            complete,
        }
    }
    /// every schedule needs the same number of steps
    pub fn invariant_m(&self) -> Option<u32> {
        if self.complete && self.m_min == self.m_max {
            Some(self.m_max)
        } else {
            None
        }
    }
}

pub enum Base<'a> {
    /// the executions of the unbounded run of the very same scheduler configuration
    Exact(&'a [ExecRec]),
    /// scheduler seeded from OS entropy: every schedule of the body needs `m` steps, and an
    /// unaffected execution must have one of the shapes the explorer enumerated
    Invariant { m: u32 },
}

#[derive(Default, Debug)]
pub struct Verdict {
    pub findings: Vec<(String, String)>,
    pub machinery: Vec<String>,
    pub excluded: Option<String>,
    /// relation classes (of n to the twin's M) that were judged: "lt" / "eq" / "gt"
    pub rels: Vec<&'static str>,
    pub cut_observed: bool,
    pub fail_observed: bool,
    pub count_judged: bool,
}

fn same_exec(e: &ExecRec, i: usize, base: &Base, info: &BodyInfo) -> bool {
    match base {
        Base::Exact(b) => i < b.len() && *e == b[i],
        Base::Invariant { m } => e.ended && e.m == *m && info.shapes.contains(&shape_of(e, &info.body)),
    }
}

/// The first step (0-based index) at which the count since the last reset exceeds n, and whether
/// that step is a random draw.
pub fn first_overshoot(e: &ExecRec, n: usize) -> Option<(usize, bool)> {
    let mut ri = 0usize;
    let mut reset_at = 0u32;
    for (idx, s) in e.steps.iter().enumerate() {
        while ri < e.resets.len() && e.resets[ri] as usize <= idx {
            reset_at = e.resets[ri];
            ri += 1;
        }
        let since = idx as u32 + 1 - reset_at;
        if since as usize > n {
            return Some((idx, matches!(s, Step::R(_))));
        }
    }
    None
}

/// For an unbounded execution `b` and a bound n: index of the scheduling call at which the runtime
/// has to cut it (first scheduling call with `steps since reset >= n`, as the code does it), and the
/// guards (thread, mutex) held on task stacks at that moment. None if no call qualifies.
pub fn predicted_cut(b: &ExecRec, n: usize) -> Option<(usize, Vec<(u8, u64)>)> {
    let total = b.steps.len();
    for j in 0..=total {
        let is_call = j == total || matches!(b.steps[j], Step::T(_));
        if !is_call {
            continue;
        }
        let reset_at = b.resets.iter().filter(|r| **r as usize <= j).last().copied().unwrap_or(0) as usize;
        if j - reset_at >= n {
            let mut held: Vec<(u8, u64)> = Vec::new();
            for ev in b.evs.iter().filter(|ev| ev.at as usize <= j) {
                if ev.code == EV_LOCKED {
                    held.push((ev.t, ev.v));
                } else if ev.code == EV_UNLOCKING {
                    held.retain(|h| *h != (ev.t, ev.v));
                }
            }
            return Some((j, held));
        }
    }
    None
}

fn is_prefix(e: &ExecRec, b: &ExecRec) -> bool {
    e.steps.len() <= b.steps.len()
        && e.steps[..] == b.steps[..e.steps.len()]
        && e.evs.len() <= b.evs.len()
        && e.evs[..] == b.evs[..e.evs.len()]
}

fn short(msg: &str) -> String {
    let s: String = msg
        .chars()
        .map(|c| if c.is_ascii_alphabetic() { c } else { '-' })
        .take(48)
        .collect();
    let mut out = String::new();
    for c in s.trim_matches('-').chars() {
        if c == '-' && out.ends_with('-') {
            continue;
        }
        out.push(c);
    }
    out
}

pub fn judge(req: &CellReq, base: &Base, info: &BodyInfo, res: &CellRes) -> Verdict {
    let mut v = Verdict::default();
    let kind = req.sched.kind();
    let mode = req.mode;
    let n = mode.n();
    let stateless = req.sched.stateless(req.body.has_rand());
    if let Some(m) = &res.mismatch {
        v.machinery.push(format!("fixed scheduler could not follow its path: {}", m));
        return v;
    }
    // PCT documents a panic for bodies/executions without a multi-choice step: not judged
    if let (SchedSpec::Pct { .. }, Some(msg)) = (&req.sched, &res.panic) {
        if msg.contains(PCT_NO_CONCURRENCY) {
            v.excluded = Some("pct: documented panic 'did not exercise any concurrency'".into());
            // R1 is still judged below, the rest is not
        }
    }

    let mut diverged = false; // later executions are no longer comparable with the baseline
    let mut any_cut = false;
    let mut failed_at: Option<usize> = None;
    let nexec = res.execs.len();
    for (i, e) in res.execs.iter().enumerate() {
        let last = i + 1 == nexec;
        // R1 — always
        if let Some(n) = n {
            if e.m as usize > n {
                let (idx, by_draw) = first_overshoot(e, n).unwrap_or((0, false));
                let key = if by_draw {
                    "overshoot/random-draw-beyond-bound"
                } else {
                    "overshoot/scheduling-decision-beyond-bound"
                };
                v.findings.push((
                    key.to_string(),
                    format!(
                        "{}({}): execution {} performed {} steps since the last reset (> n); step #{} ({}) is the first beyond the bound; steps = {}",
                        mode.name(),
                        n,
                        i,
                        e.m,
                        idx,
                        if by_draw { "random draw" } else { "scheduling decision" },
                        crate::sched::fmt_steps(&e.steps)
                    ),
                ));
            }
        }
        if v.excluded.is_some() || diverged || failed_at.is_some() {
            continue;
        }
        let bm = match base {
            Base::Exact(b) => {
                if i >= b.len() {
                    // more executions than the unbounded run had: judged by the count rule below
                    continue;
                }
                b[i].m
            }
            Base::Invariant { m } => *m,
        };
        let same = same_exec(e, i, base, info);
        let n = match n {
            None => {
                // this is an unbounded run: it must reproduce the baseline (determinism self-check)
                if !same {
                    v.machinery
                        .push(format!("unbounded execution {} is not reproducible ({})", i, kind));
                }
                continue;
            }
            Some(n) => n,
        };
        let fail_ok = |res: &CellRes| {
            last && res
                .panic
                .as_ref()
                .map(|m| m.contains(&format!("{} {}", MAX_STEPS_MSG, n)))
                .unwrap_or(false)
        };
        if (bm as usize) < n {
            v.rels.push("lt");
            if !same {
                v.findings.push((
                    "below-bound/execution-affected".into(),
                    format!(
                        "{}({}): execution {} needs only {} steps unbounded but differs from its unbounded twin (steps {} vs twin's; ended={})",
                        mode.name(),
                        n,
                        i,
                        bm,
                        crate::sched::fmt_steps(&e.steps),
                        e.ended
                    ),
                ));
                diverged = true;
            }
        } else if (bm as usize) > n {
            v.rels.push("gt");
            match mode {
                Mode::Fail(_) => {
                    if fail_ok(res) {
                        failed_at = Some(i);
                        v.fail_observed = true;
                    } else {
                        let key = if last && res.panic.is_some() {
                            "FailAfter/wrong-failure-message"
                        } else {
                            "FailAfter/no-failure-above-bound"
                        };
                        v.findings.push((
                            key.into(),
                            format!(
                                "FailAfter({}): execution {} needs {} steps unbounded; expected the run to fail there with '{} {}'; observed panic={:?}, executions started={}",
                                n, i, bm, MAX_STEPS_MSG, n, res.panic, nexec
                            ),
                        ));
                        diverged = true;
                    }
                }
                Mode::Cont(_) => {
                    any_cut = true;
                    v.cut_observed = true;
                    if let Base::Exact(b) = base {
                        if !is_prefix(e, &b[i]) {
                            v.machinery.push(format!(
                                "cut execution {} is not a prefix of its unbounded twin ({})",
                                i, kind
                            ));
                        }
                    }
                    if !stateless {
                        diverged = true;
                    }
                }
                Mode::None => {}
            }
        } else {
            // M == n: open. Either unaffected, or treated as above the bound (the code does the
            // latter at the execution's last scheduling call, after the body has run to its end).
            v.rels.push("eq");
            match mode {
                Mode::Fail(_) => {
                    if last && res.panic.is_some() {
                        if fail_ok(res) {
                            failed_at = Some(i);
                        } else {
                            v.findings.push((
                                "FailAfter/wrong-failure-message".into(),
                                format!(
                                    "FailAfter({}): execution {} needs exactly n steps; the run failed there with {:?}",
                                    n, i, res.panic
                                ),
                            ));
                            diverged = true;
                        }
                    } else if !same {
                        v.findings.push((
                            "FailAfter/open-case-neither-unaffected-nor-failed".into(),
                            format!(
                                "FailAfter({}): execution {} needs exactly n steps; it neither equals its unbounded twin nor did the run fail there",
                                n, i
                            ),
                        ));
                        diverged = true;
                    }
                }
                Mode::Cont(_) => {
                    if !same {
                        any_cut = true;
                        if let Base::Exact(b) = base {
                            if !is_prefix(e, &b[i]) {
                                v.machinery.push(format!(
                                    "cut execution {} (M == n) is not a prefix of its unbounded twin ({})",
                                    i, kind
                                ));
                            }
                        }
                        if !stateless {
                            diverged = true;
                        }
                    }
                }
                Mode::None => {}
            }
        }
    }

    if v.excluded.is_some() {
        return v;
    }

    // run level
    if failed_at.is_some() {
        // the failing execution is the last one (checked above)
        if n != Some(0) && res.entries != nexec {
            v.findings.push((
                "count/executions-vs-body-invocations".into(),
                format!(
                    "{:?}: {} executions started but the body was entered {} times",
                    mode, nexec, res.entries
                ),
            ));
        }
        return v;
    }
    if let Some(msg) = &res.panic {
        // a failure nobody asked for. (FailAfter on an open M == n execution was accepted above.)
        v.findings.push((
            format!("run-failed/{}/{}/{}", mode.name(), req.sched.family(), short(msg)),
            format!(
                "{:?} with {}: the run failed with a panic the bound does not call for (under FailAfter no execution so far needs more than n steps; under ContinueAfter / None a run never fails on the bound): {}",
                mode,
                req.sched.describe(),
                msg
            ),
        ));
        return v;
    }
    let count = match res.count {
        Some(c) => c,
        None => {
            v.machinery.push("no panic and no count".into());
            return v;
        }
    };
    v.count_judged = true;
    if count != nexec {
        v.findings.push((
            "count/returned-vs-executions".into(),
            format!(
                "{:?}: Runner::run returned {} but {} executions were started",
                mode, count, nexec
            ),
        ));
    }
    if n != Some(0) && res.entries != nexec {
        v.findings.push((
            "count/executions-vs-body-invocations".into(),
            format!(
                "{:?}: {} executions started but the body was entered {} times",
                mode, nexec, res.entries
            ),
        ));
    }
    // the budget
    let expected: Option<usize> = match (&req.sched, base) {
        (SchedSpec::Dfs { k, .. }, Base::Exact(b)) => {
            if !any_cut && !diverged {
                Some(b.len())
            } else {
                // the tree DFS sees is a different (truncated) one: only the cap is fixed
                if let Some(k) = k {
                    if count > *k {
                        v.findings.push((
                            "count/over-budget".into(),
                            format!("{:?}: DFS budget {} but {} executions", mode, k, count),
                        ));
                    }
                }
                None
            }
        }
        (s, _) => s.budget(),
    };
    if let Some(exp) = expected {
        if req.max_time_zero {
            // elapsed > 0 is certain after one invocation (the body sleeps), likely but not certain before the first
            if count > exp.min(1) {
                v.findings.push((
                    "count/max-time-zero-not-enforced".into(),
                    format!(
                        "max_time=0, {:?}, budget {}: {} iterations ran (each sleeps {} µs of real time)",
                        mode, exp, count, req.sleep_us
                    ),
                ));
            }
        } else if count != exp {
            v.findings.push((
                "count/not-the-iteration-budget".into(),
                format!(
                    "{:?} with {}: Runner::run returned {} but the iteration budget allows {}",
                    mode,
                    req.sched.describe(),
                    count,
                    exp
                ),
            ));
        }
    }
    // silence of abandoned executions
    if let (Mode::Cont(_), Some(d), false) = (mode, res.stderr_delta, req.max_time_zero) {
        if d != 0 {
            v.findings.push((
                "ContinueAfter/not-silent".into(),
                format!("{:?}: {} bytes were written to stderr during the run", mode, d),
            ));
        }
    }
    v
}
