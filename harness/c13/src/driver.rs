//! Parent side: worker-process pool, the configuration grid, aggregation, replay.

use crate::body::{bodies, Body, ExecRec};
use crate::oracle::{judge, predicted_cut, Base, BodyInfo, Verdict};
use crate::sched::{fmt_steps, SchedSpec};
use crate::worker::{CellReq, CellRes, MeasureRes, Mode, Req};
use serde::de::DeserializeOwned;
use serde_json::{json, Value};
use std::collections::{BTreeMap, BTreeSet, VecDeque};
use std::io::{BufRead, BufReader, Read, Write};
use std::process::{Child, ChildStdin, ChildStdout, Command, Stdio};
use std::sync::atomic::{AtomicBool, AtomicU64, Ordering};
use std::sync::Mutex;
use std::time::{Duration, Instant};
use vx::common::{CheckCtx, CheckResult};

pub const F11_KEY: &str = "abort/ContinueAfter-cut-with-suspended-guard-holder";
const SLEEP_US: u64 = 1000;

// ---------------------------------------------------------------------------------------------
// worker processes
// ---------------------------------------------------------------------------------------------

pub struct Proc {
    p: Child,
    inp: ChildStdin,
    out: BufReader<ChildStdout>,
}

#[derive(Debug)]
pub struct Died {
    pub how: String,
    pub stderr: String,
}

impl Proc {
    fn spawn(keep_stderr: bool, cpu: Option<usize>) -> Result<Proc, String> {
        let exe = Ok::<std::path::PathBuf, std::io::Error>(std::path::PathBuf::from("/proc/self/exe")).map_err(|e| e.to_string())?;
        let mut c = Command::new(exe);
        c.arg("worker").stdin(Stdio::piped()).stdout(Stdio::piped());
        if let Some(cpu) = cpu {
            // one CPU per worker: keeps munmap's TLB shootdowns local (they dominate otherwise)
            c.env("VX_C13_CPU", cpu.to_string());
        }
        if keep_stderr {
            c.env("VX_C13_KEEP_STDERR", "1").stderr(Stdio::piped());
        } else {
            c.stderr(Stdio::null());
        }
        let mut p = c.spawn().map_err(|e| format!("cannot spawn worker: {}", e))?;
        let inp = p.stdin.take().unwrap();
        let out = BufReader::new(p.stdout.take().unwrap());
        Ok(Proc { p, inp, out })
    }
}

pub struct Worker {
    proc: Option<Proc>,
    keep_stderr: bool,
    cpu: Option<usize>,
    pub spawns: u64,
}

impl Worker {
    pub fn new(keep_stderr: bool) -> Self {
        Worker {
            proc: None,
            keep_stderr,
            cpu: None,
            spawns: 0,
        }
    }
    pub fn pinned(cpu: usize) -> Self {
        Worker {
            proc: None,
            keep_stderr: false,
            cpu: Some(cpu),
            spawns: 0,
        }
    }

    /// Ok(Ok(reply)) / Ok(Err(died)) — the child died while processing this request / Err(machinery)
    pub fn call<T: DeserializeOwned>(&mut self, req: &Req) -> Result<Result<T, Died>, String> {
        if self.proc.is_none() {
            self.proc = Some(Proc::spawn(self.keep_stderr, self.cpu)?);
            self.spawns += 1;
        }
        let line = serde_json::to_string(req).map_err(|e| e.to_string())?;
        let pr = self.proc.as_mut().unwrap();
        let wrote = writeln!(pr.inp, "{}", line).and_then(|_| pr.inp.flush());
        let mut reply = String::new();
        let got = if wrote.is_ok() {
            pr.out.read_line(&mut reply).unwrap_or(0)
        } else {
            0
        };
        if got == 0 || !reply.ends_with('\n') {
            // the child is gone
            let mut pr = self.proc.take().unwrap();
            drop(pr.inp);
            let status = pr.p.wait().map_err(|e| e.to_string())?;
            let mut stderr = String::new();
            if let Some(mut e) = pr.p.stderr.take() {
                let _ = e.read_to_string(&mut stderr);
            }
            use std::os::unix::process::ExitStatusExt;
            let how = match (status.signal(), status.code()) {
                (Some(s), _) => format!("killed by signal {}", s),
                (_, Some(c)) => format!("exited with code {}", c),
                _ => "died".to_string(),
            };
            return Ok(Err(Died { how, stderr }));
        }
        if let Some(how) = died_line(&reply) {
            return Ok(Err(Died {
                how,
                stderr: String::new(),
            }));
        }
        match serde_json::from_str::<T>(&reply) {
            Ok(t) => Ok(Ok(t)),
            Err(e) => Err(format!("unparsable worker reply ({}): {}", e, reply.chars().take(200).collect::<String>())),
        }
    }
}

/// `{"died": "..."}` — the supervisor reporting that the child running the request was killed
fn died_line(reply: &str) -> Option<String> {
    if !reply.starts_with("{\"died\"") {
        return None;
    }
    serde_json::from_str::<Value>(reply)
        .ok()
        .and_then(|v| v["died"].as_str().map(|s| s.to_string()))
}

impl Worker {
    /// Send a batch of cells; the child streams one reply line per cell. Returns the replies received
    /// and, if the child died, how — the culprit is then the cell with index `replies.len()`.
    pub fn call_batch(&mut self, reqs: &[CellReq]) -> Result<(Vec<CellRes>, Option<Died>), String> {
        if self.proc.is_none() {
            self.proc = Some(Proc::spawn(self.keep_stderr, self.cpu)?);
            self.spawns += 1;
        }
        let line = serde_json::to_string(&Req::Batch(reqs.to_vec())).map_err(|e| e.to_string())?;
        let pr = self.proc.as_mut().unwrap();
        let wrote = writeln!(pr.inp, "{}", line).and_then(|_| pr.inp.flush());
        let mut out = Vec::with_capacity(reqs.len());
        let mut dead = wrote.is_err();
        while !dead && out.len() < reqs.len() {
            let mut reply = String::new();
            let got = pr.out.read_line(&mut reply).unwrap_or(0);
            if got == 0 || !reply.ends_with('\n') {
                dead = true;
                break;
            }
            if let Some(how) = died_line(&reply) {
                return Ok((
                    out,
                    Some(Died {
                        how,
                        stderr: String::new(),
                    }),
                ));
            }
            match serde_json::from_str::<CellRes>(&reply) {
                Ok(t) => out.push(t),
                Err(e) => {
                    return Err(format!(
                        "unparsable worker reply ({}): {}",
                        e,
                        reply.chars().take(200).collect::<String>()
                    ))
                }
            }
        }
        if !dead {
            return Ok((out, None));
        }
        let mut pr = self.proc.take().unwrap();
        drop(pr.inp);
        let status = pr.p.wait().map_err(|e| e.to_string())?;
        let mut stderr = String::new();
        if let Some(mut e) = pr.p.stderr.take() {
            let _ = e.read_to_string(&mut stderr);
        }
        use std::os::unix::process::ExitStatusExt;
        let how = match (status.signal(), status.code()) {
            (Some(s), _) => format!("killed by signal {}", s),
            (_, Some(c)) => format!("exited with code {}", c),
            _ => "died".to_string(),
        };
        Ok((out, Some(Died { how, stderr })))
    }
}

impl Drop for Worker {
    fn drop(&mut self) {
        if let Some(mut pr) = self.proc.take() {
            drop(pr.inp);
            let _ = pr.p.wait();
        }
    }
}

// ---------------------------------------------------------------------------------------------
// aggregation
// ---------------------------------------------------------------------------------------------

#[derive(Default)]
pub struct Agg {
    cells: u64,
    executions: u64,
    cells_by_kind: BTreeMap<String, u64>,
    cells_by_mode: BTreeMap<String, u64>,
    classes: BTreeSet<String>,
    findings: BTreeMap<String, (u64, Vec<(String, Value)>)>,
    machinery: Vec<String>,
    excluded: BTreeMap<String, u64>,
    aborts: u64,
    aborts_confirmed: u64,
    cut_cells: u64,
    fail_cells: u64,
    count_judged: u64,
    rel: BTreeMap<String, u64>,
    mt0_count0: u64,
    mt0_count1: u64,
    spawns: u64,
    samples: Vec<Value>,
    skipped_for_time: u64,
    per_body: BTreeMap<String, Value>,
}

impl Agg {
    fn finding(&mut self, key: &str, what: String, replay: Value) {
        let e = self.findings.entry(key.to_string()).or_insert_with(|| (0, Vec::new()));
        e.0 += 1;
        if e.1.len() < 6 {
            e.1.push((what, replay));
        }
    }
    fn machinery(&mut self, m: String) {
        if self.machinery.len() < 50 {
            self.machinery.push(m);
        }
    }
}

pub struct Shared {
    agg: Mutex<Agg>,
    deadline: Instant,
    capped: AtomicBool,
    seed_base: u64,
    cell_counter: AtomicU64,
    thorough: bool,
}

fn replay_doc(req: &CellReq, baseline: bool) -> Value {
    json!({ "cell": req, "deterministic_baseline": baseline })
}

fn rel_of(info: &BodyInfo, n: usize) -> &'static str {
    if (info.m_max as usize) < n {
        "n>M"
    } else if (info.m_min as usize) > n {
        "n<M"
    } else if info.m_min == info.m_max {
        "n=M"
    } else {
        "n-in-[Mmin,Mmax]"
    }
}

/// Run a batch of cells in the worker, judge and record each. When the child dies the cell in flight
/// is the culprit: it is re-run alone in a fresh child to confirm, recorded as a finding, and the
/// rest of the batch goes to a new child.
fn do_cells(sh: &Shared, w: &mut Worker, info: &BodyInfo, reqs: &[CellReq], base: &Base) {
    let deterministic = matches!(base, Base::Exact(_));
    let mut from = 0usize;
    while from < reqs.len() {
        sh.cell_counter.fetch_add((reqs.len() - from) as u64, Ordering::Relaxed);
        let (replies, died) = match w.call_batch(&reqs[from..]) {
            Ok(r) => r,
            Err(m) => {
                sh.agg.lock().unwrap().machinery(m);
                return;
            }
        };
        for (k, res) in replies.iter().enumerate() {
            let req = &reqs[from + k];
            let v = judge(req, base, info, res);
            record(sh, info, req, res, v, deterministic);
        }
        from += replies.len();
        let died = match died {
            None => continue,
            Some(d) => d,
        };
        if from >= reqs.len() {
            sh.agg.lock().unwrap().machinery(format!("worker {} after finishing its batch", died.how));
            return;
        }
        let req = &reqs[from];
        from += 1;
        // re-run the culprit alone in a fresh child to confirm
        // (the supervisor forks a pristine child for it: nothing ran in that process before)
        let again = w.call::<CellRes>(&Req::Cell(req.clone()));
        let mut a = sh.agg.lock().unwrap();
        a.cells += 1;
        a.aborts += 1;
        *a.cells_by_kind.entry(req.sched.kind().to_string()).or_default() += 1;
        *a.cells_by_mode.entry(req.mode.name().to_string()).or_default() += 1;
        match again {
            Ok(Err(d2)) => {
                a.aborts_confirmed += 1;
                let (key, what) = classify_abort(info, req, base, &died, &d2);
                a.finding(&key, what, replay_doc(req, deterministic));
                if let Some(n) = req.mode.n() {
                    a.classes.insert(format!(
                        "{}|{}|{}|{}|abort",
                        info.body.name,
                        rel_of(info, n),
                        req.mode.name(),
                        req.sched.kind()
                    ));
                }
            }
            Ok(Ok(_)) => a.machinery(format!(
                "worker {} on cell {}/{:?}/{} but the cell alone in a fresh worker survives",
                died.how,
                info.body.name,
                req.mode,
                req.sched.describe()
            )),
            Err(m) => a.machinery(m),
        }
    }
}

fn classify_abort(info: &BodyInfo, req: &CellReq, base: &Base, d1: &Died, d2: &Died) -> (String, String) {
    let mut held_desc = String::new();
    let mut is_f11 = false;
    if let Mode::Cont(n) = req.mode {
        match base {
            Base::Exact(b) => {
                // the first execution that has to be cut is predictable from the unbounded twin; for a
                // stateless scheduler so are all of them
                let stateless = req.sched.stateless(info.body.has_rand());
                for (i, e) in b.iter().enumerate() {
                    if let Some((j, held)) = predicted_cut(e, n) {
                        if j < e.steps.len() || held.is_empty() {
                            // (a cut at the very last scheduling call with nothing held is harmless)
                        }
                        if !held.is_empty() {
                            is_f11 = true;
                            held_desc = format!(
                                "execution {} is cut at scheduling call #{} while guards (thread,mutex) {:?} are alive on suspended task stacks",
                                i, j, held
                            );
                            break;
                        }
                        if !stateless {
                            // later executions are not predictable: fall back to the body-level rule
                            if info.body.has_locks() {
                                is_f11 = true;
                                held_desc = format!(
                                    "execution {} is cut at call #{} holding nothing; later executions of this stateful scheduler are not predictable, the body holds guards across scheduling points",
                                    i, j
                                );
                            }
                            break;
                        }
                    }
                }
            }
            Base::Invariant { .. } => {}
        }
    }
    let first_path = match &req.sched {
        SchedSpec::Fixed { paths } => paths.first().map(|p| fmt_steps(p)).unwrap_or_default(),
        _ => String::new(),
    };
    if is_f11 {
        (
            F11_KEY.to_string(),
            format!(
                "process aborted ({}; alone in a fresh worker: {}): body '{}' {:?} under {:?} with {} {} — {} (debug-assertions build)",
                d1.how,
                d2.how,
                info.body.name,
                info.body.threads,
                req.mode,
                req.sched.kind(),
                first_path,
                held_desc
            ),
        )
    } else {
        (
            format!("abort/{}/{}/{}", req.mode.name(), req.sched.kind(), info.body.name),
            format!(
                "process aborted ({}; alone: {}): body '{}' under {:?} with {}; no guard is predicted to be held at a cut",
                d1.how,
                d2.how,
                info.body.name,
                req.mode,
                req.sched.describe()
            ),
        )
    }
}

fn record(sh: &Shared, info: &BodyInfo, req: &CellReq, res: &CellRes, v: Verdict, deterministic: bool) {
    let mut a = sh.agg.lock().unwrap();
    a.cells += 1;
    a.executions += res.execs.len() as u64;
    *a.cells_by_kind.entry(req.sched.kind().to_string()).or_default() += 1;
    *a.cells_by_mode.entry(req.mode.name().to_string()).or_default() += 1;
    if let Some(x) = &v.excluded {
        *a.excluded.entry(x.clone()).or_default() += 1;
    }
    if v.cut_observed {
        a.cut_cells += 1;
    }
    if v.fail_observed {
        a.fail_cells += 1;
    }
    if v.count_judged {
        a.count_judged += 1;
    }
    for r in &v.rels {
        *a.rel.entry(r.to_string()).or_default() += 1;
    }
    if req.max_time_zero {
        match res.count {
            Some(0) => a.mt0_count0 += 1,
            Some(_) => a.mt0_count1 += 1,
            None => {}
        }
    }
    if let Some(n) = req.mode.n() {
        if !req.max_time_zero && (v.cut_observed || v.fail_observed || (v.count_judged && !res.execs.is_empty())) {
            let what = if v.cut_observed {
                "cut"
            } else if v.fail_observed {
                "fail"
            } else {
                "count"
            };
            a.classes.insert(format!(
                "{}|{}|{}|{}|{}",
                info.body.name,
                rel_of(info, n),
                req.mode.name(),
                req.sched.kind(),
                what
            ));
        }
    }
    for m in v.machinery {
        a.machinery(format!("{} — body '{}' {:?} {}", m, info.body.name, req.mode, req.sched.describe()));
    }
    for (key, what) in v.findings {
        let what = format!(
            "body '{}' {:?}, scheduler {}: {}",
            info.body.name,
            info.body.threads,
            req.sched.describe(),
            what
        );
        a.finding(&key, what, replay_doc(req, deterministic));
    }
    if a.samples.len() < 6 && (v.cut_observed || v.fail_observed) && res.execs.len() >= 2 {
        a.samples.push(json!({
            "body": info.body,
            "scheduler": req.sched.describe(),
            "mode": format!("{:?}", req.mode),
            "returned": res.count,
            "panic": res.panic,
            "steps_per_execution": res.execs.iter().map(|e| e.steps.len()).collect::<Vec<_>>(),
            "max_since_reset_per_execution": res.execs.iter().map(|e| e.m).collect::<Vec<_>>(),
            "first_execution_steps": fmt_steps(&res.execs[0].steps),
        }));
    }
}

// ---------------------------------------------------------------------------------------------
// the grid
// ---------------------------------------------------------------------------------------------

enum Job {
    /// explorer schedules `lo..hi` of body `b`, replayed under every bound/mode/max_time/budget
    ArmA { b: usize, lo: usize, hi: usize },
    /// one built-in scheduler family on body `b`
    ArmB { b: usize, fam: Fam },
}

#[derive(Clone, Debug)]
enum Fam {
    Random(Option<u64>),
    Pct(Option<u64>, usize),
    Dfs,
    Urw(Option<u64>),
    RoundRobin,
    Replay { lo: usize, hi: usize },
}

/// n in [max(0, M-3), M+3]; for bodies that hold guards the window is widened down to 0, so that the
/// cut falls on every scheduling call at which a guard is alive on a suspended task's stack.
fn n_range(body: &Body, lo_m: u32, hi_m: u32) -> std::ops::RangeInclusive<usize> {
    let lo = if body.has_locks() { 0 } else { lo_m.saturating_sub(3) as usize };
    lo..=(hi_m as usize + 3)
}

/// The bounds tried for one scheduler configuration. With `max_time = 0` (where in practice no
/// iteration runs at all) the quick tier only takes the two bounds next to M instead of the window.
fn n_list(sh: &Shared, body: &Body, lo_m: u32, hi_m: u32, mt0: bool) -> Vec<usize> {
    if mt0 && !sh.thorough {
        let mut v = vec![hi_m as usize + 1];
        if lo_m >= 1 {
            v.insert(0, lo_m as usize - 1);
        }
        v
    } else {
        n_range(body, lo_m, hi_m).collect()
    }
}

fn out_of_time(sh: &Shared) -> bool {
    if Instant::now() > sh.deadline {
        sh.capped.store(true, Ordering::Relaxed);
        true
    } else {
        false
    }
}

fn cell(body: &Body, sched: SchedSpec, mode: Mode, mt0: bool) -> CellReq {
    CellReq {
        body: body.clone(),
        sched,
        mode,
        max_time_zero: mt0,
        sleep_us: if mt0 { SLEEP_US } else { 0 },
    }
}

fn arm_a(sh: &Shared, w: &mut Worker, info: &BodyInfo, lo: usize, hi: usize) {
    let total = info.execs.len();
    for si in lo..hi {
        let s0 = &info.execs[si];
        let s1 = &info.execs[(si + 1) % total];
        let variants: Vec<Vec<&ExecRec>> = if sh.thorough {
            vec![vec![s0], vec![s0, s1], vec![s1, s0, s1]]
        } else {
            vec![vec![s0], vec![s1, s0, s1]]
        };
        for var in variants {
            if out_of_time(sh) {
                sh.agg.lock().unwrap().skipped_for_time += 1;
                return;
            }
            let paths: Vec<Vec<_>> = var.iter().map(|e| e.steps.clone()).collect();
            let twins: Vec<ExecRec> = var.iter().map(|e| (*e).clone()).collect();
            let base = Base::Exact(&twins);
            let spec = SchedSpec::Fixed { paths };
            let mut batch = Vec::new();
            for mt0 in [false, true] {
                // unbounded: the replay must reproduce the measured executions
                batch.push(cell(&info.body, spec.clone(), Mode::None, mt0));
                for n in n_list(sh, &info.body, s0.m, s0.m, mt0) {
                    for mode in [Mode::Fail(n), Mode::Cont(n)] {
                        batch.push(cell(&info.body, spec.clone(), mode, mt0));
                    }
                }
            }
            do_cells(sh, w, info, &batch, &base);
        }
    }
    if lo == 0 {
        // budget 0
        let spec = SchedSpec::Fixed { paths: vec![] };
        let base = Base::Exact(&[]);
        let mut batch = Vec::new();
        for mt0 in [false, true] {
            for mode in [Mode::None, Mode::Fail(1), Mode::Cont(1), Mode::Fail(0), Mode::Cont(0)] {
                batch.push(cell(&info.body, spec.clone(), mode, mt0));
            }
        }
        do_cells(sh, w, info, &batch, &base);
    }
}

fn arm_b(sh: &Shared, w: &mut Worker, info: &BodyInfo, fam: &Fam, thorough: bool) {
    let body = &info.body;
    let budgets: Vec<usize> = (0..=5).collect();
    let mut specs: Vec<SchedSpec> = Vec::new();
    match fam {
        Fam::Random(seed) => specs.extend(budgets.iter().map(|k| SchedSpec::Random { seed: *seed, k: *k })),
        Fam::Pct(seed, depth) => specs.extend(budgets.iter().map(|k| SchedSpec::Pct {
            seed: *seed,
            depth: *depth,
            k: *k,
        })),
        Fam::Dfs => {
            specs.push(SchedSpec::Dfs {
                k: None,
                rand: body.has_rand(),
            });
            specs.extend(budgets.iter().map(|k| SchedSpec::Dfs {
                k: Some(*k),
                rand: body.has_rand(),
            }));
        }
        Fam::Urw(seed) => specs.extend(budgets.iter().map(|k| SchedSpec::Urw { seed: *seed, k: *k })),
        Fam::RoundRobin => specs.extend(budgets.iter().map(|k| SchedSpec::RoundRobin { k: *k })),
        Fam::Replay { lo, hi } => {
            for e in &info.execs[*lo..*hi] {
                specs.push(SchedSpec::Replay {
                    seed: 0,
                    steps: e.steps.clone(),
                });
            }
        }
    }
    let _ = thorough;
    for spec in specs {
        if out_of_time(sh) {
            sh.agg.lock().unwrap().skipped_for_time += 1;
            return;
        }
        if spec.os_seeded() {
            // schedules differ from run to run: only bodies where that cannot change the verdict
            let m = match info.invariant_m() {
                Some(m) if !body.has_locks() => m,
                _ => continue,
            };
            let base = Base::Invariant { m };
            let mut batch = Vec::new();
            for mt0 in [false, true] {
                batch.push(cell(body, spec.clone(), Mode::None, mt0));
                for n in n_list(sh, body, m, m, mt0) {
                    for mode in [Mode::Fail(n), Mode::Cont(n)] {
                        batch.push(cell(body, spec.clone(), mode, mt0));
                    }
                }
            }
            do_cells(sh, w, info, &batch, &base);
            continue;
        }
        // deterministic configuration: its own unbounded run is the baseline
        let breq = cell(body, spec.clone(), Mode::None, false);
        let bres = match w.call::<CellRes>(&Req::Cell(breq.clone())) {
            Ok(Ok(r)) => r,
            Ok(Err(d)) => {
                sh.agg.lock().unwrap().machinery(format!(
                    "worker {} on the unbounded baseline of body '{}' with {}",
                    d.how,
                    body.name,
                    spec.describe()
                ));
                continue;
            }
            Err(m) => {
                sh.agg.lock().unwrap().machinery(m);
                continue;
            }
        };
        sh.cell_counter.fetch_add(1, Ordering::Relaxed);
        if let Some(msg) = &bres.panic {
            if matches!(spec, SchedSpec::Pct { .. }) && msg.contains(crate::oracle::PCT_NO_CONCURRENCY) {
                *sh.agg.lock().unwrap().excluded.entry("pct: body without multi-choice step".into()).or_default() += 1;
                continue;
            }
        }
        let twins = bres.execs.clone();
        let base = Base::Exact(&twins);
        {
            // judge the unbounded run itself (count == budget, body invocations)
            let v = judge(&breq, &base, info, &bres);
            record(sh, info, &breq, &bres, v, true);
            if let (SchedSpec::Dfs { k: None, .. }, Some(c)) = (&spec, bres.count) {
                if info.complete && c != info.execs.len() {
                    sh.agg.lock().unwrap().finding(
                        "count/dfs-unbounded-vs-all-schedules",
                        format!(
                            "body '{}': DfsScheduler::new(None) ran {} executions, the explorer enumerates {} schedules",
                            body.name,
                            c,
                            info.execs.len()
                        ),
                        replay_doc(&breq, true),
                    );
                }
            }
        }
        if bres.panic.is_some() {
            continue;
        }
        let (lo_m, hi_m) = match twins.iter().map(|e| e.m).min() {
            Some(lo) => (lo, twins.iter().map(|e| e.m).max().unwrap()),
            None => (info.m_min, info.m_max),
        };
        let mut batch = Vec::new();
        for mt0 in [false, true] {
            if mt0 {
                batch.push(cell(body, spec.clone(), Mode::None, true));
            }
            for n in n_list(sh, body, lo_m, hi_m, mt0) {
                for mode in [Mode::Fail(n), Mode::Cont(n)] {
                    batch.push(cell(body, spec.clone(), mode, mt0));
                }
            }
        }
        do_cells(sh, w, info, &batch, &base);
    }
}

// ---------------------------------------------------------------------------------------------
// tier run
// ---------------------------------------------------------------------------------------------

pub fn run_tier(ctx: &CheckCtx, thorough: bool) -> CheckResult {
    let mut res = CheckResult::new("exploration");
    let nthreads = std::env::var("VX_C13_THREADS")
        .ok()
        .and_then(|s| s.parse::<usize>().ok())
        .unwrap_or_else(|| std::thread::available_parallelism().map(|n| n.get()).unwrap_or(4).min(16));
    let budget = if thorough {
        Duration::from_secs(20 * 60)
    } else {
        Duration::from_secs(36)
    };
    let sh = Shared {
        agg: Mutex::new(Agg::default()),
        deadline: ctx.start + budget,
        capped: AtomicBool::new(false),
        seed_base: ctx.seed.wrapping_mul(16).wrapping_add(0xC13),
        cell_counter: AtomicU64::new(0),
        thorough,
    };
    let max_schedules: u64 = if thorough { 40_000 } else { 600 };

    // phase 1: measure every body on every schedule, unbounded
    let all = bodies(thorough);
    let infos: Mutex<Vec<Option<BodyInfo>>> = Mutex::new((0..all.len()).map(|_| None).collect());
    {
        let q: Mutex<VecDeque<usize>> = Mutex::new((0..all.len()).collect());
        std::thread::scope(|s| {
            for t in 0..nthreads {
                let (q, sh, infos, all) = (&q, &sh, &infos, &all);
                s.spawn(move || {
                    let mut w = Worker::pinned(t);
                    loop {
                        let i = match q.lock().unwrap().pop_front() {
                            Some(i) => i,
                            None => break,
                        };
                        let r = w.call::<MeasureRes>(&Req::Measure {
                            body: all[i].clone(),
                            max_execs: max_schedules,
                        });
                        match r {
                            Ok(Ok(m)) => {
                                if let Some(e) = m.error {
                                    sh.agg.lock().unwrap().machinery(format!("measuring body '{}': {}", all[i].name, e));
                                } else {
                                    infos.lock().unwrap()[i] = Some(BodyInfo::new(all[i].clone(), m.execs, !m.capped));
                                }
                            }
                            Ok(Err(d)) => sh
                                .agg
                                .lock()
                                .unwrap()
                                .machinery(format!("worker {} while measuring body '{}'", d.how, all[i].name)),
                            Err(m) => sh.agg.lock().unwrap().machinery(m),
                        }
                    }
                    sh.agg.lock().unwrap().spawns += w.spawns;
                });
            }
        });
    }
    let infos: Vec<BodyInfo> = infos.into_inner().unwrap().into_iter().flatten().collect();
    let measure_s = ctx.start.elapsed().as_secs_f64();

    // phase 2: jobs
    let mut jobs: VecDeque<Job> = VecDeque::new();
    let nseeds = if thorough { 4 } else { 2 };
    let replay_cap = if thorough { 64 } else { 12 };
    let chunk = if thorough { 24 } else { 6 };
    for (b, info) in infos.iter().enumerate() {
        let total = info.execs.len();
        let mut lo = 0;
        while lo < total {
            let hi = (lo + chunk).min(total);
            jobs.push_back(Job::ArmA { b, lo, hi });
            lo = hi;
        }
        let multi = info.body.threads.len() > 1;
        for i in 0..nseeds {
            let seed = sh.seed_base.wrapping_add(i);
            jobs.push_back(Job::ArmB {
                b,
                fam: Fam::Random(Some(seed)),
            });
            if thorough || i == 0 {
                jobs.push_back(Job::ArmB {
                    b,
                    fam: Fam::Urw(Some(seed)),
                });
            }
            if multi && (thorough || i == 0) {
                for depth in if thorough { vec![1, 2, 3] } else { vec![2] } {
                    jobs.push_back(Job::ArmB {
                        b,
                        fam: Fam::Pct(Some(seed), depth),
                    });
                }
            }
        }
        jobs.push_back(Job::ArmB {
            b,
            fam: Fam::Random(None),
        });
        jobs.push_back(Job::ArmB { b, fam: Fam::Urw(None) });
        if multi {
            jobs.push_back(Job::ArmB {
                b,
                fam: Fam::Pct(None, 2),
            });
        }
        jobs.push_back(Job::ArmB { b, fam: Fam::Dfs });
        jobs.push_back(Job::ArmB {
            b,
            fam: Fam::RoundRobin,
        });
        let rn = total.min(replay_cap);
        let mut lo = 0;
        while lo < rn {
            let hi = (lo + 4).min(rn);
            jobs.push_back(Job::ArmB {
                b,
                fam: Fam::Replay { lo, hi },
            });
            lo = hi;
        }
    }
    let njobs = jobs.len();
    let q = Mutex::new(jobs);
    std::thread::scope(|s| {
        for t in 0..nthreads {
            let (q, sh, infos) = (&q, &sh, &infos);
            s.spawn(move || {
                let mut w = Worker::pinned(t);
                loop {
                    let job = match q.lock().unwrap().pop_front() {
                        Some(j) => j,
                        None => break,
                    };
                    if out_of_time(sh) {
                        sh.agg.lock().unwrap().skipped_for_time += 1;
                        continue;
                    }
                    match job {
                        Job::ArmA { b, lo, hi } => arm_a(sh, &mut w, &infos[b], lo, hi),
                        Job::ArmB { b, fam } => arm_b(sh, &mut w, &infos[b], &fam, thorough),
                    }
                }
                sh.agg.lock().unwrap().spawns += w.spawns;
            });
        }
    });

    // report
    let mut a = sh.agg.into_inner().unwrap();
    for info in &infos {
        a.per_body.insert(
            info.body.name.clone(),
            json!({"schedules": info.execs.len(), "complete": info.complete, "M_min": info.m_min, "M_max": info.m_max,
                   "L_total_steps_min": info.execs.iter().map(|e| e.steps.len()).min(),
                   "L_total_steps_max": info.execs.iter().map(|e| e.steps.len()).max()}),
        );
    }
    let capped = sh.capped.load(Ordering::Relaxed);
    let all_complete = infos.iter().all(|i| i.complete) && infos.len() == all.len();
    res.cov("evaluations", a.cells);
    res.cov("distinct_nontrivial", a.classes.len() as u64);
    res.cov(
        "rule",
        format!(
            "a case = one grid cell = one Runner::run of (body, scheduler configuration incl. iteration budget, MaxSteps mode, n, max_time) in a worker process; \
         every body is first run unbounded on EVERY schedule by the exhaustive explorer under a counting wrapper, which gives each schedule's step need M (max number of answered decisions + draws since the last reset); \
         grid: every explorer schedule replayed by an own fixed scheduler with budgets {}, plus budget 0, and every built-in scheduler (Random new/new_from_seed, PCT new/new_from_seed, DFS Some(k)/None, URW new/new_from_seed, RoundRobin with budgets 0..5; ReplayScheduler on explorer schedules) \
         x n in [max(0,M-3), M+3] (bodies holding guards: [0, M+3]) x {{None, FailAfter(n), ContinueAfter(n)}} x max_time in {{None, Some(0)}}{}; \
         distinct_nontrivial = distinct (body, relation of n to the body's M range, mode, scheduler kind, cut|fail|count|abort) classes in which, with max_time None, an execution was actually cut / the run actually failed on the bound / the returned count was judged on >= 1 execution / the process aborted",
            if thorough { "1,2,3" } else { "1,3" },
            if thorough { "" } else { " (quick: with max_time Some(0) only n = M-1 and M+1)" }
        ),
    );
    res.cov("exhaustive", all_complete && !capped);
    res.cov("bodies", infos.len() as u64);
    res.cov("schedules_enumerated", infos.iter().map(|i| i.execs.len() as u64).sum::<u64>());
    res.cov("executions_in_grid", a.executions);
    res.cov("cells_by_scheduler", json!(a.cells_by_kind));
    res.cov("cells_by_mode", json!(a.cells_by_mode));
    res.cov("executions_judged_by_relation_of_n_to_M", json!(a.rel));
    res.cov("cells_with_execution_cut_by_ContinueAfter", a.cut_cells);
    res.cov("cells_failed_by_FailAfter_as_required", a.fail_cells);
    res.cov("cells_with_count_judged", a.count_judged);
    res.cov("max_time_zero_cells_returning_0", a.mt0_count0);
    res.cov("max_time_zero_cells_returning_1", a.mt0_count1);
    res.cov("worker_aborts", a.aborts);
    res.cov("worker_aborts_confirmed_alone", a.aborts_confirmed);
    res.cov("worker_processes_spawned", a.spawns);
    res.cov("excluded_cells", json!(a.excluded));
    res.cov("jobs", njobs as u64);
    res.cov("units_skipped_by_wall_cap", a.skipped_for_time);
    res.cov("wall_cap_hit", capped);
    res.cov("measure_phase_s", measure_s);
    res.cov("per_body", json!(a.per_body));
    res.cov("findings_by_key", json!(a.findings.iter().map(|(k, v)| (k.clone(), v.0)).collect::<BTreeMap<_, _>>()));
    res.cov("build", "release profile with debug-assertions and overflow-checks ON (the `plain` profile was not exercised)");
    for s in a.samples.drain(..) {
        res.sample(s);
    }
    res.assumptions.push("a step = one answered Scheduler::next_task or one Scheduler::next_u64, counted by a wrapper around the scheduler, independently of CurrentSchedule::len()".into());
    res.assumptions.push("L == n (the unbounded twin needs exactly n steps since its last reset) is left open by the statement: both 'unaffected' and 'treated as exceeding' are accepted".into());
    res.assumptions.push("n == 0: the execution is abandoned before its first step, so the body closure is never entered; 'invocations' are then the executions started (new_execution returned Some)".into());
    res.assumptions.push("max_time = Some(0): `elapsed > 0` is certain only after the body's 1 ms real sleep, so returned counts 0 and 1 are both accepted, 2 or more is a violation".into());
    res.assumptions.push("schedulers seeded from OS entropy (RandomScheduler::new, PctScheduler::new, UrwRandomScheduler::new) are judged only on bodies whose every schedule needs the same number of steps and that hold no guards, so the verdict cannot depend on the seed".into());
    res.assumptions.push("PCT's documented panic 'did not exercise any concurrency' (single-task bodies, or a first execution cut before its first multi-choice decision) is excluded".into());
    res.assumptions.push("after a ContinueAfter cut the later executions of history-dependent schedulers (DFS, PCT, URW) are judged only by R1, absence of failure and the count".into());
    for (key, (total, list)) in a.findings {
        for (i, (what, replay)) in list.into_iter().enumerate() {
            let what = if i == 0 {
                format!("{} [{} cell(s) with this key in this run]", what, total)
            } else {
                what
            };
            res.finding(key.clone(), what, replay);
        }
    }
    res.machinery_errors = a.machinery;
    if infos.len() != all.len() && res.machinery_errors.is_empty() {
        res.machinery_errors.push("a body could not be measured".into());
    }
    res
}

// ---------------------------------------------------------------------------------------------
// replay
// ---------------------------------------------------------------------------------------------

pub fn replay(path: &str) -> i32 {
    let doc: Value = match std::fs::read_to_string(path).ok().and_then(|s| serde_json::from_str(&s).ok()) {
        Some(v) => v,
        None => {
            eprintln!("MACHINERY-ERROR: cannot read replay file {}", path);
            return 2;
        }
    };
    let req: CellReq = match serde_json::from_value(doc["replay"]["cell"].clone()) {
        Ok(r) => r,
        Err(e) => {
            eprintln!("MACHINERY-ERROR: replay file has no cell: {}", e);
            return 2;
        }
    };
    println!("body      : '{}' threads={:?}", req.body.name, req.body.threads);
    println!("scheduler : {}", req.sched.describe());
    println!("max_steps : {:?}   max_time: {}", req.mode, if req.max_time_zero { "Some(0)" } else { "None" });
    let mut w = Worker::new(true);
    // unbounded twin first (same scheduler configuration), when it is deterministic
    let mut base_execs: Option<Vec<ExecRec>> = None;
    if !req.sched.os_seeded() {
        let mut b = req.clone();
        b.mode = Mode::None;
        b.max_time_zero = false;
        b.sleep_us = 0;
        match w.call::<CellRes>(&Req::Cell(b)) {
            Ok(Ok(r)) => {
                println!(
                    "unbounded : returned {:?}, panic {:?}, steps needed since last reset per execution (M) = {:?}, total steps = {:?}",
                    r.count,
                    r.panic,
                    r.execs.iter().map(|e| e.m).collect::<Vec<_>>(),
                    r.execs.iter().map(|e| e.steps.len()).collect::<Vec<_>>()
                );
                base_execs = Some(r.execs);
            }
            Ok(Err(d)) => println!("unbounded : worker {}", d.how),
            Err(m) => {
                eprintln!("MACHINERY-ERROR: {}", m);
                return 2;
            }
        }
    }
    match w.call::<CellRes>(&Req::Cell(req.clone())) {
        Ok(Ok(r)) => {
            println!("observed  : returned {:?}, panic {:?}, body entered {} times", r.count, r.panic, r.entries);
            for (i, e) in r.execs.iter().enumerate() {
                println!(
                    "  execution {}: {} steps [{}], max since last reset = {}, resets at {:?}, reached end of body: {}",
                    i,
                    e.steps.len(),
                    fmt_steps(&e.steps),
                    e.m,
                    e.resets,
                    e.ended
                );
            }
            // verdict of the oracle
            let minfo = match w.call::<MeasureRes>(&Req::Measure {
                body: req.body.clone(),
                max_execs: 40_000,
            }) {
                Ok(Ok(m)) if m.error.is_none() => Some(BodyInfo::new(req.body.clone(), m.execs, !m.capped)),
                _ => None,
            };
            if let Some(info) = minfo {
                let twins = base_execs.unwrap_or_default();
                let base = if req.sched.os_seeded() {
                    Base::Invariant { m: info.m_max }
                } else {
                    Base::Exact(&twins)
                };
                let v = judge(&req, &base, &info, &r);
                if v.findings.is_empty() {
                    println!("oracle    : no violation in this case");
                }
                for (k, wht) in v.findings {
                    println!("oracle    : VIOLATION {} — {}", k, wht);
                }
                for m in v.machinery {
                    println!("oracle    : machinery: {}", m);
                }
            }
        }
        Ok(Err(d)) => {
            println!("observed  : the process running this case {} ", d.how);
            let tail: Vec<&str> = d.stderr.lines().rev().take(12).collect();
            for l in tail.into_iter().rev() {
                println!("  stderr| {}", l);
            }
            if let (Mode::Cont(n), Some(b)) = (req.mode, &base_execs) {
                for (i, e) in b.iter().enumerate() {
                    if let Some((j, held)) = predicted_cut(e, n) {
                        println!(
                            "  execution {} has to be cut at scheduling call #{}; guards (thread,mutex) alive on task stacks then: {:?}",
                            i, j, held
                        );
                    }
                }
            }
        }
        Err(m) => {
            eprintln!("MACHINERY-ERROR: {}", m);
            return 2;
        }
    }
    0
}
