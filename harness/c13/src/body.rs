//! Bodies with exactly known step counts, as data, plus the interpreter that runs them against the
//! real Shuttle primitives and the per-execution probe (observation log + independent step counter).
//!
//! The probe lives in a thread-local of the worker process: Shuttle runs every task of an execution
//! as a coroutine on the calling OS thread, so the scheduler wrapper (`sched::Counting`) and all
//! tasks of the body see the same probe.  Logging has no scheduling point.

use serde::{Deserialize, Serialize};
use std::cell::RefCell;
use std::sync::Arc;

#[derive(Clone, Debug, Serialize, Deserialize, PartialEq, Eq, Hash)]
pub enum Op {
    /// `shuttle::thread::yield_now()`
    Yield,
    /// `fetch_add(1, SeqCst)` on atomic #i
    Add(u8),
    /// `load(SeqCst)` on atomic #i
    Load(u8),
    /// `lock()` mutex #i and keep the guard on this task's stack
    Lock(u8),
    /// drop the guard of mutex #i
    Unlock(u8),
    /// one `shuttle::rand::thread_rng().gen::<u64>()` (exactly one `next_u64`)
    Rand,
    /// `shuttle::current::reset_step_count()`
    Reset,
}

/// Thread 0 is the body's main task: it spawns threads 1.. (in order), runs its own ops, joins all.
#[derive(Clone, Debug, Serialize, Deserialize, PartialEq, Eq, Hash)]
pub struct Body {
    pub name: String,
    pub threads: Vec<Vec<Op>>,
}

impl Body {
    pub fn has_locks(&self) -> bool {
        self.threads.iter().flatten().any(|o| matches!(o, Op::Lock(_)))
    }
    pub fn has_rand(&self) -> bool {
        self.threads.iter().flatten().any(|o| matches!(o, Op::Rand))
    }
}

#[derive(Clone, Debug, Serialize, Deserialize, PartialEq, Eq, Hash)]
pub enum Step {
    /// scheduling decision answered with this task id
    T(usize),
    /// random draw answered with this value
    R(u64),
}

/// event codes
pub const EV_OP: u8 = 0; // operation i of thread t returned value v
pub const EV_LOCKED: u8 = 1; // guard of mutex v acquired
pub const EV_UNLOCKING: u8 = 2; // about to drop the guard of mutex v
pub const EV_BEGIN: u8 = 3; // body closure entered
pub const EV_END: u8 = 4; // body closure about to return (all joined)
pub const EV_RESET: u8 = 5; // reset_step_count() returned

#[derive(Clone, Debug, Serialize, Deserialize, PartialEq, Eq, Hash)]
pub struct Ev {
    /// thread index in the body
    pub t: u8,
    /// op index within the thread (0 for BEGIN/END)
    pub i: u8,
    pub code: u8,
    pub v: u64,
    /// number of steps (answered decisions + draws) of this execution when the event was logged
    pub at: u32,
}

/// What was observed of one execution.
#[derive(Clone, Debug, Default, Serialize, Deserialize, PartialEq, Eq)]
pub struct ExecRec {
    pub seed: u64,
    pub steps: Vec<Step>,
    /// values of `steps.len()` at which `reset_step_count` was called
    pub resets: Vec<u32>,
    /// max over time of (steps since the last reset)
    pub m: u32,
    pub evs: Vec<Ev>,
    pub entered: bool,
    pub ended: bool,
}

impl ExecRec {
    pub fn reset_at(&self) -> u32 {
        self.resets.last().copied().unwrap_or(0)
    }
}

#[derive(Default)]
pub struct Probe {
    pub execs: Vec<ExecRec>,
    pub entries: usize,
    pub mismatch: Option<String>,
}

thread_local! {
    pub static PROBE: RefCell<Probe> = RefCell::new(Probe::default());
}

pub fn probe_clear() {
    PROBE.with(|p| *p.borrow_mut() = Probe::default());
}

pub fn probe_take() -> Probe {
    PROBE.with(|p| std::mem::take(&mut *p.borrow_mut()))
}

pub fn probe_start_exec(seed: u64) {
    PROBE.with(|p| {
        p.borrow_mut().execs.push(ExecRec {
            seed,
            ..Default::default()
        })
    });
}

pub fn probe_step(s: Step) {
    PROBE.with(|p| {
        let mut p = p.borrow_mut();
        if let Some(e) = p.execs.last_mut() {
            e.steps.push(s);
            let since = e.steps.len() as u32 - e.reset_at();
            if since > e.m {
                e.m = since;
            }
        }
    });
}

pub fn probe_mismatch(m: String) {
    PROBE.with(|p| {
        let mut p = p.borrow_mut();
        if p.mismatch.is_none() {
            p.mismatch = Some(m);
        }
    });
}

fn ev(t: usize, i: usize, code: u8, v: u64) {
    PROBE.with(|p| {
        let mut p = p.borrow_mut();
        if code == EV_BEGIN {
            p.entries += 1;
        }
        if let Some(e) = p.execs.last_mut() {
            let at = e.steps.len() as u32;
            match code {
                EV_BEGIN => e.entered = true,
                EV_END => e.ended = true,
                EV_RESET => e.resets.push(at),
                _ => {}
            }
            e.evs.push(Ev {
                t: t as u8,
                i: i as u8,
                code,
                v,
                at,
            });
        }
    });
}

type Mx = shuttle::sync::Mutex<u64>;
type At = shuttle::sync::atomic::AtomicU64;

fn run_thread(spec: &Body, t: usize, atoms: &[Arc<At>], mutexes: &[Arc<Mx>]) {
    use shuttle::rand::Rng;
    use std::sync::atomic::Ordering::SeqCst;
    let mut guards: Vec<Option<shuttle::sync::MutexGuard<'_, u64>>> = (0..mutexes.len()).map(|_| None).collect();
    for (i, op) in spec.threads[t].iter().enumerate() {
        match op {
            Op::Yield => {
                shuttle::thread::yield_now();
                ev(t, i, EV_OP, 0);
            }
            Op::Add(a) => {
                let v = atoms[*a as usize].fetch_add(1, SeqCst);
                ev(t, i, EV_OP, v);
            }
            Op::Load(a) => {
                let v = atoms[*a as usize].load(SeqCst);
                ev(t, i, EV_OP, v);
            }
            Op::Lock(m) => {
                let mut g = mutexes[*m as usize].lock().unwrap();
                *g += 1;
                ev(t, i, EV_LOCKED, *m as u64);
                guards[*m as usize] = Some(g);
            }
            Op::Unlock(m) => {
                ev(t, i, EV_UNLOCKING, *m as u64);
                guards[*m as usize] = None;
                ev(t, i, EV_OP, 0);
            }
            Op::Rand => {
                let v: u64 = shuttle::rand::thread_rng().gen();
                ev(t, i, EV_OP, v);
            }
            Op::Reset => {
                shuttle::current::reset_step_count();
                ev(t, i, EV_RESET, 0);
            }
        }
    }
}

pub fn make_body(spec: Arc<Body>, sleep_us: u64) -> impl Fn() + Send + Sync + 'static {
    move || {
        ev(0, 0, EV_BEGIN, 0);
        if sleep_us > 0 {
            // real time, not modelled: makes `elapsed > max_time` certain after one invocation
            std::thread::sleep(std::time::Duration::from_micros(sleep_us));
        }
        let n_atoms = 1 + spec
            .threads
            .iter()
            .flatten()
            .filter_map(|o| match o {
                Op::Add(a) | Op::Load(a) => Some(*a as usize),
                _ => None,
            })
            .max()
            .unwrap_or(0);
        let n_mx = 1 + spec
            .threads
            .iter()
            .flatten()
            .filter_map(|o| match o {
                Op::Lock(a) | Op::Unlock(a) => Some(*a as usize),
                _ => None,
            })
            .max()
            .unwrap_or(0);
        let atoms: Vec<Arc<At>> = (0..n_atoms).map(|_| Arc::new(At::new(0))).collect();
        let mutexes: Vec<Arc<Mx>> = (0..n_mx).map(|_| Arc::new(Mx::new(0))).collect();
        let mut hs = Vec::new();
        for t in 1..spec.threads.len() {
            let (s, a, m) = (spec.clone(), atoms.clone(), mutexes.clone());
            hs.push(shuttle::thread::spawn(move || run_thread(&s, t, &a, &m)));
        }
        run_thread(&spec, 0, &atoms, &mutexes);
        for h in hs {
            h.join().unwrap();
        }
        ev(0, 0, EV_END, 0);
    }
}

// ---------------------------------------------------------------------------------------------
// The body families
// ---------------------------------------------------------------------------------------------

fn b(name: &str, threads: Vec<Vec<Op>>) -> Body {
    Body {
        name: name.to_string(),
        threads,
    }
}

/// All bodies of a tier. `max_schedules` is the largest choice tree the tier accepts for one body.
pub fn bodies(thorough: bool) -> Vec<Body> {
    use Op::*;
    let mut v = Vec::new();
    // single-thread loops of k yields / atomic ops
    let ks: &[usize] = if thorough { &[0, 1, 2, 3, 5, 8, 13] } else { &[0, 1, 2, 4] };
    for &k in ks {
        v.push(b(&format!("yield*{}", k), vec![vec![Yield; k]]));
    }
    let ka: &[usize] = if thorough { &[1, 2, 3, 6, 10] } else { &[1, 3] };
    for &k in ka {
        v.push(b(&format!("add*{}", k), vec![vec![Add(0); k]]));
    }
    // random draws interleaved with scheduling points (single thread)
    v.push(b("rand", vec![vec![Rand]]));
    v.push(b("yield;rand;yield", vec![vec![Yield, Rand, Yield]]));
    v.push(b("rand;rand;yield;rand", vec![vec![Rand, Rand, Yield, Rand]]));
    v.push(b("add;rand;add;rand;add", vec![vec![Add(0), Rand, Add(0), Rand, Add(0)]]));
    if thorough {
        v.push(b("rand*4", vec![vec![Rand; 4]]));
        v.push(b(
            "yield;rand;rand;rand;yield;yield",
            vec![vec![Yield, Rand, Rand, Rand, Yield, Yield]],
        ));
    }
    // reset_step_count at a chosen point (before / in the middle / after the steps)
    v.push(b("reset;yield*3", vec![vec![Reset, Yield, Yield, Yield]]));
    v.push(b("yield*2;reset;yield*3", vec![vec![Yield, Yield, Reset, Yield, Yield, Yield]]));
    v.push(b("yield*3;reset;yield", vec![vec![Yield, Yield, Yield, Reset, Yield]]));
    v.push(b("yield*3;reset", vec![vec![Yield, Yield, Yield, Reset]]));
    v.push(b(
        "yield*2;reset;yield*2;reset;yield",
        vec![vec![Yield, Yield, Reset, Yield, Yield, Reset, Yield]],
    ));
    v.push(b("yield;rand;reset;rand;yield", vec![vec![Yield, Rand, Reset, Rand, Yield]]));
    // two threads, atomics
    v.push(b("2t:add|add", vec![vec![Add(0)], vec![Add(0)]]));
    v.push(b("2t:add,add|add", vec![vec![Add(0), Add(0)], vec![Add(0)]]));
    v.push(b("2t:add,load|yield,add", vec![vec![Add(0), Load(0)], vec![Yield, Add(0)]]));
    v.push(b("2t:rand,add|add,rand", vec![vec![Rand, Add(0)], vec![Add(0), Rand]]));
    v.push(b("2t:add,reset,add|add,add", vec![vec![Add(0), Reset, Add(0)], vec![Add(0), Add(0)]]));
    v.push(b("2t:add|yield,reset,add", vec![vec![Add(0)], vec![Yield, Reset, Add(0)]]));
    // two threads, mutex: cut while a task is suspended holding a guard
    v.push(b("2t:lock0,unlock0|lock0,unlock0", vec![
        vec![Lock(0), Unlock(0)],
        vec![Lock(0), Unlock(0)],
    ]));
    v.push(b("2t:lock0,lock1,unlock1,unlock0|add", vec![
        vec![Lock(0), Lock(1), Unlock(1), Unlock(0)],
        vec![Add(0)],
    ]));
    v.push(b("2t:lock0,yield,unlock0|add", vec![vec![Lock(0), Yield, Unlock(0)], vec![Add(0)]]));
    v.push(b("2t:lock0,add,unlock0|lock0,unlock0", vec![
        vec![Lock(0), Add(0), Unlock(0)],
        vec![Lock(0), Unlock(0)],
    ]));
    // single thread holding a guard over a scheduling point
    v.push(b("lock0,yield,unlock0", vec![vec![Lock(0), Yield, Unlock(0)]]));
    // three threads
    v.push(b("3t:add|add|add", vec![vec![Add(0)], vec![Add(0)], vec![Add(0)]]));
    v.push(b("3t:-|lock0,unlock0|lock0,unlock0", vec![
        vec![],
        vec![Lock(0), Unlock(0)],
        vec![Lock(0), Unlock(0)],
    ]));
    if thorough {
        v.push(b("2t:add*3|add*3", vec![vec![Add(0); 3], vec![Add(0); 3]]));
        v.push(b("2t:lock0,lock1,yield,unlock1,unlock0|lock1,add,unlock1", vec![
            vec![Lock(0), Lock(1), Yield, Unlock(1), Unlock(0)],
            vec![Lock(1), Add(0), Unlock(1)],
        ]));
        v.push(b("3t:add,add|add,add|add", vec![
            vec![Add(0), Add(0)],
            vec![Add(0), Add(0)],
            vec![Add(0)],
        ]));
        v.push(b("3t:add|lock0,add,unlock0|lock0,unlock0", vec![
            vec![Add(0)],
            vec![Lock(0), Add(0), Unlock(0)],
            vec![Lock(0), Unlock(0)],
        ]));
        v.push(b("3t:rand|add,reset|yield,add", vec![
            vec![Rand],
            vec![Add(0), Reset],
            vec![Yield, Add(0)],
        ]));
        v.push(b("3t:lock0,lock1,unlock1,unlock0|lock1,unlock1|lock0,unlock0", vec![
            vec![Lock(0), Lock(1), Unlock(1), Unlock(0)],
            vec![Lock(1), Unlock(1)],
            vec![Lock(0), Unlock(0)],
        ]));
    }
    v
}
