//! C13 — step, iteration and time bounds are enforced as configured.
//!
//! `vx-c13 check C13 quick|thorough|--replay <file>`; hidden sub-command `worker` is the child
//! process that runs the cells (the code under test can abort the process).

mod body;
mod driver;
mod oracle;
mod sched;
mod stackcache;
mod worker;

use vx::common::{finish, CheckCtx, Tier};

fn usage() -> ! {
    eprintln!("usage: vx-c13 check C13 quick|thorough|--replay <file>");
    std::process::exit(2)
}

fn main() {
    let args: Vec<String> = std::env::args().collect();
    if args.len() >= 2 && args[1] == "worker" {
        worker::worker_main();
    }
    if args.len() < 3 || args[1] != "check" {
        usage();
    }
    let id = args[2].as_str();
    if id != "C13" {
        eprintln!("MACHINERY-ERROR: vx-c13 only implements C13, not {}", id);
        std::process::exit(2);
    }
    let tier_arg = args
        .get(3)
        .cloned()
        .or_else(|| std::env::var("VERIF_TIER").ok())
        .unwrap_or_else(|| "quick".to_string());
    if tier_arg == "--replay" {
        let path = match args.get(4) {
            Some(p) => p,
            None => usage(),
        };
        std::process::exit(driver::replay(path));
    }
    let tier = match tier_arg.as_str() {
        "quick" => Tier::Quick,
        "thorough" => Tier::Thorough,
        _ => usage(),
    };
    let ctx = CheckCtx::new(id, tier);
    let res = driver::run_tier(&ctx, tier.is_thorough());
    finish(&ctx, res)
}
