//! Worker child process: executes measurement requests and grid cells, one JSON line in, one out.
//! It may be killed by the code under test (F11 aborts the process); the parent attributes the
//! death to the request in flight.

use crate::body::{make_body, probe_clear, probe_take, Body, ExecRec};
use crate::sched::{build, Counting, SchedSpec};
use serde::{Deserialize, Serialize};
use shuttle_engine::{Config, FailurePersistence, MaxSteps, Runner};
use std::io::{BufRead, Write};
use std::panic::{catch_unwind, AssertUnwindSafe};
use std::sync::Arc;

#[derive(Clone, Copy, Debug, Serialize, Deserialize, PartialEq, Eq, Hash)]
pub enum Mode {
    None,
    Fail(usize),
    Cont(usize),
}

impl Mode {
    pub fn n(&self) -> Option<usize> {
        match self {
            Mode::None => None,
            Mode::Fail(n) | Mode::Cont(n) => Some(*n),
        }
    }
    pub fn name(&self) -> &'static str {
        match self {
            Mode::None => "None",
            Mode::Fail(_) => "FailAfter",
            Mode::Cont(_) => "ContinueAfter",
        }
    }
}

#[derive(Clone, Debug, Serialize, Deserialize)]
pub struct CellReq {
    pub body: Body,
    pub sched: SchedSpec,
    pub mode: Mode,
    /// `max_time = Some(Duration::ZERO)` instead of `None`
    pub max_time_zero: bool,
    /// real sleep at the start of every body invocation
    pub sleep_us: u64,
}

#[derive(Clone, Debug, Default, Serialize, Deserialize)]
pub struct CellRes {
    pub panic: Option<String>,
    pub count: Option<usize>,
    pub execs: Vec<ExecRec>,
    pub entries: usize,
    /// bytes written to stderr (fd 2) during the cell; None when stderr is not captured
    pub stderr_delta: Option<u64>,
    pub mismatch: Option<String>,
}

#[derive(Clone, Debug, Default, Serialize, Deserialize)]
pub struct MeasureRes {
    pub execs: Vec<ExecRec>,
    pub capped: bool,
    pub error: Option<String>,
}

#[derive(Clone, Debug, Serialize, Deserialize)]
pub enum Req {
    Measure { body: Body, max_execs: u64 },
    Cell(CellReq),
    /// several cells; one reply line per cell, flushed as soon as the cell is done
    Batch(Vec<CellReq>),
}

pub fn panic_message(e: Box<dyn std::any::Any + Send>) -> String {
    if let Some(s) = e.downcast_ref::<&str>() {
        s.to_string()
    } else if let Some(s) = e.downcast_ref::<String>() {
        s.clone()
    } else {
        "<non-string panic payload>".to_string()
    }
}

fn config(mode: Mode, max_time_zero: bool) -> Config {
    let mut c = Config::new();
    c.failure_persistence = FailurePersistence::Print;
    c.silence_warnings = true;
    c.max_steps = match mode {
        Mode::None => MaxSteps::None,
        Mode::Fail(n) => MaxSteps::FailAfter(n),
        Mode::Cont(n) => MaxSteps::ContinueAfter(n),
    };
    c.max_time = if max_time_zero {
        Some(std::time::Duration::ZERO)
    } else {
        None
    };
    c
}

fn stderr_size() -> Option<u64> {
    unsafe {
        let mut st: libc::stat = std::mem::zeroed();
        if libc::fstat(2, &mut st) == 0 && (st.st_mode & libc::S_IFMT) == libc::S_IFREG {
            Some(st.st_size as u64)
        } else {
            None
        }
    }
}

pub fn run_cell(req: &CellReq) -> CellRes {
    probe_clear();
    let before = stderr_size();
    let body = make_body(Arc::new(req.body.clone()), req.sleep_us);
    let sched = Counting {
        inner: build(&req.sched),
    };
    let cfg = config(req.mode, req.max_time_zero);
    let r = catch_unwind(AssertUnwindSafe(move || Runner::new(sched, cfg).run(body)));
    let after = stderr_size();
    let p = probe_take();
    let (count, panic) = match r {
        Ok(c) => (Some(c), None),
        Err(e) => (None, Some(panic_message(e))),
    };
    CellRes {
        panic,
        count,
        execs: p.execs,
        entries: p.entries,
        stderr_delta: match (before, after) {
            (Some(b), Some(a)) => Some(a.saturating_sub(b)),
            _ => None,
        },
        mismatch: p.mismatch,
    }
}

/// Every schedule of the body, unbounded, with the exhaustive explorer as the scheduler under the
/// counting wrapper.
pub fn measure(body: &Body, max_execs: u64) -> MeasureRes {
    use vx::explore::{Explorer, Options};
    let ex = Explorer::new(Options {
        rand_menu: vec![0],
        ..Options::default()
    });
    ex.set_executions_per_run(64);
    let spec = Arc::new(body.clone());
    let mut out = MeasureRes::default();
    loop {
        probe_clear();
        let b = make_body(spec.clone(), 0);
        let sched = Counting {
            inner: Box::new(ex.handle()),
        };
        let cfg = config(Mode::None, false);
        let r = catch_unwind(AssertUnwindSafe(move || Runner::new(sched, cfg).run(b)));
        ex.advance();
        let p = probe_take();
        let fin = ex.drain_finished();
        if let Err(e) = r {
            out.error = Some(format!("body fails when run unbounded: {}", panic_message(e)));
            return out;
        }
        if let Some(d) = ex.diverged() {
            out.error = Some(d);
            return out;
        }
        if fin.len() != p.execs.len() {
            out.error = Some(format!(
                "explorer finished {} executions, probe saw {}",
                fin.len(),
                p.execs.len()
            ));
            return out;
        }
        for e in p.execs {
            if !e.ended {
                out.error = Some("unbounded execution did not reach the end of the body".into());
                return out;
            }
            out.execs.push(e);
        }
        if ex.exhausted() {
            break;
        }
        if ex.stats().executions >= max_execs {
            out.capped = true;
            break;
        }
    }
    if ex.stats().depth_cap_hits > 0 {
        out.error = Some("explorer depth cap hit".into());
    }
    out
}

pub fn worker_main() -> ! {
    // no core files from expected aborts
    unsafe {
        let rl = libc::rlimit {
            rlim_cur: 0,
            rlim_max: 0,
        };
        libc::setrlimit(libc::RLIMIT_CORE, &rl);
    }
    if let Some(cpu) = std::env::var("VX_C13_CPU").ok().and_then(|s| s.parse::<usize>().ok()) {
        unsafe {
            let ncpu = libc::sysconf(libc::_SC_NPROCESSORS_ONLN).max(1) as usize;
            let mut set: libc::cpu_set_t = std::mem::zeroed();
            libc::CPU_SET(cpu % ncpu, &mut set);
            libc::sched_setaffinity(0, std::mem::size_of::<libc::cpu_set_t>(), &set);
        }
    }
    if std::env::var("VX_C13_KEEP_STDERR").is_err() {
        // stderr goes to an unlinked temp file, whose growth is the "silently" observation
        use std::os::fd::AsRawFd;
        match tempfile::tempfile() {
            Ok(f) => unsafe {
                libc::dup2(f.as_raw_fd(), 2);
            },
            Err(_) => {
                let _ = vx::common::mute_stderr();
            }
        }
    }
    if std::env::var("VX_C13_NO_STACK_CACHE").is_err() {
        crate::stackcache::enable();
    }
    vx::common::silence_panics();
    if std::env::var("VX_C13_KEEP_STDERR").is_ok() {
        // replay mode: show what panics, in one line each
        std::panic::set_hook(Box::new(|info| eprintln!("panic: {}", info)));
    }
    // Supervisor mode (default): this process never runs a request itself. It forks a child that
    // serves requests until stdin closes; if the child is killed, the supervisor reports
    // `{"died": ...}` on stdout and forks the next child from its own pristine state. An abort then
    // costs a fork, not an exec (starting this binary costs > 100 ms on a loaded machine).
    // The parent has at most one request outstanding, so a dying child never swallows a later one.
    let supervise = std::env::var("VX_C13_NOFORK").is_err() && std::env::var("VX_C13_KEEP_STDERR").is_err();
    if !supervise {
        serve_until_eof();
        std::process::exit(0);
    }
    loop {
        let pid = unsafe { libc::fork() };
        if pid < 0 {
            // cannot supervise: serve in-process (a death is then seen by the parent as EOF)
            serve_until_eof();
            std::process::exit(0);
        }
        if pid == 0 {
            serve_until_eof();
            unsafe { libc::_exit(0) };
        }
        let mut status: libc::c_int = 0;
        unsafe {
            while libc::waitpid(pid, &mut status, 0) < 0 {
                if *libc::__errno_location() != libc::EINTR {
                    break;
                }
            }
        }
        let how = if libc::WIFSIGNALED(status) {
            format!("killed by signal {}", libc::WTERMSIG(status))
        } else if libc::WIFEXITED(status) && libc::WEXITSTATUS(status) != 0 {
            format!("exited with code {}", libc::WEXITSTATUS(status))
        } else {
            std::process::exit(0)
        };
        let stdout = std::io::stdout();
        let mut o = stdout.lock();
        let _ = writeln!(o, "{}", serde_json::json!({ "died": how }));
        let _ = o.flush();
    }
}

fn serve_until_eof() {
    let stdin = std::io::stdin();
    let stdout = std::io::stdout();
    let mut line = String::new();
    loop {
        line.clear();
        match stdin.lock().read_line(&mut line) {
            Ok(0) | Err(_) => return,
            Ok(_) => {}
        }
        match serde_json::from_str::<Req>(&line) {
            Ok(req) => serve(&req),
            Err(e) => {
                let mut o = stdout.lock();
                let _ = writeln!(o, "{}", serde_json::json!({"bad_request": e.to_string()}));
                let _ = o.flush();
            }
        }
    }
}

fn serve(req: &Req) {
    let stdout = std::io::stdout();
    let emit = |s: String| {
        let mut o = stdout.lock();
        let _ = writeln!(o, "{}", s);
        let _ = o.flush();
    };
    match req {
        Req::Measure { body, max_execs } => emit(serde_json::to_string(&measure(body, *max_execs)).unwrap()),
        Req::Cell(c) => emit(serde_json::to_string(&run_cell(c)).unwrap()),
        Req::Batch(cs) => {
            for c in cs {
                emit(serde_json::to_string(&run_cell(c)).unwrap());
            }
        }
    }
}
