//! Scheduler side: the counting wrapper (independent step counter), the fixed multi-execution
//! scheduler used to replay explorer schedules, and the construction of every built-in scheduler
//! from a serialisable spec.

use crate::body::{probe_mismatch, probe_start_exec, probe_step, Step};
use serde::{Deserialize, Serialize};
use shuttle_engine::scheduler::{Schedule, ScheduleStep, Scheduler, Task, TaskId};

#[derive(Clone, Debug, Serialize, Deserialize, PartialEq, Eq, Hash)]
pub enum SchedSpec {
    /// own scheduler: one execution per path, following it exactly; budget = paths.len()
    Fixed { paths: Vec<Vec<Step>> },
    /// `RandomScheduler::new(k)` (seed None, OS entropy) or `new_from_seed(seed, k)`
    Random { seed: Option<u64>, k: usize },
    /// `PctScheduler::new(depth, k)` / `new_from_seed`
    Pct { seed: Option<u64>, depth: usize, k: usize },
    /// `DfsScheduler::new(k, allow_random_data)`
    Dfs { k: Option<usize>, rand: bool },
    /// `UrwRandomScheduler::new(k)` / `new_from_seed`
    Urw { seed: Option<u64>, k: usize },
    /// `RoundRobinScheduler::new(k)`
    RoundRobin { k: usize },
    /// `ReplayScheduler::new_from_schedule`
    Replay { seed: u64, steps: Vec<Step> },
}

impl SchedSpec {
    /// class name for coverage accounting
    pub fn kind(&self) -> &'static str {
        match self {
            SchedSpec::Fixed { .. } => "fixed(explorer-schedule)",
            SchedSpec::Random { seed: None, .. } => "random::new",
            SchedSpec::Random { seed: Some(_), .. } => "random::new_from_seed",
            SchedSpec::Pct { seed: None, .. } => "pct::new",
            SchedSpec::Pct { seed: Some(_), .. } => "pct::new_from_seed",
            SchedSpec::Dfs { k: None, .. } => "dfs(None)",
            SchedSpec::Dfs { k: Some(_), .. } => "dfs(Some)",
            SchedSpec::Urw { seed: None, .. } => "urw::new",
            SchedSpec::Urw { seed: Some(_), .. } => "urw::new_from_seed",
            SchedSpec::RoundRobin { .. } => "round_robin",
            SchedSpec::Replay { .. } => "replay",
        }
    }
    /// The iteration budget, where the scheduler has a numeric one.
    pub fn budget(&self) -> Option<usize> {
        match self {
            SchedSpec::Fixed { paths } => Some(paths.len()),
            SchedSpec::Random { k, .. }
            | SchedSpec::Pct { k, .. }
            | SchedSpec::Urw { k, .. }
            | SchedSpec::RoundRobin { k } => Some(*k),
            SchedSpec::Dfs { k, .. } => *k,
            SchedSpec::Replay { .. } => Some(1),
        }
    }
    /// Executions do not depend on what happened in earlier executions of the same run.
    /// (Random / RoundRobin derive the next execution's seed from the data RNG, so with a body that
    /// draws random data a cut execution changes the seeds of all later ones.)
    pub fn stateless(&self, body_draws: bool) -> bool {
        match self {
            SchedSpec::Fixed { .. } | SchedSpec::Replay { .. } => true,
            SchedSpec::Random { .. } | SchedSpec::RoundRobin { .. } => !body_draws,
            _ => false,
        }
    }
    /// scheduler family, for finding keys
    pub fn family(&self) -> &'static str {
        match self {
            SchedSpec::Fixed { .. } => "fixed",
            SchedSpec::Random { .. } => "random",
            SchedSpec::Pct { .. } => "pct",
            SchedSpec::Dfs { .. } => "dfs",
            SchedSpec::Urw { .. } => "urw",
            SchedSpec::RoundRobin { .. } => "round_robin",
            SchedSpec::Replay { .. } => "replay",
        }
    }
    /// Seeded from OS entropy: schedules differ from run to run.
    pub fn os_seeded(&self) -> bool {
        matches!(
            self,
            SchedSpec::Random { seed: None, .. } | SchedSpec::Pct { seed: None, .. } | SchedSpec::Urw { seed: None, .. }
        )
    }
    pub fn describe(&self) -> String {
        match self {
            SchedSpec::Fixed { paths } => format!(
                "Fixed[{}]",
                paths.iter().map(|p| fmt_steps(p)).collect::<Vec<_>>().join(" ; ")
            ),
            SchedSpec::Replay { seed, steps } => format!("Replay(seed={}, {})", seed, fmt_steps(steps)),
            other => format!("{:?}", other),
        }
    }
}

pub fn fmt_steps(p: &[Step]) -> String {
    p.iter()
        .map(|s| match s {
            Step::T(t) => format!("{}", t),
            Step::R(_) => "r".to_string(),
        })
        .collect::<Vec<_>>()
        .join(",")
}

pub fn build(spec: &SchedSpec) -> Box<dyn Scheduler> {
    use shuttle_schedulers::*;
    match spec {
        SchedSpec::Fixed { paths } => Box::new(FixedMulti {
            paths: paths.clone(),
            exec: 0,
            pos: 0,
        }),
        SchedSpec::Random { seed: None, k } => Box::new(RandomScheduler::new(*k)),
        SchedSpec::Random { seed: Some(s), k } => Box::new(RandomScheduler::new_from_seed(*s, *k)),
        SchedSpec::Pct { seed: None, depth, k } => Box::new(PctScheduler::new(*depth, *k)),
        SchedSpec::Pct {
            seed: Some(s),
            depth,
            k,
        } => Box::new(PctScheduler::new_from_seed(*s, *depth, *k)),
        SchedSpec::Dfs { k, rand } => Box::new(DfsScheduler::new(*k, *rand)),
        SchedSpec::Urw { seed: None, k } => Box::new(UrwRandomScheduler::new(*k)),
        SchedSpec::Urw { seed: Some(s), k } => Box::new(UrwRandomScheduler::new_from_seed(*s, *k)),
        SchedSpec::RoundRobin { k } => Box::new(RoundRobinScheduler::new(*k)),
        SchedSpec::Replay { seed, steps } => {
            let mut sch = Schedule::new(*seed);
            for s in steps {
                sch.steps.push(match s {
                    Step::T(t) => ScheduleStep::Task(TaskId::from(*t)),
                    Step::R(_) => ScheduleStep::Random,
                });
            }
            Box::new(ReplayScheduler::new_from_schedule(sch))
        }
    }
}

/// Wraps the scheduler under test and counts, independently of the runtime's own bookkeeping, every
/// answered scheduling decision and every random draw of the current execution.
pub struct Counting {
    pub inner: Box<dyn Scheduler>,
}

impl Scheduler for Counting {
    fn new_execution(&mut self) -> Option<Schedule> {
        let r = self.inner.new_execution();
        if let Some(s) = &r {
            probe_start_exec(s.seed);
        }
        r
    }
    fn next_task(&mut self, runnable: &[&Task], current: Option<TaskId>, is_yielding: bool) -> Option<TaskId> {
        let a = self.inner.next_task(runnable, current, is_yielding);
        if let Some(t) = a {
            probe_step(Step::T(usize::from(t)));
        }
        a
    }
    fn next_u64(&mut self) -> u64 {
        let v = self.inner.next_u64();
        probe_step(Step::R(v));
        v
    }
}

/// One execution per stored path; a path that cannot be followed is a machinery error (recorded in
/// the probe), never a verdict.
pub struct FixedMulti {
    paths: Vec<Vec<Step>>,
    exec: usize,
    pos: usize,
}

impl Scheduler for FixedMulti {
    fn new_execution(&mut self) -> Option<Schedule> {
        if self.exec >= self.paths.len() {
            return None;
        }
        self.exec += 1;
        self.pos = 0;
        Some(Schedule::new(0))
    }
    fn next_task(&mut self, runnable: &[&Task], _c: Option<TaskId>, _y: bool) -> Option<TaskId> {
        let p = &self.paths[self.exec - 1];
        let a = p.get(self.pos).cloned();
        self.pos += 1;
        match a {
            Some(Step::T(t)) if runnable.iter().any(|r| usize::from(r.id()) == t) => Some(TaskId::from(t)),
            other => {
                probe_mismatch(format!(
                    "fixed path {} cannot be followed at position {}: stored {:?}, offered {:?}",
                    self.exec - 1,
                    self.pos - 1,
                    other,
                    runnable.iter().map(|r| usize::from(r.id())).collect::<Vec<_>>()
                ));
                None
            }
        }
    }
    fn next_u64(&mut self) -> u64 {
        let p = &self.paths[self.exec - 1];
        let a = p.get(self.pos).cloned();
        self.pos += 1;
        match a {
            Some(Step::R(v)) => v,
            other => {
                probe_mismatch(format!(
                    "fixed path {} cannot be followed at position {}: stored {:?}, random draw requested",
                    self.exec - 1,
                    self.pos - 1,
                    other
                ));
                0
            }
        }
    }
}
