//! Family `dash` (C20 part B): the Shuttle replacement of DashMap / DashSet against a plain map.
//!
//! Sequential specification = an ordinary map (kept as a sorted vector).  The replacement takes ONE
//! reader/writer lock per operation and per guard (`Ref` = shared, `RefMut` / entry = exclusive), so
//! the model is `{map, readers, writer}`: every operation is "take the lock (shared / exclusive) —
//! perform the whole map operation — give the lock back", guards keep the lock until dropped.
//! Co-simulating every execution on this model is a linearizability check of the call/return
//! history against the sequential map in which the linearization point lies inside the window in
//! which the operation holds the lock; real-time order is enforced by the step stamps.
//!
//! Recursive shared access by one thread (an operation that only reads, issued while the same thread
//! holds a `Ref`) is legal with the real dashmap (its shard lock admits recursive readers).  The
//! replacement panics there ("tried to acquire a RwLock it already holds"): that is encoded as the
//! weakened model `read-operation-while-the-same-thread-holds-a-Ref-panics`.  Operations that need
//! exclusive access while the thread itself holds a guard self-deadlock in the real dashmap too and
//! are kept out of the programs.

use shuttle_dashmap_impl::{DashMap, DashSet};
use vx::prog::*;

#[derive(Clone, Debug, PartialEq, Eq, Hash)]
pub enum DOp {
    Insert(u8, u32),
    /// get(k) and read the value, guard dropped at once
    Get(u8),
    /// get(k), keep the `Ref`
    GetHold(u8),
    /// get_mut(k), keep the `RefMut`
    GetMutHold(u8),
    /// entry(k).or_insert(v), keep the `RefMut`
    EntryHold(u8, u32),
    /// write through the held `RefMut`
    SetHeld(u32),
    /// read through the held guard
    ReadHeld,
    DropHeld,
    Remove(u8),
    /// *entry(k).or_insert(v)
    EntryOrInsert(u8, u32),
    /// alter(k, |_, v| v + d)
    Alter(u8, u32),
    ContainsKey(u8),
    Iter,
    Len,
    Clear,
    // DashSet
    SInsert(u8),
    SRemove(u8),
    SContains(u8),
    SGetHold(u8),
    SDropHeld,
    SIter,
    SLen,
    SClear,
}

#[derive(Clone, Debug, PartialEq, Eq, Hash, PartialOrd, Ord)]
pub enum DRes {
    Unit,
    Nothing,
    Opt(Option<u32>),
    Bool(bool),
    Num(usize),
    List(Vec<(u8, u32)>),
}

#[derive(Clone, Debug)]
pub struct DCfg {
    /// the weakened model (recursive shared access panics) applies to this program
    pub reentrant: bool,
}

pub struct DObjs {
    map: DashMap<u8, u32>,
    set: DashSet<u8>,
}

type MRef = shuttle_dashmap_impl::mapref::one::Ref<'static, u8, u32>;
type MRefMut = shuttle_dashmap_impl::mapref::one::RefMut<'static, u8, u32>;
type SRef = shuttle_dashmap_impl::setref::one::Ref<'static, u8>;

pub enum DHeld {
    None,
    R(MRef),
    W(MRefMut),
}

pub struct DLocals {
    h: DHeld,
    sh: Option<SRef>,
}

#[derive(Clone, Debug, PartialEq, Eq, Hash)]
pub struct MapM {
    kv: Vec<(u8, u32)>,
    /// shared holders (a thread may appear twice: its guard + a read operation in progress)
    readers: Vec<u8>,
    writer: Option<u8>,
    /// key behind the guard a thread keeps (thread, key, exclusive)
    held: Vec<(u8, u8, bool)>,
}

impl MapM {
    fn get(&self, k: u8) -> Option<u32> {
        self.kv.iter().find(|e| e.0 == k).map(|e| e.1)
    }
    fn put(&mut self, k: u8, v: u32) -> Option<u32> {
        let old = self.del(k);
        self.kv.push((k, v));
        self.kv.sort();
        old
    }
    fn del(&mut self, k: u8) -> Option<u32> {
        let p = self.kv.iter().position(|e| e.0 == k)?;
        Some(self.kv.remove(p).1)
    }
    fn can_read(&self) -> bool {
        self.writer.is_none()
    }
    fn can_write(&self) -> bool {
        self.writer.is_none() && self.readers.is_empty()
    }
    fn add_reader(&mut self, t: u8) {
        self.readers.push(t);
        self.readers.sort();
    }
    fn rm_reader(&mut self, t: u8) {
        let p = self.readers.iter().position(|r| *r == t).expect("model: reader to remove");
        self.readers.remove(p);
    }
}

#[derive(Clone, Debug, PartialEq, Eq, Hash)]
pub struct DM {
    map: MapM,
    set: MapM,
    reentrant: bool,
}

pub struct DashFam;

pub const REENTRANT_NAME: &str = "read-operation-while-the-same-thread-holds-a-Ref-panics";
const REENTRANT_PANIC: &str = "tried to acquire a RwLock it already holds";

unsafe fn ext<'a, T>(r: &'a T) -> &'static T {
    std::mem::transmute(r)
}

type Steps = Vec<MStep<DM, DRes>>;

#[derive(Clone, Copy, PartialEq)]
enum Which {
    Map,
    Set,
}

impl DashFam {
    /// "lock shared; f; unlock" — phase 0 takes the lock, phase 1 performs the read and gives it back
    fn read_op(m: &DM, w: Which, t: u8, phase: u8, f: impl Fn(&MapM) -> DRes) -> Steps {
        let mut n = m.clone();
        let x = if w == Which::Map { &mut n.map } else { &mut n.set };
        if phase == 0 {
            if weak() && m.reentrant && x.readers.contains(&t) {
                return vec![MStep::Panic(REENTRANT_PANIC.into())];
            }
            if !x.can_read() {
                return vec![];
            }
            x.add_reader(t);
            vec![MStep::Cont(n, 1)]
        } else {
            let r = f(x);
            x.rm_reader(t);
            vec![MStep::Done(n, r)]
        }
    }
    fn write_op(m: &DM, w: Which, t: u8, phase: u8, f: impl Fn(&mut MapM) -> DRes) -> Steps {
        let mut n = m.clone();
        let x = if w == Which::Map { &mut n.map } else { &mut n.set };
        if phase == 0 {
            if !x.can_write() {
                return vec![];
            }
            x.writer = Some(t);
            vec![MStep::Cont(n, 1)]
        } else {
            let r = f(x);
            x.writer = None;
            vec![MStep::Done(n, r)]
        }
    }
}

impl Family for DashFam {
    type Op = DOp;
    type Res = DRes;
    type Cfg = DCfg;
    type Objs = DObjs;
    type Locals = DLocals;
    type M = DM;
    const NAME: &'static str = "dash";

    fn make_objs(_c: &DCfg, _n: usize) -> DObjs {
        DObjs {
            map: DashMap::new(),
            set: DashSet::new(),
        }
    }
    fn new_locals(_c: &DCfg, _t: usize) -> DLocals {
        DLocals { h: DHeld::None, sh: None }
    }
    fn end_thread(_o: &DObjs, l: DLocals, _t: usize) {
        std::mem::forget(l.h);
        std::mem::forget(l.sh);
    }
    fn weakening(cfg: &DCfg) -> Option<&'static str> {
        if cfg.reentrant {
            Some(REENTRANT_NAME)
        } else {
            None
        }
    }
    fn objects_of(op: &DOp) -> Vec<u32> {
        match op {
            DOp::SInsert(_) | DOp::SRemove(_) | DOp::SContains(_) | DOp::SGetHold(_) | DOp::SDropHeld | DOp::SIter | DOp::SLen | DOp::SClear => vec![0x801],
            _ => vec![0x800],
        }
    }

    fn exec(o: &DObjs, l: &mut DLocals, _t: usize, op: &DOp) -> DRes {
        let map: &'static DashMap<u8, u32> = unsafe { ext(&o.map) };
        let set: &'static DashSet<u8> = unsafe { ext(&o.set) };
        match op {
            DOp::Insert(k, v) => DRes::Opt(map.insert(*k, *v)),
            DOp::Get(k) => DRes::Opt(map.get(k).map(|r| *r)),
            DOp::GetHold(k) => {
                assert!(matches!(l.h, DHeld::None), "ill-formed program");
                match map.get(k) {
                    Some(r) => {
                        let v = *r;
                        l.h = DHeld::R(r);
                        DRes::Opt(Some(v))
                    }
                    None => DRes::Opt(None),
                }
            }
            DOp::GetMutHold(k) => {
                assert!(matches!(l.h, DHeld::None), "ill-formed program");
                match map.get_mut(k) {
                    Some(r) => {
                        let v = *r;
                        l.h = DHeld::W(r);
                        DRes::Opt(Some(v))
                    }
                    None => DRes::Opt(None),
                }
            }
            DOp::EntryHold(k, v) => {
                assert!(matches!(l.h, DHeld::None), "ill-formed program");
                let r = map.entry(*k).or_insert(*v);
                let seen = *r;
                l.h = DHeld::W(r);
                DRes::Opt(Some(seen))
            }
            DOp::SetHeld(v) => match &mut l.h {
                DHeld::W(r) => {
                    **r = *v;
                    DRes::Unit
                }
                _ => DRes::Nothing,
            },
            DOp::ReadHeld => match &l.h {
                DHeld::W(r) => DRes::Opt(Some(**r)),
                DHeld::R(r) => DRes::Opt(Some(**r)),
                DHeld::None => DRes::Nothing,
            },
            DOp::DropHeld => match std::mem::replace(&mut l.h, DHeld::None) {
                DHeld::None => DRes::Nothing,
                DHeld::R(r) => {
                    drop(r);
                    DRes::Unit
                }
                DHeld::W(r) => {
                    drop(r);
                    DRes::Unit
                }
            },
            DOp::Remove(k) => DRes::Opt(map.remove(k).map(|(k2, v)| {
                assert_eq!(k2, *k);
                v
            })),
            DOp::EntryOrInsert(k, v) => {
                let r = map.entry(*k).or_insert(*v);
                DRes::Opt(Some(*r))
            }
            DOp::Alter(k, d) => {
                map.alter(k, |_, v| v + *d);
                DRes::Unit
            }
            DOp::ContainsKey(k) => DRes::Bool(map.contains_key(k)),
            DOp::Iter => {
                let mut v: Vec<(u8, u32)> = map.iter().map(|r| (*r.key(), *r.value())).collect();
                v.sort();
                DRes::List(v)
            }
            DOp::Len => DRes::Num(map.len()),
            DOp::Clear => {
                map.clear();
                DRes::Unit
            }
            DOp::SInsert(k) => DRes::Bool(set.insert(*k)),
            DOp::SRemove(k) => DRes::Opt(set.remove(k).map(|k| k as u32)),
            DOp::SContains(k) => DRes::Bool(set.contains(k)),
            DOp::SGetHold(k) => {
                assert!(l.sh.is_none(), "ill-formed program");
                match set.get(k) {
                    Some(r) => {
                        let v = *r.key();
                        l.sh = Some(r);
                        DRes::Opt(Some(v as u32))
                    }
                    None => DRes::Opt(None),
                }
            }
            DOp::SDropHeld => match l.sh.take() {
                None => DRes::Nothing,
                Some(r) => {
                    drop(r);
                    DRes::Unit
                }
            },
            DOp::SIter => {
                let mut v: Vec<(u8, u32)> = set.iter().map(|r| (*r.key(), 0)).collect();
                v.sort();
                DRes::List(v)
            }
            DOp::SLen => DRes::Num(set.len()),
            DOp::SClear => {
                set.clear();
                DRes::Unit
            }
        }
    }

    fn m_init(cfg: &DCfg, _n: usize) -> DM {
        let e = MapM {
            kv: vec![],
            readers: vec![],
            writer: None,
            held: vec![],
        };
        DM {
            map: e.clone(),
            set: e,
            reentrant: cfg.reentrant,
        }
    }

    fn m_step(m: &DM, t: usize, op: &DOp, phase: u8, _strict: bool) -> Steps {
        let t = t as u8;
        use Which::*;
        match op {
            DOp::Insert(k, v) => Self::write_op(m, Map, t, phase, |x| DRes::Opt(x.put(*k, *v))),
            DOp::Remove(k) => Self::write_op(m, Map, t, phase, |x| DRes::Opt(x.del(*k))),
            DOp::EntryOrInsert(k, v) => Self::write_op(m, Map, t, phase, |x| {
                if x.get(*k).is_none() {
                    x.put(*k, *v);
                }
                DRes::Opt(x.get(*k))
            }),
            DOp::Alter(k, d) => Self::write_op(m, Map, t, phase, |x| {
                if let Some(v) = x.get(*k) {
                    x.put(*k, v + *d);
                }
                DRes::Unit
            }),
            DOp::Clear => Self::write_op(m, Map, t, phase, |x| {
                x.kv.clear();
                DRes::Unit
            }),
            DOp::Get(k) => Self::read_op(m, Map, t, phase, |x| DRes::Opt(x.get(*k))),
            DOp::ContainsKey(k) => Self::read_op(m, Map, t, phase, |x| DRes::Bool(x.get(*k).is_some())),
            DOp::Iter => Self::read_op(m, Map, t, phase, |x| DRes::List(x.kv.clone())),
            DOp::Len => Self::read_op(m, Map, t, phase, |x| DRes::Num(x.kv.len())),
            DOp::SInsert(k) => Self::write_op(m, Set, t, phase, |x| DRes::Bool(x.put(*k, 0).is_none())),
            DOp::SRemove(k) => Self::write_op(m, Set, t, phase, |x| DRes::Opt(x.del(*k).map(|_| *k as u32))),
            DOp::SClear => Self::write_op(m, Set, t, phase, |x| {
                x.kv.clear();
                DRes::Unit
            }),
            DOp::SContains(k) => Self::read_op(m, Set, t, phase, |x| DRes::Bool(x.get(*k).is_some())),
            DOp::SIter => Self::read_op(m, Set, t, phase, |x| DRes::List(x.kv.clone())),
            DOp::SLen => Self::read_op(m, Set, t, phase, |x| DRes::Num(x.kv.len())),
            DOp::GetHold(k) | DOp::SGetHold(k) => {
                let is_map = matches!(op, DOp::GetHold(_));
                let mut n = m.clone();
                let x = if is_map { &mut n.map } else { &mut n.set };
                if phase == 0 {
                    if weak() && m.reentrant && x.readers.contains(&t) {
                        return vec![MStep::Panic(REENTRANT_PANIC.into())];
                    }
                    if !x.can_read() {
                        return vec![];
                    }
                    x.add_reader(t);
                    match x.get(*k) {
                        Some(v) => {
                            x.held.push((t, *k, false));
                            let r = if is_map { v } else { *k as u32 };
                            vec![MStep::Done(n, DRes::Opt(Some(r)))]
                        }
                        // absent: the lock is given back before the call returns
                        None => vec![MStep::Cont(n, 1)],
                    }
                } else {
                    x.rm_reader(t);
                    vec![MStep::Done(n, DRes::Opt(None))]
                }
            }
            DOp::GetMutHold(k) => {
                let mut n = m.clone();
                let x = &mut n.map;
                if phase == 0 {
                    if !x.can_write() {
                        return vec![];
                    }
                    x.writer = Some(t);
                    match x.get(*k) {
                        Some(v) => {
                            x.held.push((t, *k, true));
                            vec![MStep::Done(n, DRes::Opt(Some(v)))]
                        }
                        None => vec![MStep::Cont(n, 1)],
                    }
                } else {
                    x.writer = None;
                    vec![MStep::Done(n, DRes::Opt(None))]
                }
            }
            DOp::EntryHold(k, v) => {
                let mut n = m.clone();
                let x = &mut n.map;
                if !x.can_write() {
                    return vec![];
                }
                x.writer = Some(t);
                if x.get(*k).is_none() {
                    x.put(*k, *v);
                }
                x.held.push((t, *k, true));
                let seen = x.get(*k);
                vec![MStep::Done(n, DRes::Opt(seen))]
            }
            DOp::SetHeld(v) => {
                let mut n = m.clone();
                match n.map.held.iter().find(|h| h.0 == t).cloned() {
                    Some((_, k, true)) => {
                        n.map.put(k, *v);
                        vec![MStep::Done(n, DRes::Unit)]
                    }
                    _ => vec![MStep::Done(n, DRes::Nothing)],
                }
            }
            DOp::ReadHeld => {
                let n = m.clone();
                match n.map.held.iter().find(|h| h.0 == t).cloned() {
                    Some((_, k, _)) => {
                        let v = n.map.get(k);
                        vec![MStep::Done(n, DRes::Opt(v))]
                    }
                    None => vec![MStep::Done(n, DRes::Nothing)],
                }
            }
            DOp::DropHeld | DOp::SDropHeld => {
                let mut n = m.clone();
                let x = if matches!(op, DOp::DropHeld) { &mut n.map } else { &mut n.set };
                match x.held.iter().position(|h| h.0 == t) {
                    Some(p) => {
                        let (_, _, excl) = x.held.remove(p);
                        if excl {
                            x.writer = None;
                        } else {
                            x.rm_reader(t);
                        }
                        vec![MStep::Done(n, DRes::Unit)]
                    }
                    None => vec![MStep::Done(n, DRes::Nothing)],
                }
            }
        }
    }
}

// ---------------------------------------------------------------------------------------------
// program generation
// ---------------------------------------------------------------------------------------------

fn plain_ops(keys: &[u8], rich: bool) -> Vec<DOp> {
    let mut plain: Vec<DOp> = Vec::new();
    if rich {
        for &key in keys {
            plain.push(DOp::Insert(key, 1));
            plain.push(DOp::Get(key));
            plain.push(DOp::Remove(key));
            plain.push(DOp::EntryOrInsert(key, 2));
            plain.push(DOp::Alter(key, 100));
            plain.push(DOp::ContainsKey(key));
        }
    } else {
        // both keys are written and read, every operation kind occurs
        plain.extend([DOp::Insert(0, 1), DOp::Insert(1, 1), DOp::Get(0), DOp::Remove(0), DOp::EntryOrInsert(1, 2), DOp::Alter(0, 100)]);
    }
    plain.push(DOp::Iter);
    plain.push(DOp::Len);
    plain.push(DOp::Clear);
    plain
}

/// all sequences of 1..=k plain operations
fn plain_bodies(plain: &[DOp], k: usize) -> Vec<Vec<DOp>> {
    let mut out: Vec<Vec<DOp>> = Vec::new();
    let mut layer: Vec<Vec<DOp>> = vec![vec![]];
    for _ in 0..k {
        let mut next = Vec::new();
        for b in &layer {
            for p in plain {
                let mut c = b.clone();
                c.push(p.clone());
                next.push(c);
            }
        }
        out.extend(next.iter().cloned());
        layer = next;
    }
    out
}

/// bodies built around a guard that is kept across other operations of the thread (`tail`: plain
/// operations issued after the guard is dropped; never while it is held — that self-deadlocks in
/// the real dashmap as well)
fn hold_bodies(keys: &[u8], tails: &[DOp]) -> Vec<Vec<DOp>> {
    let mut out = Vec::new();
    for &k in keys {
        let cores: Vec<Vec<DOp>> = vec![
            vec![DOp::GetHold(k), DOp::DropHeld],
            vec![DOp::GetHold(k), DOp::ReadHeld, DOp::DropHeld],
            vec![DOp::GetHold(k)],
            vec![DOp::GetMutHold(k), DOp::SetHeld(7), DOp::DropHeld],
            vec![DOp::GetMutHold(k), DOp::SetHeld(7), DOp::ReadHeld, DOp::DropHeld],
            vec![DOp::GetMutHold(k), DOp::SetHeld(7)],
            vec![DOp::EntryHold(k, 3), DOp::SetHeld(7), DOp::DropHeld],
            vec![DOp::EntryHold(k, 3), DOp::ReadHeld, DOp::DropHeld],
        ];
        for c in cores {
            out.push(c.clone());
            if matches!(c.last(), Some(DOp::DropHeld)) {
                for t in tails {
                    let mut d = c.clone();
                    d.push(t.clone());
                    out.push(d);
                }
            }
        }
    }
    out
}

fn set_plain(rich: bool) -> Vec<DOp> {
    if rich {
        vec![DOp::SInsert(0), DOp::SInsert(1), DOp::SRemove(0), DOp::SRemove(1), DOp::SContains(0), DOp::SContains(1), DOp::SIter, DOp::SLen, DOp::SClear]
    } else {
        vec![DOp::SInsert(0), DOp::SInsert(1), DOp::SRemove(0), DOp::SContains(0), DOp::SIter, DOp::SLen, DOp::SClear]
    }
}

/// values are made specific to the thread that writes them
fn personalise(ops: &[DOp], t: usize) -> Vec<DOp> {
    let d = 10 * t as u32;
    ops.iter()
        .map(|o| match o {
            DOp::Insert(k, v) => DOp::Insert(*k, v + d),
            DOp::EntryOrInsert(k, v) => DOp::EntryOrInsert(*k, v + d),
            DOp::EntryHold(k, v) => DOp::EntryHold(*k, v + d),
            DOp::SetHeld(v) => DOp::SetHeld(v + d),
            DOp::Alter(k, a) => DOp::Alter(*k, a * (t as u32 + 1)),
            x => x.clone(),
        })
        .collect()
}

/// main performs `pre` BEFORE it spawns the children (no race with them), then joins
fn mk(pre: &[DOp], children: &[&Vec<DOp>], reentrant: bool) -> Program<DashFam> {
    let n = children.len();
    let mut main: Vec<GOp<DOp>> = personalise(pre, 0).into_iter().map(GOp::Op).collect();
    main.extend((1..=n).map(GOp::Spawn));
    main.extend((1..=n).map(GOp::Join));
    let mut threads = vec![main];
    for (i, c) in children.iter().enumerate() {
        threads.push(personalise(c, i + 1).into_iter().map(GOp::Op).collect());
    }
    Program {
        cfg: DCfg { reentrant },
        threads,
    }
}

/// main performs `ops` concurrently with the children
fn mk_racing(ops: &[DOp], children: &[&Vec<DOp>]) -> Program<DashFam> {
    Program::fork_join(DCfg { reentrant: false }, personalise(ops, 0), children.iter().enumerate().map(|(i, c)| personalise(c, i + 1)).collect())
}

/// number of operations that take the lock
fn weight(s: &[DOp]) -> usize {
    s.iter().map(|o| if matches!(o, DOp::SetHeld(_) | DOp::ReadHeld | DOp::DropHeld | DOp::SDropHeld) { 0 } else { 1 }).sum()
}

fn pairs(out: &mut Vec<Program<DashFam>>, pre: &[DOp], bs: &[Vec<DOp>], ok: impl Fn(usize, usize) -> bool) {
    for idx in nondecreasing_tuples(bs.len(), 2) {
        let (a, b) = (&bs[idx[0]], &bs[idx[1]]);
        if ok(weight(a), weight(b)) {
            out.push(mk(pre, &[a, b], false));
        }
    }
}

pub fn program_set(set: &str) -> Vec<Program<DashFam>> {
    let thorough = set == "thorough";
    let mut out = Vec::new();
    let keys = [0u8, 1];
    let pre = [DOp::Insert(0, 5)];
    let small: Vec<DOp> = vec![DOp::Insert(0, 1), DOp::Get(0), DOp::Remove(0), DOp::EntryOrInsert(1, 2), DOp::Alter(0, 100), DOp::Iter, DOp::Clear];
    // B1: two threads on the map, two keys (one of them pre-filled by main): plain operations and guards
    if !thorough {
        let mut bs = plain_bodies(&small, 1);
        let small5 = vec![DOp::Insert(0, 1), DOp::Get(0), DOp::Remove(0), DOp::EntryOrInsert(1, 2), DOp::Iter];
        bs.extend(plain_bodies(&small5, 2).into_iter().filter(|b| b.len() == 2));
        bs.extend(hold_bodies(&keys, &[]));
        pairs(&mut out, &pre, &bs, |a, b| a + b <= 3);
    } else {
        let rich = plain_ops(&keys, true);
        let mut bs = plain_bodies(&rich, 2);
        bs.extend(hold_bodies(&keys, &rich));
        pairs(&mut out, &pre, &bs, |a, b| a + b <= 3);
        let mut bs = plain_bodies(&small, 3);
        bs.extend(hold_bodies(&keys, &small));
        pairs(&mut out, &pre, &bs, |a, b| a + b == 4);
    }
    // B1': main's insert races with two single-operation children
    {
        let plain = if thorough { plain_ops(&keys, true) } else { vec![DOp::Get(0), DOp::Remove(0), DOp::EntryOrInsert(0, 2), DOp::Iter] };
        let bs = plain_bodies(&plain, 1);
        for idx in nondecreasing_tuples(bs.len(), 2) {
            out.push(mk_racing(&pre, &[&bs[idx[0]], &bs[idx[1]]]));
        }
    }
    // B2: three threads
    if thorough {
        let mut bs = plain_bodies(&plain_ops(&keys, false), 1);
        bs.push(vec![DOp::GetMutHold(0), DOp::SetHeld(7), DOp::DropHeld]);
        bs.push(vec![DOp::GetHold(0), DOp::ReadHeld, DOp::DropHeld]);
        bs.push(vec![DOp::EntryHold(1, 3), DOp::SetHeld(7), DOp::DropHeld]);
        for idx in nondecreasing_tuples(bs.len(), 3) {
            out.push(mk(&pre, &[&bs[idx[0]], &bs[idx[1]], &bs[idx[2]]], false));
        }
    } else {
        let h = vec![DOp::GetMutHold(0), DOp::SetHeld(7), DOp::DropHeld];
        out.push(mk(&pre, &[&vec![DOp::Insert(0, 1)], &vec![DOp::Get(0)], &vec![DOp::Remove(0)]], false));
        out.push(mk(&pre, &[&vec![DOp::EntryOrInsert(1, 2)], &vec![DOp::Iter], &h], false));
        out.push(mk(&pre, &[&vec![DOp::Alter(0, 100)], &vec![DOp::Alter(0, 100)], &vec![DOp::Get(0)]], false));
    }
    // B3: DashSet
    {
        let spre = [DOp::SInsert(0)];
        let ssmall = vec![DOp::SInsert(1), DOp::SRemove(0), DOp::SContains(0), DOp::SIter];
        let holds = |tails: &[DOp]| -> Vec<Vec<DOp>> {
            let mut v = Vec::new();
            for k in keys {
                v.push(vec![DOp::SGetHold(k), DOp::SDropHeld]);
                v.push(vec![DOp::SGetHold(k)]);
                for p in tails {
                    v.push(vec![DOp::SGetHold(k), DOp::SDropHeld, p.clone()]);
                }
            }
            v
        };
        if !thorough {
            let mut bs = plain_bodies(&ssmall, 2);
            bs.extend(holds(&[]));
            pairs(&mut out, &spre, &bs, |a, b| a + b <= 3);
        } else {
            let rich = set_plain(true);
            let mut bs = plain_bodies(&rich, 2);
            bs.extend(holds(&rich));
            pairs(&mut out, &spre, &bs, |a, b| a + b <= 3);
            let mut bs = plain_bodies(&set_plain(false), 3);
            bs.extend(holds(&set_plain(false)));
            pairs(&mut out, &spre, &bs, |a, b| a + b == 4);
            let b1 = plain_bodies(&rich, 1);
            for idx in nondecreasing_tuples(b1.len(), 3) {
                out.push(mk(&spre, &[&b1[idx[0]], &b1[idx[1]], &b1[idx[2]]], false));
            }
        }
    }
    // B4: a thread reads the map while holding a Ref of its own (legal with the real dashmap)
    {
        let reads = [DOp::Get(0), DOp::Get(1), DOp::Len, DOp::Iter, DOp::ContainsKey(0)];
        let others: Vec<Vec<DOp>> = vec![vec![], vec![DOp::Insert(1, 1)], vec![DOp::Get(0)], vec![DOp::Remove(0)]];
        for r in &reads {
            for o in &others {
                let a = vec![DOp::GetHold(0), r.clone(), DOp::DropHeld];
                if o.is_empty() {
                    out.push(mk(&pre, &[&a], true));
                } else {
                    out.push(mk(&pre, &[&a, o], true));
                }
            }
        }
        let a = vec![DOp::SGetHold(0), DOp::SContains(0), DOp::SDropHeld];
        out.push(mk(&[DOp::SInsert(0)], &[&a], true));
    }
    out.sort_by_key(|p| p.size());
    out
}
